"""Differential test for refactoring C05/1.

Refactored code:
  * gemdat.transitions._calculate_transitions_matrix (now a 3-stage pipeline passing a small dataclass)
  * gemdat.jumps.Jumps.jump_diffusivity (hoisted prefactor, swapped operands, np.square / .sum())
  * gemdat.jumps.Jumps.rates (loop-invariant denominator hoisted)

The same worker (below) is run twice in a subprocess, once with the ORIGINAL sources on PYTHONPATH and once with
the refactored worktree; the pickled results are compared.  Exit status is non-zero on any difference.

Where the original comes from: $GEMDAT_ORIG_SRC if set; otherwise the untouched HEAD of the worktree's git
repository (exported with `git archive`, identical to the pristine sources); if that is unavailable, /repo/src.
"""
import os
import pickle
import subprocess
import sys
import tempfile

import numpy as np

WORKTREE = os.environ.get('GEMDAT_WORKTREE', '/tmp/wtu_C05')
NEW_SRC = os.environ.get('GEMDAT_NEW_SRC', os.path.join(WORKTREE, 'src'))
PYTHON = '/venv/bin/python' if os.path.exists('/venv/bin/python') else sys.executable
N_CASES = 30

WORKER = r'''
import pickle, sys, warnings
import numpy as np
import pandas as pd
warnings.filterwarnings('ignore')
from pymatgen.core import Element, Lattice, Structure
import gemdat
from gemdat import Trajectory
from gemdat.transitions import Transitions, _calculate_transitions_matrix, _calculate_transition_events


def guarded(fn):
    try:
        return ('ok', fn())
    except Exception as exc:  # compare failures too
        return ('err', type(exc).__name__, str(exc))


def random_lattice(rng, kind):
    if kind == 0:
        return Lattice.cubic(rng.uniform(6, 9))
    if kind == 1:
        return Lattice.from_parameters(rng.uniform(6, 8), rng.uniform(7, 9), rng.uniform(8, 10),
                                       rng.uniform(70, 110), rng.uniform(70, 110), rng.uniform(70, 110))
    # triclinic AND rotated (not in the a-along-x convention)
    base = Lattice.from_parameters(rng.uniform(6, 8), rng.uniform(7, 9), rng.uniform(8, 10),
                                   rng.uniform(75, 105), rng.uniform(75, 105), rng.uniform(75, 105)).matrix
    q, _ = np.linalg.qr(rng.normal(size=(3, 3)))
    if np.linalg.det(q) < 0:
        q[:, 0] *= -1
    return Lattice(base @ q)


def random_sites(rng, lattice, n_sites, n_labels):
    # well separated fractional positions on a jittered grid, some close to cell faces
    grid = np.array([(i, j, k) for i in range(3) for j in range(3) for k in range(3)], dtype=float) / 3.0
    pick = rng.choice(len(grid), size=n_sites, replace=False)
    frac = (grid[pick] + rng.uniform(-0.02, 0.02, size=(n_sites, 3))) % 1.0
    labels = ['S%d' % (i % n_labels) for i in range(n_sites)]
    return Structure(lattice, ['Li'] * n_sites, frac, labels=labels)


def random_states(rng, n_steps, n_atoms, n_sites, p_move, p_nosite):
    states = np.empty((n_steps, n_atoms), dtype=int)
    cur = rng.integers(-1, n_sites, size=n_atoms)
    for t in range(n_steps):
        move = rng.random(n_atoms) < p_move
        new = rng.integers(0, n_sites, size=n_atoms)
        new[rng.random(n_atoms) < p_nosite] = -1
        cur = np.where(move, new, cur)
        states[t] = cur
    return states


def make_case(seed):
    rng = np.random.default_rng(seed)
    lattice = random_lattice(rng, seed % 3)
    n_sites = int(rng.integers(2, 9))
    n_labels = int(rng.integers(1, min(n_sites, 3) + 1))
    sites = random_sites(rng, lattice, n_sites, n_labels)
    n_atoms = int(rng.integers(1, 5))
    n_steps = int(rng.integers(60, 160))
    states = random_states(rng, n_steps, n_atoms, n_sites, rng.uniform(0.03, 0.25), rng.uniform(0.0, 0.6))
    # inner states: same site or NOSITE (the inner sphere is inside the outer one)
    inner = np.where(rng.random(states.shape) < rng.uniform(0.2, 0.9), states, -1)
    # coordinates: at the site (or between sites) plus noise; wrapped so that atoms cross cell faces
    site_frac = sites.frac_coords
    pos = np.where(states[..., None] >= 0, site_frac[np.clip(states, 0, None)], 0.5)
    pos = pos + rng.normal(scale=0.01, size=pos.shape)
    n_frame = int(rng.integers(0, 3))
    frame_pos = rng.random((n_frame, 3))[None] + rng.normal(scale=0.005, size=(n_steps, n_frame, 3))
    coords = np.concatenate([pos, frame_pos], axis=1) % 1.0
    species = [Element('Li')] * n_atoms + [Element('S')] * n_frame
    traj = Trajectory(species=species, coords=coords, lattice=lattice, time_step=float(rng.uniform(1e-15, 3e-15)),
                      metadata={'temperature': float(rng.uniform(300, 900))})
    return rng, traj, sites, states, inner


def graph_dump(g):
    return (sorted(g.nodes(data='label')), [(u, v, d['e_act']) for u, v, d in g.edges(data=True)])


def run_case(seed):
    rng, traj, sites, states, inner = make_case(seed)
    out = {}
    diff = traj.filter('Li')

    def build_from_states():
        events = _calculate_transition_events(atom_sites=states, atom_inner_sites=inner)
        return Transitions(trajectory=traj, diff_trajectory=diff, sites=sites, events=events,
                           states=states, inner_states=inner)

    def build_from_trajectory():
        radius = float(rng.uniform(0.3, 0.9))
        if seed % 2:
            radius = {lab: float(rng.uniform(0.3, 0.9)) for lab in sorted(set(sites.labels))}
        return Transitions.from_trajectory(trajectory=traj, sites=sites, floating_specie='Li',
                                           site_radius=radius, site_inner_fraction=float(rng.uniform(0.5, 1.0)))

    for name, builder in (('states', build_from_states), ('traj', build_from_trajectory)):
        res = guarded(builder)
        if res[0] != 'ok':
            out[name] = res
            continue
        tr = res[1]
        out[name + '.events'] = tr.events.to_numpy()
        out[name + '.matrix'] = guarded(lambda: tr.matrix())
        for resid in (0, int(rng.integers(1, 6))):
            key = '%s.j%d' % (name, resid)
            jres = guarded(lambda: tr.jumps(minimal_residence=resid))
            if jres[0] != 'ok':
                out[key] = jres
                continue
            jumps = jres[1]
            out[key + '.matrix'] = guarded(lambda: jumps.matrix())
            out[key + '.n_jumps'] = jumps.n_jumps
            for dims in (1, 2, 3):
                out[key + '.diff%d' % dims] = guarded(lambda: float(jumps.jump_diffusivity(dims)))
            out[key + '.difftype'] = guarded(lambda: (type(jumps.jump_diffusivity(3)).__name__,
                                                      str(jumps.jump_diffusivity(3).unit)))
            out[key + '.counter'] = guarded(lambda: sorted(jumps.counter().items()))
            for n_parts in (2, 3, 10):
                out[key + '.rates%d' % n_parts] = guarded(
                    lambda: (lambda df: (list(df.index), list(df.columns), df.to_numpy()))(jumps.rates(n_parts)))
            out[key + '.graph'] = guarded(lambda: graph_dump(jumps.to_graph()))

    # direct calls of the matrix helper on raw event tables, including NOSITE rows and an empty table
    for k in range(4):
        n_sites = int(rng.integers(1, 7))
        n_rows = int(rng.integers(0, 40)) if k else 0
        table = pd.DataFrame({
            'atom index': rng.integers(0, 3, n_rows),
            'start site': rng.integers(-1, n_sites, n_rows),
            'destination site': rng.integers(-1, n_sites, n_rows),
            'start inner site': rng.integers(-1, n_sites, n_rows),
            'destination inner site': rng.integers(-1, n_sites, n_rows),
            'time': np.sort(rng.integers(0, 100, n_rows)),
        })
        out['direct%d' % k] = guarded(lambda: _calculate_transitions_matrix(table, n_sites=n_sites))
        out['direct%d.dtype' % k] = guarded(lambda: str(_calculate_transitions_matrix(table, n_sites=n_sites).dtype))
    return out


if __name__ == '__main__':
    seeds = [int(s) for s in sys.argv[1:]]
    sys.stdout.buffer.write(pickle.dumps({seed: run_case(seed) for seed in seeds}))
'''


def original_src(tmp):
    env_src = os.environ.get('GEMDAT_ORIG_SRC')
    if env_src:
        return env_src
    try:
        archive = subprocess.run(['git', '-C', WORKTREE, 'archive', 'HEAD', 'src/gemdat'], check=True,
                                 capture_output=True).stdout
        subprocess.run(['tar', '-x', '-C', tmp], input=archive, check=True)
        return os.path.join(tmp, 'src')
    except Exception:
        return '/repo/src'


def run_worker(worker_path, src, seeds):
    env = dict(os.environ, PYTHONPATH=src, PYTHONHASHSEED='0')
    proc = subprocess.run([PYTHON, worker_path, *map(str, seeds)], env=env, capture_output=True, cwd='/tmp')
    if proc.returncode != 0:
        sys.stderr.write(proc.stderr.decode())
        raise SystemExit(f'worker failed for {src}')
    return pickle.loads(proc.stdout)


def same(a, b, path, problems):
    if type(a) is not type(b):
        problems.append(f'{path}: type {type(a).__name__} != {type(b).__name__}')
    elif isinstance(a, dict):
        if list(a) != list(b):
            problems.append(f'{path}: keys differ')
        else:
            for k in a:
                same(a[k], b[k], f'{path}/{k}', problems)
    elif isinstance(a, (list, tuple)):
        if len(a) != len(b):
            problems.append(f'{path}: length {len(a)} != {len(b)}')
        else:
            for i, (x, y) in enumerate(zip(a, b)):
                same(x, y, f'{path}[{i}]', problems)
    elif isinstance(a, np.ndarray):
        if a.shape != b.shape or a.dtype != b.dtype:
            problems.append(f'{path}: shape/dtype {a.shape}{a.dtype} != {b.shape}{b.dtype}')
        elif a.dtype.kind == 'f':
            if not np.allclose(a, b, rtol=1e-12, atol=0, equal_nan=True):
                problems.append(f'{path}: float arrays differ')
        elif not np.array_equal(a, b):
            problems.append(f'{path}: arrays differ')
    elif isinstance(a, float):
        if not (a == b or (a != a and b != b) or abs(a - b) <= 1e-12 * max(abs(a), abs(b))):
            problems.append(f'{path}: {a!r} != {b!r}')
    elif a != b:
        problems.append(f'{path}: {a!r} != {b!r}')


def main():
    seeds = list(range(1000, 1000 + N_CASES))
    with tempfile.TemporaryDirectory() as tmp:
        worker_path = os.path.join(tmp, 'worker.py')
        with open(worker_path, 'w') as fh:
            fh.write(WORKER)
        orig = run_worker(worker_path, original_src(tmp), seeds)
        new = run_worker(worker_path, NEW_SRC, seeds)
    problems = []
    same(orig, new, '', problems)
    n_values = sum(len(v) for v in orig.values())
    n_ok = sum(1 for v in orig.values() for r in v.values() if not (isinstance(r, tuple) and r and isinstance(r[0], str) and r[0] == 'err'))
    print(f'cases={len(orig)} compared_values={n_values} non_error_values={n_ok} differences={len(problems)}')
    for p in problems[:40]:
        print('  DIFF', p)
    return 1 if problems else 0


if __name__ == '__main__':
    sys.exit(main())
