"""Differential test: original (/repo/src) vs refactored (/tmp/wtu_C08/src) trajectory_to_volume.

Runs itself as a worker twice (PYTHONPATH=/repo/src and PYTHONPATH=/tmp/wtu_C08/src), pickles the
results of the same seeded random inputs and compares them bit-for-bit.  Exit code 0 == identical.
"""
import os
import pickle
import subprocess
import sys
import tempfile

ORIG = '/repo/src'
NEW = '/tmp/wtu_C08/src'
PY = '/venv/bin/python'


def worker(out):
    import warnings
    from types import SimpleNamespace

    import numpy as np
    from pymatgen.core import Element, Lattice

    import gemdat
    from gemdat.volume import trajectory_to_volume

    warnings.filterwarnings('ignore')
    assert os.path.dirname(gemdat.__file__).startswith(os.environ['EXPECT_ROOT']), gemdat.__file__
    rng = np.random.default_rng(80801)

    def rand_lattice(kind):
        if kind == 0:
            a = rng.uniform(1.5, 7)
            return Lattice.cubic(a)
        if kind == 1:
            return Lattice.orthorhombic(*rng.uniform(1.5, 8, 3))
        if kind == 2:
            return Lattice.from_parameters(*rng.uniform(2, 8, 3), *rng.uniform(65, 115, 3))
        if kind == 3:  # rotated triclinic
            m = Lattice.from_parameters(*rng.uniform(2, 8, 3), *rng.uniform(70, 110, 3)).matrix
            q, _ = np.linalg.qr(rng.normal(size=(3, 3)))
            return Lattice(m @ q)
        # lengths that are exact multiples of the resolution candidates
        return Lattice.orthorhombic(*(rng.integers(2, 9, 3) * rng.choice([0.2, 0.25, 0.5, 0.3])))

    def special_coords(lat, res, n):
        """Coordinates sitting on / next to voxel faces and cell faces."""
        vals = [0.0, -0.0, np.nextafter(1.0, 0.0), np.nextafter(0.0, 1.0), 0.5]
        for length in lat.lengths:
            k = int(1 + length // res)
            if k >= 2:
                nodes = np.linspace(0, 1, k)[:-1]
                vals.extend(nodes)
                vals.extend(np.nextafter(nodes[1:], 0.0))
                vals.extend(np.nextafter(nodes, 1.0))
                vals.extend(np.arange(k - 1) / (k - 1))
        vals = np.array(vals)
        vals = vals[(vals >= 0) & (vals < 1)]
        return rng.choice(vals, size=(n, 3))

    def run(traj, res):
        try:
            vol = trajectory_to_volume(traj, resolution=res)
        except Exception as exc:  # noqa: BLE001
            return ('err', type(exc).__name__)
        return (
            'ok',
            vol.data.dtype.str,
            vol.data.shape,
            vol.data.tobytes(),
            tuple(vol.dims),
            vol.label,
            vol.lattice.matrix.tobytes(),
            vol.voxel_size.tobytes(),
            str(vol.units),
        )

    results = []
    # --- real Trajectory objects ------------------------------------------------------------
    for case in range(40):
        lat = rand_lattice(case % 5)
        res = float(rng.choice([0.2, 0.25, 0.3, 0.5, 0.7, 1.0, rng.uniform(0.15, 1.2)]))
        n_frames = int(rng.integers(1, 12))
        n_atoms = int(rng.integers(1, 7))
        coords = rng.uniform(-1.5, 2.5, size=(n_frames, n_atoms, 3))  # crosses cell faces; wrapped by .positions
        if case % 3 == 0:
            coords = special_coords(lat, res, n_frames * n_atoms).reshape(n_frames, n_atoms, 3)
        if case % 7 == 0:
            coords[0] = -1e-18  # np.mod would give exactly 1.0; gemdat maps it to 0
        species = [Element('Li')] * n_atoms
        traj = gemdat.Trajectory(
            species=species, coords=coords, lattice=lat, time_step=1e-15, metadata={'temperature': 300}
        )
        results.append((('traj', case), run(traj, res)))
        if case % 4 == 0:
            r = traj.to_volume(resolution=res)
            results.append((('to_volume', case), (r.data.tobytes(), r.data.shape)))
        if case % 5 == 0:
            results.append((('default-res', case), run(traj, 0.2)))
            results.append((('int-res', case), run(traj, 1)))

    # --- duck-typed trajectories: lets us feed raw positions (boundary / invalid) -------------
    def fake(lat, pos):
        return SimpleNamespace(get_lattice=lambda: lat, positions=pos)

    for case in range(40):
        lat = rand_lattice(case % 5)
        res = float(rng.choice([0.2, 0.31, 0.5, 0.9]))
        pos = special_coords(lat, res, 60).reshape(5, 12, 3)
        results.append((('fake-special', case), run(fake(lat, pos), res)))
        results.append((('fake-np-res', case), run(fake(lat, pos), np.float64(res))))

    lat = Lattice.from_parameters(3.1, 4.2, 5.3, 80, 95, 105)
    good = rng.uniform(0, 1, size=(4, 3, 3))
    bad_hi = good.copy(); bad_hi[1, 1, 2] = 1.0
    bad_lo = good.copy(); bad_lo[2, 0, 0] = -1e-9
    nan = good.copy(); nan[0, 0, 0] = np.nan
    edge = [
        ('empty-atoms', np.zeros((4, 0, 3)), 0.3),
        ('empty-frames', np.zeros((0, 3, 3)), 0.3),
        ('coord==1', bad_hi, 0.3),
        ('coord<0', bad_lo, 0.3),
        ('nan', nan, 0.3),
        ('res>length', good, 4.0),      # one axis has zero voxels
        ('res>>length', good, 50.0),
        ('res==length', good, 3.1),
        ('res=0.0', good, 0.0),
        ('res=0', good, 0),
        ('res<0', good, -0.5),
        ('res<0 big', good, -10.0),
        ('res nan', good, float('nan')),
        ('res inf', good, float('inf')),
        ('res tiny', good, 1e-320),
        ('single', good[:1, :1], 0.3),
        ('2d positions', good.reshape(-1, 3), 0.3),
        ('float32', good.astype(np.float32), 0.3),
        ('all zeros', np.zeros((3, 2, 3)), 0.3),
    ]
    for name, pos, res in edge:
        results.append((('edge', name), run(fake(lat, pos), res)))

    with open(out, 'wb') as fh:
        pickle.dump(results, fh)


def main():
    outs = []
    with tempfile.TemporaryDirectory() as td:
        for tag, root in (('orig', ORIG), ('new', NEW)):
            out = os.path.join(td, tag + '.pkl')
            env = dict(os.environ, PYTHONPATH=root, EXPECT_ROOT=root)
            subprocess.run([PY, os.path.abspath(__file__), '--worker', out], check=True, env=env)
            with open(out, 'rb') as fh:
                outs.append(pickle.load(fh))
    a, b = outs
    bad = 0
    if len(a) != len(b):
        print('different number of results', len(a), len(b))
        bad += 1
    for (ka, ra), (kb, rb) in zip(a, b):
        if ka != kb or ra != rb:
            bad += 1
            print('DIFF', ka, kb, ra[:3] if isinstance(ra, tuple) else ra, rb[:3] if isinstance(rb, tuple) else rb)
    n_ok = sum(1 for _, r in a if r[0] != 'err')
    n_err = sum(1 for _, r in a if r[0] == 'err')
    print(f'compared {len(a)} cases ({n_ok} results, {n_err} expected exceptions): {bad} differences')
    for k, r in a:
        if r[0] == 'err':
            print('   exception case', k, r[1])
    sys.exit(1 if bad else 0)


if __name__ == '__main__':
    if len(sys.argv) == 3 and sys.argv[1] == '--worker':
        worker(sys.argv[2])
    else:
        main()
