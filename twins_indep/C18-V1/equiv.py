"""Differential test for the C18 refactoring (orientation vectors, transforms, autocorrelation).

Runs the same randomised workload twice in sub-processes - once against the ORIGINAL
implementation (PYTHONPATH=/repo/src, read-only) and once against the refactored worktree
(PYTHONPATH=/tmp/wtu_C18/src) - and compares every recorded result.  Exits non-zero on any
difference (bit-identical is expected; 1e-12 is the hard limit for floating point).
"""
from __future__ import annotations

import os
import pickle
import subprocess
import sys
import tempfile

ORIG = '/repo/src'
NEW = '/tmp/wtu_C18/src'
N_CASES = 36


# --------------------------------------------------------------------------- worker
def _worker(out_path: str) -> None:
    import warnings

    import numpy as np
    from pymatgen.core import Element, Lattice

    import gemdat
    from gemdat import Trajectory
    from gemdat.orientations import Orientations
    from gemdat.utils import cartesian_to_spherical, fft_autocorrelation

    expected_root = os.environ['EXPECT_ROOT']
    assert os.path.abspath(gemdat.__file__).startswith(expected_root), (gemdat.__file__, expected_root)

    warnings.simplefilter('ignore')
    np.seterr(all='ignore')
    results: dict = {}

    def record(key, fn):
        try:
            val = fn()
            if isinstance(val, Orientations):
                val = val.vectors
            results[key] = ('ok', val)
        except Exception as exc:  # noqa: BLE001
            results[key] = ('err', type(exc).__name__, str(exc))

    def random_rotation(rng):
        q, r = np.linalg.qr(rng.normal(size=(3, 3)))
        q = q * np.sign(np.diag(r))
        if np.linalg.det(q) < 0:
            q[:, 0] *= -1
        return q

    def make_lattice(rng, kind):
        a, b, c = rng.uniform(8.0, 13.0, size=3)
        if kind == 0:
            m = np.eye(3) * a
        elif kind == 1:
            m = np.diag([a, b, c])
        elif kind == 2:
            m = Lattice.from_parameters(a, b, c, *rng.uniform(65, 115, size=3)).matrix.copy()
        elif kind == 3:
            m = Lattice.from_parameters(a, b, c, *rng.uniform(65, 115, size=3)).matrix @ random_rotation(rng)
        else:
            m = Lattice.from_parameters(a, a, c, 90, 90, 120).matrix @ random_rotation(rng)
        return Lattice(m)

    def make_trajectory(rng, case):
        lattice = make_lattice(rng, case % 5)
        n_cent = int(rng.integers(1, 5))
        mode = case % 9  # 7: three satellites only (error), 8: a single satellite (broadcast)
        n_sat = {7: 3, 8: 1}.get(mode, 4)
        if mode == 5:
            n_sat = 6  # more neighbours than the four that are kept
        n_t = int(rng.integers(1, 14))
        # centres on a jittered 2x2x1 grid, some of them right at a cell face
        grid = np.array([[0.0, 0.0, 0.0], [0.5, 0.5, 0.0], [0.5, 0.0, 0.5], [0.0, 0.5, 0.5]])
        cent = grid[:n_cent] + rng.uniform(-0.02, 0.02, size=(n_cent, 3))
        if case % 2:
            cent[0] = [0.999, 0.0005, 0.5]
        cent_cart = lattice.get_cartesian_coords(cent)
        sats = []
        for cc in cent_cart:
            d = rng.normal(size=(n_sat, 3))
            d /= np.linalg.norm(d, axis=1, keepdims=True)
            d *= rng.uniform(1.0, 1.3, size=(n_sat, 1))
            sats.append(cc + d)
        sat_cart = np.concatenate(sats)
        n_far = int(rng.integers(0, 3))
        far_frac = rng.uniform(0.2, 0.3, size=(n_far, 3)) + [0.0, 0.0, 0.05]
        base = np.concatenate([cent, lattice.get_fractional_coords(sat_cart), far_frac])
        species = [Element('S')] * n_cent + [Element('O')] * (n_cent * n_sat + n_far)
        n_other = int(rng.integers(0, 3))
        base = np.concatenate([base, rng.uniform(0.6, 0.9, size=(n_other, 3))])
        species = species + [Element('Li')] * n_other
        perm = rng.permutation(len(species))
        base = base[perm]
        species = [species[i] for i in perm]
        steps = rng.normal(scale=0.004, size=(n_t, len(species), 3))
        steps[0] = 0
        coords = np.mod(base[None] + np.cumsum(steps, axis=0), 1.0)
        return Trajectory(
            species=species,
            coords=coords,
            lattice=lattice,
            time_step=float(rng.uniform(0.5, 2.0)),
            metadata={'temperature': 300},
        )

    groups = ['m-3m', '4/mmm', '-1', '1', '2/m', 'mmm', '6/mmm', '-3m', '432', '3']

    for case in range(N_CASES):
        rng = np.random.default_rng(18000 + case)
        traj = make_trajectory(rng, case)
        k = f'case{case:02d}'

        holder = {}

        def build():
            holder['o'] = Orientations(traj, 'S', 'O')
            return holder['o']

        record(f'{k}/vectors', build)
        ori = holder.get('o')
        if ori is None:
            # construction failed: still exercise the post-processing on given vectors
            shape = (int(rng.integers(1, 9)), int(rng.integers(1, 6)), 3)
            ori = Orientations(traj, 'S', 'O', in_vectors=rng.normal(size=shape))
        # private building blocks
        record(f'{k}/distances', lambda: ori._distances)

        def pieces():
            dist = ori._distances
            fcc = ori._trajectory_cent.positions
            mm = ori._matching_matrix(dist, fcc)
            comb = ori._central_satellite_matrix(dist, fcc)
            fd = ori._fractional_directions(dist)
            return mm, mm.dtype.str, comb, comb.dtype.str, fd

        record(f'{k}/pieces', pieces)
        # perturbed distance tables: ties, zeros, nan, short rows
        def perturbed(which):
            dist = np.array(ori._distances, dtype=float)
            fcc = ori._trajectory_cent.positions
            if which == 0:
                dist[0, 0] = 0.0
            elif which == 1:
                dist[0, -1] = np.nan
            elif which == 2:
                dist[:] = 1.0
            else:
                dist = dist * rng.uniform(0.8, 1.6, size=dist.shape)
            return ori._matching_matrix(dist, fcc), ori._central_satellite_matrix(dist, fcc)

        for which in range(4):
            record(f'{k}/perturbed{which}', lambda which=which: perturbed(which))

        record(f'{k}/normalize', ori.normalize)
        record(f'{k}/spherical', lambda: ori.vectors_spherical)
        record(f'{k}/spherical_norm', lambda: ori.normalize().vectors_spherical)
        record(f'{k}/autocorr', ori.autocorrelation)
        record(f'{k}/autocorr_norm', lambda: ori.normalize().autocorrelation())
        g = groups[case % len(groups)]
        record(f'{k}/sym_group', lambda: ori.symmetrize(sym_group=g))
        record(f'{k}/sym_group_norm_auto', lambda: ori.normalize().symmetrize(sym_group=g).autocorrelation())
        n_ops = int(rng.integers(1, 6))
        ops = np.stack([random_rotation(rng) for _ in range(n_ops)], axis=-1)
        record(f'{k}/sym_ops', lambda: ori.symmetrize(sym_ops=ops))
        record(f'{k}/sym_ops_over_group', lambda: ori.symmetrize(sym_group=g, sym_ops=ops))
        record(f'{k}/sym_ops_stack_first', lambda: ori.symmetrize(sym_ops=np.moveaxis(ops, -1, 0)))
        single = random_rotation(rng)
        record(f'{k}/sym_single', lambda: ori.symmetrize(sym_ops=single))
        record(f'{k}/sym_single_int', lambda: ori.symmetrize(sym_ops=np.array([[0, -1, 0], [1, 0, 0], [0, 0, -1]])))
        record(f'{k}/sym_none', lambda: ori.symmetrize())
        record(f'{k}/sym_empty_name', lambda: ori.symmetrize(sym_group=''))
        record(f'{k}/sym_bad_name', lambda: ori.symmetrize(sym_group='xyz'))
        record(f'{k}/sym_bad_ops', lambda: ori.symmetrize(sym_ops=np.ones((2, 2))))
        mat = rng.normal(size=(3, 3))
        record(f'{k}/transform', lambda: ori.transform(mat))
        record(f'{k}/transform_F', lambda: ori.transform(np.asfortranarray(mat)))
        record(f'{k}/transform_int', lambda: ori.transform(np.array([[0, 1, 1], [1, 0, 1], [1, 1, 0]])))
        record(f'{k}/transform_bad', lambda: ori.transform(np.ones((3, 4))))
        record(f'{k}/transform_bad2', lambda: ori.transform(np.ones((1, 3, 3))))
        record(f'{k}/chain', lambda: ori.transform(mat).normalize().symmetrize(sym_ops=ops).vectors_spherical)

        # 2-D vectors as used by the unit tests
        flat = Orientations(traj, 'S', 'O', in_vectors=rng.normal(size=(int(rng.integers(1, 6)), 3)))
        record(f'{k}/flat_normalize', flat.normalize)
        record(f'{k}/flat_transform', lambda: flat.transform(mat))
        record(f'{k}/flat_symmetrize', lambda: flat.symmetrize(sym_ops=ops))
        record(f'{k}/flat_spherical', lambda: flat.vectors_spherical)
        record(f'{k}/flat_autocorr', flat.autocorrelation)
        # zero vectors / empty selections
        zero = np.array(ori.vectors, dtype=float, copy=True)
        zero[0, 0] = 0.0
        z = Orientations(traj, 'S', 'O', in_vectors=zero)
        record(f'{k}/zero_normalize', z.normalize)
        record(f'{k}/zero_spherical', lambda: z.vectors_spherical)
        record(f'{k}/zero_autocorr', z.autocorrelation)
        e = Orientations(traj, 'S', 'O', in_vectors=np.zeros((ori.vectors.shape[0], 0, 3)))
        record(f'{k}/empty_normalize', e.normalize)
        record(f'{k}/empty_sym', lambda: e.symmetrize(sym_ops=ops))
        record(f'{k}/empty_transform', lambda: e.transform(mat))
        record(f'{k}/empty_spherical', lambda: e.vectors_spherical)
        record(f'{k}/empty_autocorr', e.autocorrelation)
        record(f'{k}/missing_species', lambda: Orientations(traj, 'S', 'Na'))
        record(f'{k}/missing_centre', lambda: Orientations(traj, 'Na', 'O'))

        # free functions, including odd shapes
        shape = (int(rng.integers(1, 30)), int(rng.integers(1, 5)), int(rng.integers(1, 5)))
        sig = rng.normal(size=shape)
        record(f'{k}/fft_free', lambda: fft_autocorrelation(sig))
        record(f'{k}/fft_free_F', lambda: fft_autocorrelation(np.asfortranarray(sig)))
        record(f'{k}/fft_free_int', lambda: fft_autocorrelation(rng.integers(-3, 4, size=shape)))
        record(f'{k}/fft_positions', lambda: fft_autocorrelation(traj.positions))
        record(f'{k}/fft_nocoord', lambda: fft_autocorrelation(np.zeros((4, 2, 0))))
        record(f'{k}/fft_notime', lambda: fft_autocorrelation(np.zeros((0, 2, 3))))
        record(f'{k}/fft_nopart', lambda: fft_autocorrelation(np.zeros((5, 0, 3))))
        record(f'{k}/fft_2d', lambda: fft_autocorrelation(np.zeros((5, 3))))
        xyz = rng.normal(size=(shape[0], shape[1], 3))
        xyz[0, 0] = [0.0, 0.0, 0.0]
        xyz[-1, -1] = [0.0, 0.0, -2.0]
        record(f'{k}/c2s_deg', lambda: cartesian_to_spherical(xyz))
        record(f'{k}/c2s_rad', lambda: cartesian_to_spherical(xyz, degrees=False))
        record(f'{k}/c2s_wide', lambda: cartesian_to_spherical(rng.normal(size=(3, 2, 5)), degrees=True))
        record(f'{k}/c2s_narrow', lambda: cartesian_to_spherical(rng.normal(size=(3, 2, 2))))
        record(f'{k}/c2s_2d', lambda: cartesian_to_spherical(rng.normal(size=(3, 3))))
        record(f'{k}/c2s_int', lambda: cartesian_to_spherical(rng.integers(-2, 3, size=(4, 3, 3)), degrees=bool(case % 2)))

    with open(out_path, 'wb') as fh:
        pickle.dump(results, fh)


# --------------------------------------------------------------------------- driver
def _run(src: str, out_path: str) -> None:
    env = dict(os.environ)
    env['PYTHONPATH'] = src
    env['EXPECT_ROOT'] = src
    subprocess.run([sys.executable, os.path.abspath(__file__), '--worker', out_path], check=True, env=env)


def _same(a, b, path, report):
    import numpy as np

    if isinstance(a, (tuple, list)):
        if not isinstance(b, (tuple, list)) or len(a) != len(b):
            report['diff'].append(f'{path}: structure {type(a)} vs {type(b)}')
            return
        for i, (x, y) in enumerate(zip(a, b)):
            _same(x, y, f'{path}[{i}]', report)
        return
    if isinstance(a, np.ndarray) or isinstance(b, np.ndarray):
        a = np.asarray(a)
        b = np.asarray(b)
        if a.shape != b.shape or a.dtype != b.dtype:
            report['diff'].append(f'{path}: shape/dtype {a.shape}{a.dtype} vs {b.shape}{b.dtype}')
            return
        if np.array_equal(a, b, equal_nan=a.dtype.kind in 'fc'):
            return
        if a.dtype.kind in 'fc' and np.allclose(a, b, rtol=0, atol=1e-12, equal_nan=True):
            report['close'].append(path)
            return
        report['diff'].append(f'{path}: values differ (max {np.nanmax(np.abs(a - b))})')
        return
    if a != b:
        report['diff'].append(f'{path}: {a!r} vs {b!r}')


def main() -> int:
    with tempfile.TemporaryDirectory() as td:
        p_orig = os.path.join(td, 'orig.pkl')
        p_new = os.path.join(td, 'new.pkl')
        _run(ORIG, p_orig)
        _run(NEW, p_new)
        with open(p_orig, 'rb') as fh:
            r_orig = pickle.load(fh)
        with open(p_new, 'rb') as fh:
            r_new = pickle.load(fh)
    report = {'diff': [], 'close': []}
    if set(r_orig) != set(r_new):
        report['diff'].append(f'key sets differ: {set(r_orig) ^ set(r_new)}')
    n_ok = n_err = 0
    for key in sorted(r_orig):
        if key not in r_new:
            continue
        a, b = r_orig[key], r_new[key]
        if a[0] == 'ok':
            n_ok += 1
        else:
            n_err += 1
        _same(a, b, key, report)
    print(f'compared {len(r_orig)} results over {N_CASES} random cases: {n_ok} values, {n_err} expected errors')
    print(f'not bit-identical but within 1e-12: {len(report["close"])}')
    for c in report['close'][:10]:
        print('   ~', c)
    for d in report['diff'][:40]:
        print('DIFF', d)
    if report['diff']:
        print(f'FAILED: {len(report["diff"])} differences')
        return 1
    print('OK: refactored implementation agrees with the original')
    return 0


if __name__ == '__main__':
    if len(sys.argv) == 3 and sys.argv[1] == '--worker':
        _worker(sys.argv[2])
        sys.exit(0)
    sys.exit(main())
