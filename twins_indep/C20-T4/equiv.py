"""Differential test for refactoring 4:
  * src/gemdat/collective.py  Collective.site_pair_count_matrix (list.index loop -> dict lookup + np.add.at),
                              Collective.multiple_collective (helper + in-place sort)      [@weak_lru_cache methods]
  * src/gemdat/transitions.py _calculate_transitions_matrix (backs the cached Transitions.matrix / Jumps.matrix)
  * src/gemdat/utils.py       ffill (backs the cached Transitions.states_prev / states_next via bfill)

The same scenario is executed in two subprocesses, one with PYTHONPATH=/repo/src (ORIGINAL) and one
with PYTHONPATH=/tmp/wtt_C20/src (refactored); the pickled results (values, dtypes, shapes, memory-layout
flags, exception types+messages, liveness flags) must be identical (floats to 1e-12 relative).

Parts: (A) 60 random arrays through ffill/bfill (both axes, several fill values, empty/1x1/float+NaN/bool
arrays, 1-D and 3-D error cases); (B) 60 random event tables through _calculate_transitions_matrix (NOSITE
rows, empty tables, all-NOSITE, out-of-range and float site indices); (C) 16 synthetic hopping trajectories in
triclinic/rotated/cubic/hexagonal cells with sites on cell faces -> Transitions/Jumps/Collective objects, several
alive at once, queried twice with varying max_dist, compared with fresh objects, dropped and collected;
(D) 30 Collective objects built directly from random jump tables (including no collective jumps at all).
"""
import gc
import os
import pickle
import subprocess
import sys
import warnings
import weakref

ORIG_SRC = '/repo/src'
NEW_SRC = '/tmp/wtt_C20/src'
N_CASES = 16


def plain(x):
    import networkx as nx
    import numpy as np
    import pandas as pd

    if isinstance(x, pd.DataFrame):
        return ('DF', [str(c) for c in x.columns], [tuple(i) if isinstance(i, tuple) else i for i in x.index],
                np.array(x.to_numpy(dtype=float)))
    if isinstance(x, nx.DiGraph):
        return ('G', [(n, sorted(d.items())) for n, d in x.nodes(data=True)],
                [(a, b, [(k, float(v)) for k, v in d.items()]) for a, b, d in x.edges(data=True)])
    if isinstance(x, dict):  # Counter included, keep insertion order
        return ('D', type(x).__name__, [(k, plain(v)) for k, v in x.items()])
    if isinstance(x, np.ndarray):
        return np.array(x)
    if hasattr(x, 'unit') and isinstance(x, float):
        return ('FWU', float(x), str(x.unit))
    if isinstance(x, (float, np.floating)):
        return float(x)
    if isinstance(x, (int, np.integer)) and not isinstance(x, bool):
        return int(x)
    if isinstance(x, tuple):
        return tuple(plain(v) for v in x)
    return x


def call(fn, *args, **kwargs):
    try:
        with warnings.catch_warnings():
            warnings.simplefilter('ignore')
            res = fn(*args, **kwargs)
    except Exception as exc:  # noqa: BLE001
        return ('EXC', type(exc).__name__, str(exc))
    return plain(res)


def make_case(seed):
    import numpy as np
    from pymatgen.core import Lattice, Structure

    import gemdat

    rng = np.random.default_rng(seed)
    kind = seed % 4
    if kind == 0:
        lattice = Lattice.from_parameters(*rng.uniform(7, 11, 3), *rng.uniform(70, 110, 3))
    elif kind == 1:
        m = Lattice.from_parameters(*rng.uniform(7, 10, 3), 80, 97, 105).matrix
        q, _ = np.linalg.qr(rng.normal(size=(3, 3)))
        lattice = Lattice(m @ q)  # rotated cell, not lower triangular
    elif kind == 2:
        lattice = Lattice.cubic(rng.uniform(7, 10))
    else:
        lattice = Lattice.hexagonal(rng.uniform(7, 9), rng.uniform(7, 12))

    nz = 2 if seed % 3 else 1
    grid = np.array([(i / 2, j / 2, k / nz) for i in range(2) for j in range(2) for k in range(nz)])
    offset = rng.uniform(0, 0.02, 3) if seed % 2 else np.zeros(3)  # zeros: sites exactly on faces
    site_coords = (grid + offset + rng.normal(scale=0.005, size=grid.shape)) % 1.0
    n_sites = len(site_coords)
    labels = [('A', 'B', 'C')[i % (2 + seed % 2)] for i in range(n_sites)]
    sites = Structure(lattice, ['Li'] * n_sites, site_coords, labels=labels)

    n_li = int(rng.integers(1, min(4, n_sites)))
    n_t = int(rng.integers(80, 200))
    p_hop = rng.uniform(0.04, 0.15)
    inv = np.linalg.inv(lattice.matrix)
    coords = np.zeros((n_t, n_li + 2, 3))
    for a in range(n_li):
        cur = int(rng.integers(n_sites))
        t = 0
        while t < n_t:
            if t > 0 and rng.random() < p_hop:
                new = int(rng.integers(n_sites))
                if new != cur and rng.random() < 0.6:
                    # transit frame half way (minimum image) between the sites: 'no site' state
                    d = site_coords[new] - site_coords[cur]
                    d -= np.round(d)
                    coords[t, a] = site_coords[cur] + 0.5 * d
                    t += 1
                    if t >= n_t:
                        break
                cur = new
            amp = rng.choice([0.05, 0.15, 0.45])  # 0.45 A sometimes leaves the (inner) site
            coords[t, a] = site_coords[cur] + (rng.normal(scale=amp / 3, size=3) @ inv)
            t += 1
    coords[:, n_li] = [0.25, 0.25, 0.3]
    coords[:, n_li + 1] = [0.75, 0.7, 0.8]
    coords %= 1.0
    from pymatgen.core import Element

    traj = gemdat.Trajectory(
        species=[Element('Li')] * n_li + [Element('S')] * 2,
        coords=coords,
        lattice=lattice,
        time_step=float(rng.uniform(0.5e-15, 3e-15)),
        metadata={'temperature': float(rng.uniform(200, 1000))},
    )
    if seed % 3 == 0:
        radius = {lab: float(rng.uniform(0.5, 0.9)) for lab in sorted(set(labels))}
    else:
        radius = float(rng.uniform(0.5, 0.9))
    inner = float(rng.choice([1.0, 0.7, 0.4]))
    return traj, sites, radius, inner


def arr(x):
    """array + layout information"""
    import numpy as np

    if isinstance(x, np.ndarray):
        return ('A', np.array(x), bool(x.flags.c_contiguous), bool(x.flags.f_contiguous), str(x.dtype))
    return x


def child():
    import numpy as np
    import pandas as pd
    from pymatgen.core import Lattice, Structure

    import gemdat
    from gemdat.collective import Collective
    from gemdat.jumps import Jumps
    from gemdat.transitions import Transitions, _calculate_transitions_matrix
    from gemdat.utils import bfill, ffill

    assert gemdat.__file__.startswith(os.environ['EXPECT_SRC']), gemdat.__file__
    out = []

    # ---------------------------------------------------------------- A: ffill / bfill
    part = []
    for seed in range(60):
        rng = np.random.default_rng(10_000 + seed)
        shape = [(int(rng.integers(1, 30)), int(rng.integers(1, 8))), (0, 4), (5, 0), (1, 1), (40, 1), (1, 40)][
            seed % 6 if seed < 12 else 0
        ]
        p_fill = rng.choice([0.0, 0.3, 0.8, 1.0])
        a = rng.integers(0, 6, shape)
        a[rng.random(shape) < p_fill] = -1
        variants = [a, np.asfortranarray(a), a.astype(np.int32), a[::-1], a.astype(float)]
        if seed % 5 == 0:
            f = a.astype(float)
            f[f == 2] = np.nan
            variants.append(f)
            variants.append(a > 2)
        for v in variants:
            for fn in (ffill, bfill):
                part.append(arr(call(fn, v)))
                part.append(arr(call(fn, v, axis=0)))
                part.append(arr(call(fn, v, axis=1)))
                part.append(arr(call(fn, v, fill_val=-1, axis=0)))
                part.append(arr(call(fn, v, fill_val=int(rng.integers(0, 6)))))
                part.append(arr(call(fn, v, fill_val=int(rng.integers(0, 6)), axis=0)))
        for fn in (ffill, bfill):
            part.append(arr(call(fn, a.ravel())))
            part.append(arr(call(fn, a.ravel(), axis=0)))
            part.append(arr(call(fn, a[:, :, None])))
            part.append(arr(call(fn, np.int64(3))))
        keep = a.copy()
        ffill(a), bfill(a), ffill(a, axis=0), bfill(a, axis=0)
        assert np.array_equal(a, keep), 'input mutated'
    out.append(part)

    # ---------------------------------------------------------------- B: transitions matrix
    part = []
    cols = ['atom index', 'start site', 'destination site', 'start inner site', 'destination inner site', 'time']
    for seed in range(60):
        rng = np.random.default_rng(20_000 + seed)
        n_sites = int(rng.integers(1, 9))
        n_ev = int(rng.choice([0, 1, 2, 10, 100, 400]))
        data = rng.integers(-1, n_sites, (n_ev, 6))
        if seed % 7 == 0:
            data[:, 1:3] = -1
        ev = pd.DataFrame(data, columns=cols)
        part.append(arr(call(_calculate_transitions_matrix, ev, n_sites)))
        part.append(arr(call(_calculate_transitions_matrix, ev, n_sites=n_sites + 2)))
        part.append(arr(call(_calculate_transitions_matrix, ev[::-1], n_sites)))
        part.append(arr(call(_calculate_transitions_matrix, ev[['destination site', 'start site']], n_sites)))
        part.append(arr(call(_calculate_transitions_matrix, ev, max(n_sites - 1, 0))))  # maybe out of range
        part.append(arr(call(_calculate_transitions_matrix, ev.astype(float), n_sites)))
        part.append(arr(call(_calculate_transitions_matrix, ev.astype({'start site': np.int32}), n_sites)))
        part.append(arr(call(_calculate_transitions_matrix, ev[['time']], n_sites)))
        part.append(arr(call(_calculate_transitions_matrix, ev, 0)))
    out.append(part)

    # ---------------------------------------------------------------- C: full objects
    def query_tr(tr):
        return [arr(call(tr.matrix)), arr(call(tr.states_next)), arr(call(tr.states_prev)),
                arr(call(lambda: tr.states_next() is tr.states_next()))]

    def mc(c):
        r = call(c.multiple_collective)
        if isinstance(r, tuple) and len(r) == 2 and isinstance(r[0], np.ndarray):
            return ('MC', arr(r[0]), arr(r[1]), [tuple(int(x) for y in row for x in y) for row in r[0]])
        return r

    def query_coll(c):
        return [
            call(lambda: c.n_solo_jumps), call(lambda: c.n_coll_jumps), call(lambda: list(c.coll_jumps)),
            call(c.site_pair_count_matrix_labels),
            arr(call(c.site_pair_count_matrix)),
            mc(c),
        ]

    part = []
    for seed in range(N_CASES):
        traj, sites, radius, inner = make_case(seed)
        with warnings.catch_warnings():
            warnings.simplefilter('ignore')
            tr = Transitions.from_trajectory(
                trajectory=traj, sites=sites, floating_specie='Li',
                site_radius=radius, site_inner_fraction=inner,
            )
        rec = [('n_events', tr.n_events)]
        trs = [tr] + tr.split(2)
        for rnd in range(2):
            for t in trs:
                rec.append(query_tr(t))
        objs = []
        for mr in (0, 2):
            try:
                objs.append(Jumps(tr, minimal_residence=mr))
            except ValueError as exc:
                rec.append(('EXC', 'ValueError', str(exc), mr))
        for rnd in range(2):
            for j in objs:
                rec.append(arr(call(j.matrix)))
                if j.n_jumps <= 45:
                    for md in (1, 0.0, 4.5, 50.0)[:: 1 if rnd == 0 else -1]:
                        rec.append(call(lambda: query_coll(j.collective(max_dist=md))))
                    rec.append(call(lambda: query_coll(j.collective())))
                    rec.append(call(lambda: j.collective(4.5) is j.collective(4.5)))
        for j in objs:
            fresh = Jumps(tr, minimal_residence=j.minimal_residence)
            assert same(arr(call(fresh.matrix)), arr(call(j.matrix)))
            if j.n_jumps <= 45:
                a_, b_ = (call(lambda: query_coll(x.collective(max_dist=4.5))) for x in (fresh, j))
                assert same(a_, b_), f'cache not transparent, seed {seed}'
        fresh_tr = tr.split(1)[0]
        assert same(query_tr(fresh_tr)[:3], query_tr(tr)[:3]), f'cache not transparent, seed {seed}'
        # NOTE: Jumps.collective() caches a Collective that refers back to the Jumps object (a reference
        # cycle through the lru_cache); that is the ORIGINAL behaviour and untouched by this refactoring,
        # so liveness is recorded (and compared) rather than asserted.
        refs = [weakref.ref(x) for x in objs + trs[1:]]
        objs.clear()
        del trs, t, fresh_tr
        try:
            del j, fresh
        except NameError:
            pass
        rec.append([r() is None for r in refs])
        gc.collect()
        rec.append([r() is None for r in refs])
        part.append(rec)
    out.append(part)

    # ---------------------------------------------------------------- D: Collective from random tables
    class StubJumps:
        def __init__(self, data):
            self.data = data

    part = []
    for seed in range(30):
        rng = np.random.default_rng(30_000 + seed)
        lattice = [
            Lattice.from_parameters(*rng.uniform(4, 9, 3), *rng.uniform(65, 115, 3)),
            Lattice.cubic(rng.uniform(3, 8)),
            Lattice(Lattice.from_parameters(5, 6, 7, 80, 95, 105).matrix @ np.linalg.qr(rng.normal(size=(3, 3)))[0]),
        ][seed % 3]
        n_sites = int(rng.integers(2, 9))
        n_labels = int(rng.integers(1, 4))
        labels = [('A', 'B', 'C')[int(k)] for k in rng.integers(0, n_labels, n_sites)]
        sites = Structure(lattice, ['Li'] * n_sites, rng.uniform(0, 1, (n_sites, 3)), labels=labels)
        n_ev = int(rng.choice([1, 2, 5, 15, 30]))
        start = rng.integers(0, 60, n_ev)
        data = pd.DataFrame({
            'atom index': rng.integers(0, 4, n_ev),
            'start site': rng.integers(0, n_sites, n_ev),
            'destination site': rng.integers(0, n_sites, n_ev),
            'start time': start,
            'stop time': start + rng.integers(1, 6, n_ev),
        })
        colls = []
        for max_dist in (0.0, float(rng.uniform(1, 4)), 100.0):
            c = call(lambda: Collective(jumps=StubJumps(data), sites=sites, lattice=lattice,
                                        max_steps=int(rng.integers(0, 20)), max_dist=max_dist))
            if isinstance(c, tuple):
                part.append(c)  # construction failed (identically in both trees)
            else:
                colls.append(c)
        rec = []
        for rnd in range(2):
            for c in colls:
                rec.append(query_coll(c))
        refs = [weakref.ref(c) for c in colls]
        del colls, c
        gc.collect()
        rec.append([r() is None for r in refs])
        part.append(rec)
    out.append(part)

    sys.stdout.buffer.write(pickle.dumps(out))


RTOL = 1e-12  # numpy SIMD transcendental loops (np.log) jitter by 1 ulp with buffer alignment, even
# between two runs of the ORIGINAL code, so floats are compared to 1e-12 relative instead of bitwise
MAXDEV = [0.0]


def same(a, b):
    import numpy as np

    if isinstance(a, (list, tuple)):
        return type(a) is type(b) and len(a) == len(b) and all(same(x, y) for x, y in zip(a, b))
    if isinstance(a, np.ndarray):
        if not (isinstance(b, np.ndarray) and a.shape == b.shape and a.dtype == b.dtype):
            return False
        if a.dtype.kind != 'f':
            return bool(np.array_equal(a, b))
        if np.array_equal(a, b, equal_nan=True):
            return True
        if not np.array_equal(np.isnan(a), np.isnan(b)) or not np.array_equal(np.isinf(a), np.isinf(b)):
            return False
        fin = np.isfinite(a)
        if not np.array_equal(a[~fin & ~np.isnan(a)], b[~fin & ~np.isnan(b)]):
            return False
        scale = max(np.abs(a[fin]).max(), np.abs(b[fin]).max())
        dev = np.abs(a[fin] - b[fin]).max() / scale
        MAXDEV[0] = max(MAXDEV[0], float(dev))
        return bool(dev <= RTOL)
    if isinstance(a, float):
        if not isinstance(b, float):
            return False
        if a == b or (a != a and b != b):
            return True
        if a != a or b != b or abs(a) == float('inf') or abs(b) == float('inf'):
            return False
        dev = abs(a - b) / max(abs(a), abs(b))
        MAXDEV[0] = max(MAXDEV[0], dev)
        return dev <= RTOL
    return type(a) is type(b) and a == b


def first_diff(a, b, path=''):
    if isinstance(a, (list, tuple)) and isinstance(b, (list, tuple)) and len(a) == len(b):
        for i, (x, y) in enumerate(zip(a, b)):
            if not same(x, y):
                return first_diff(x, y, f'{path}[{i}]')
    return f'{path}: {a!r} != {b!r}'


def count(x, stats):
    if isinstance(x, tuple) and len(x) >= 3 and isinstance(x[0], str) and x[0] == 'EXC':
        stats['exc'] += 1
        stats.setdefault('kinds', set()).add(x[1] + ': ' + x[2][:60])
    elif isinstance(x, tuple) and x and isinstance(x[0], str) and x[0] in ('DF', 'G', 'D', 'FWU'):
        stats[x[0]] = stats.get(x[0], 0) + 1
    elif isinstance(x, (list, tuple)):
        for v in x:
            count(v, stats)
    else:
        stats['other'] += 1


def main():
    results = []
    for src in (ORIG_SRC, NEW_SRC):
        env = dict(os.environ, PYTHONPATH=src, EXPECT_SRC=src, PYTHONHASHSEED='0')
        proc = subprocess.run(
            [sys.executable, os.path.abspath(__file__), '--child'],
            env=env, stdout=subprocess.PIPE, stderr=subprocess.PIPE, cwd='/tmp',
        )
        if proc.returncode != 0:
            print(proc.stderr.decode()[-3000:])
            return 1
        results.append(pickle.loads(proc.stdout))
    if not same(results[0], results[1]):
        print('results differ:', first_diff(results[0], results[1]))
        return 1
    stats = {'exc': 0, 'other': 0}
    count(results[0], stats)
    kinds = stats.pop('kinds', set())
    print(f'parts A-D ({[len(p) for p in results[0]]} records) identical; value kinds: {stats}')
    for k in sorted(kinds):
        print('   exception kind seen (identically in both):', k)
    return 0


if __name__ == '__main__':
    if '--child' in sys.argv:
        child()
        sys.exit(0)
    rc = main()
    print(f'max relative float deviation seen: {MAXDEV[0]:.3g} (tolerance {RTOL})')
    print('EQUIVALENT' if rc == 0 else 'DIFFERENT')
    sys.exit(rc)
