"""Differential test: original gemdat (/repo/src) vs refactored (/tmp/wtw_C17/src) shape analysis.

Runs the same randomised scenarios in two subprocesses (one per PYTHONPATH), pickles the
results and compares them (bit-identical expected; tolerance 1e-12 allowed for floats).
"""
import os
import pickle
import subprocess
import sys
import tempfile

ORIG = '/repo/src'
NEW = '/tmp/wtw_C17/src'
N_CASES = 36

WORKER = r'''
import sys, pickle, warnings
import numpy as np
warnings.simplefilter('ignore')
from pymatgen.core import Lattice, Structure, Element
from pymatgen.symmetry.groups import SpaceGroup
import gemdat
from gemdat.shape import ShapeAnalyzer, ShapeData
from gemdat import Trajectory

assert gemdat.__file__.startswith(sys.argv[1]), gemdat.__file__
n_cases = int(sys.argv[3])


def make_structure(rng, kind):
    if kind == 0:  # cubic, Fm-3m
        a = rng.uniform(3.5, 6.0)
        return Structure.from_spacegroup('Fm-3m', Lattice.cubic(a), ['Li', 'S'],
                                         [[0.25, 0.25, 0.25], [0, 0, 0]])
    if kind == 1:  # hexagonal
        a, c = rng.uniform(3.0, 4.5), rng.uniform(5.0, 7.0)
        return Structure.from_spacegroup('P6_3/mmc', Lattice.hexagonal(a, c), ['Li', 'O'],
                                         [[1 / 3, 2 / 3, 0.25], [0, 0, 0]])
    if kind == 2:  # tetragonal, general-ish position
        a, c = rng.uniform(4.0, 5.0), rng.uniform(5.5, 8.0)
        return Structure.from_spacegroup('P4/mmm', Lattice.tetragonal(a, c), ['Li', 'Cl'],
                                         [[0.21, 0.21, 0.37], [0.5, 0.5, 0.0]])
    if kind == 3:  # triclinic P-1
        lat = Lattice.from_parameters(rng.uniform(4, 6), rng.uniform(4, 6), rng.uniform(4, 6),
                                      rng.uniform(70, 110), rng.uniform(70, 110), rng.uniform(70, 110))
        return Structure.from_spacegroup('P-1', lat, ['Li', 'Na'],
                                         [list(rng.uniform(0.05, 0.45, 3)), list(rng.uniform(0.55, 0.95, 3))])
    if kind == 4:  # monoclinic
        lat = Lattice.monoclinic(rng.uniform(4, 6), rng.uniform(4, 6), rng.uniform(5, 7), rng.uniform(95, 118))
        return Structure.from_spacegroup('P2_1/c', lat, ['Li', 'P'],
                                         [list(rng.uniform(0.05, 0.45, 3)), [0.1, 0.3, 0.8]])
    # rotated triclinic P1 (rotated cell matrix)
    lat = Lattice.from_parameters(4.3, 5.1, 6.2, 81.0, 97.0, 104.0)
    th = rng.uniform(0, np.pi)
    rot = np.array([[np.cos(th), -np.sin(th), 0], [np.sin(th), np.cos(th), 0], [0, 0, 1]])
    lat = Lattice(lat.matrix @ rot.T)
    return Structure(lat, ['Li', 'Li', 'O'], rng.uniform(0, 1, (3, 3)))


def dump_shapes(shapes):
    out = []
    for s in shapes:
        assert isinstance(s, ShapeData)
        out.append((s.name, np.asarray(s.site.frac_coords), s.coords, str(s.coords.dtype), s.coords.shape,
                    s.radius, s.distances(), s.centroid() if len(s.coords) else None, s.origin))
    return out


results = {}
for case in range(n_cases):
    rng = np.random.default_rng(1000 + case)
    kind = case % 6
    structure = make_structure(rng, kind)
    sa = ShapeAnalyzer.from_structure(structure)
    res = {'repr': repr(sa), 'n_sites': len(sa.sites)}

    # positions: noisy copies of (symmetry-equivalent) sites, some outside [0, 1), some exactly on faces
    n = int(rng.integers(5, 60))
    idx = rng.integers(0, len(structure), n)
    pos = structure.frac_coords[idx] + rng.normal(0, 0.06, (n, 3))
    pos[: n // 4] += rng.integers(-2, 3, (n // 4, 3))  # crossing cell faces
    pos = np.vstack([pos, [[0.0, 0.0, 0.0], [1.0, 1.0, 1.0], [0.5, 0.0, 1.0], [-0.0, 0.999999999, 0.0]]])
    radius = float(rng.choice([1e-9, 0.3, 0.8, 1.0, 1.7, 3.0]))

    pos_copy = pos.copy()
    res['positions'] = dump_shapes(sa.analyze_positions(pos, radius=radius))
    res['pos_unmodified'] = bool(np.array_equal(pos, pos_copy))
    res['default_radius'] = dump_shapes(sa.analyze_positions(pos))
    res['none_found'] = dump_shapes(sa.analyze_positions(pos, radius=1e-12))
    res['float32'] = dump_shapes(sa.analyze_positions(pos.astype(np.float32), radius=radius))
    res['single'] = sa.find_equivalent_positions(site=sa.sites[0], positions=pos[:1], radius=radius)
    try:
        r = sa.find_equivalent_positions(site=sa.sites[-1], positions=np.empty((0, 3)), radius=radius)
        res['empty'] = ('ok', r)
    except Exception as e:  # same failure mode expected
        res['empty'] = ('err', type(e).__name__)

    # trajectory, same cell
    n_t = int(rng.integers(2, 7))
    base = structure.frac_coords
    coords = base[None] + np.cumsum(rng.normal(0, 0.03, (n_t, len(base), 3)), axis=0)
    if case % 2:
        coords = coords % 1.0
    traj = Trajectory(species=list(structure.species), coords=coords, lattice=structure.lattice.matrix,
                      time_step=1.0, metadata={'temperature': 300})
    res['traj'] = dump_shapes(sa.analyze_trajectory(traj, radius=radius))
    res['traj_li'] = dump_shapes(sa.analyze_trajectory(traj.filter('Li')))

    # trajectory in a supercell, folded back
    sc = tuple(int(x) for x in rng.integers(1, 4, 3))
    sup = structure.copy()
    sup.make_supercell(sc)
    sbase = sup.frac_coords
    scoords = sbase[None] + np.cumsum(rng.normal(0, 0.01, (n_t, len(sbase), 3)), axis=0)
    straj = Trajectory(species=list(sup.species), coords=scoords, lattice=sup.lattice.matrix,
                       time_step=1.0, metadata={'temperature': 300})
    with warnings.catch_warnings(record=True) as w:
        warnings.simplefilter('always')
        res['super'] = dump_shapes(sa.analyze_trajectory(straj, supercell=sc, radius=radius))
        res['super_float'] = dump_shapes(sa.analyze_trajectory(straj, supercell=tuple(float(x) for x in sc)))
        # deliberately wrong / missing supercell: must warn identically
        res['super_none'] = dump_shapes(sa.analyze_trajectory(straj, radius=0.5))
        res['warnings'] = sorted(str(x.message) for x in w)

    # explicit SpaceGroup object + shifted / optimised sites
    sa2 = ShapeAnalyzer(sites=sa.sites, lattice=sa.lattice, spacegroup=SpaceGroup.from_int_number(1))
    res['p1'] = dump_shapes(sa2.analyze_positions(pos, radius=radius))
    shapes = sa.analyze_positions(pos, radius=max(radius, 0.8))
    if all(len(s.coords) for s in shapes):
        sa3 = sa.optimize_sites(shapes)
        res['optimized'] = dump_shapes(sa3.analyze_positions(pos, radius=radius))
        sa4 = sa.optimize_sites(shapes, func=lambda s: s.coords[0])
        res['optimized_func'] = dump_shapes(sa4.analyze_positions(pos, radius=radius))
    vecs = [None if i % 2 else [0.1, -0.05, 0.02] for i in range(len(sa.sites))]
    res['shifted'] = dump_shapes(sa.shift_sites(vecs, coords_are_cartesian=False).analyze_positions(pos, radius=radius))
    results[case] = res

pickle.dump(results, open(sys.argv[2], 'wb'))
'''


def run(src, out):
    env = dict(os.environ, PYTHONPATH=src)
    subprocess.run(['/venv/bin/python', '-c', WORKER, src, out, str(N_CASES)], env=env, check=True)
    return pickle.load(open(out, 'rb'))


def compare(a, b, path, stats):
    import numpy as np

    if type(a) is not type(b):
        return [f'{path}: type {type(a).__name__} != {type(b).__name__}']
    if isinstance(a, dict):
        if a.keys() != b.keys():
            return [f'{path}: keys differ {sorted(a)} != {sorted(b)}']
        return [d for k in a for d in compare(a[k], b[k], f'{path}/{k}', stats)]
    if isinstance(a, (list, tuple)):
        if len(a) != len(b):
            return [f'{path}: len {len(a)} != {len(b)}']
        return [d for i, (x, y) in enumerate(zip(a, b)) for d in compare(x, y, f'{path}[{i}]', stats)]
    if isinstance(a, np.ndarray):
        stats['arrays'] += 1
        stats['points'] += a.size
        if a.shape != b.shape or a.dtype != b.dtype:
            return [f'{path}: shape/dtype {a.shape}{a.dtype} != {b.shape}{b.dtype}']
        if not np.array_equal(a, b):
            stats['not_bitwise'] += 1
            if not np.allclose(a, b, rtol=0, atol=1e-12):
                return [f'{path}: arrays differ, max abs diff {np.abs(a - b).max()}']
        return []
    if isinstance(a, float):
        return [] if (a == b or abs(a - b) <= 1e-12) else [f'{path}: {a} != {b}']
    return [] if a == b else [f'{path}: {a!r} != {b!r}']


def main():
    with tempfile.TemporaryDirectory() as td:
        ref = run(ORIG, os.path.join(td, 'orig.pkl'))
        new = run(NEW, os.path.join(td, 'new.pkl'))
    stats = {'arrays': 0, 'points': 0, 'not_bitwise': 0}
    diffs = compare(ref, new, '', stats)
    print(f'cases={len(ref)} {stats}')
    if diffs:
        print(f'DIFFERENCES: {len(diffs)}')
        for d in diffs[:30]:
            print('  ', d)
        sys.exit(1)
    print('EQUIVALENT')


if __name__ == '__main__':
    main()
