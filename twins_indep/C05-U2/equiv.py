"""Differential test for refactoring C05/2.

Refactored code (all in gemdat/transitions.py):
  * Transitions.occupancy  (new helper _frame_fraction_per_state; per-state scalar division in a dict comprehension
    instead of array division + dict(zip()); membership test instead of dict.get)
  * Transitions.occupancy_by_site_type and Transitions.atom_locations (the duplicated collect-then-sum code is merged into
    one running-total helper _occupancy_tally_by_label)
  * Transitions.split (index loop replaced by a strict zip over the five per-part sequences)

The same worker (below) is run twice in a subprocess, once with the ORIGINAL sources on PYTHONPATH and once with
the refactored worktree; the pickled results are compared.  Exit status is non-zero on any difference.

Where the original comes from: $GEMDAT_ORIG_SRC if set; otherwise the untouched HEAD of the worktree's git
repository (exported with `git archive`, identical to the pristine sources); if that is unavailable, /repo/src.
"""
import os
import pickle
import subprocess
import sys
import tempfile

import numpy as np

WORKTREE = os.environ.get('GEMDAT_WORKTREE', '/tmp/wtu_C05')
NEW_SRC = os.environ.get('GEMDAT_NEW_SRC', os.path.join(WORKTREE, 'src'))
PYTHON = '/venv/bin/python' if os.path.exists('/venv/bin/python') else sys.executable
N_CASES = 30

WORKER = r'''
import pickle, sys, warnings
import numpy as np
import pandas as pd
warnings.filterwarnings('ignore')
from pymatgen.core import Element, Lattice, Structure
import gemdat
from gemdat import Trajectory
from gemdat.transitions import Transitions, _calculate_transitions_matrix, _calculate_transition_events


def guarded(fn):
    try:
        return ('ok', fn())
    except Exception as exc:  # compare failures too
        return ('err', type(exc).__name__, str(exc))


def random_lattice(rng, kind):
    if kind == 0:
        return Lattice.cubic(rng.uniform(6, 9))
    if kind == 1:
        return Lattice.from_parameters(rng.uniform(6, 8), rng.uniform(7, 9), rng.uniform(8, 10),
                                       rng.uniform(70, 110), rng.uniform(70, 110), rng.uniform(70, 110))
    # triclinic AND rotated (not in the a-along-x convention)
    base = Lattice.from_parameters(rng.uniform(6, 8), rng.uniform(7, 9), rng.uniform(8, 10),
                                   rng.uniform(75, 105), rng.uniform(75, 105), rng.uniform(75, 105)).matrix
    q, _ = np.linalg.qr(rng.normal(size=(3, 3)))
    if np.linalg.det(q) < 0:
        q[:, 0] *= -1
    return Lattice(base @ q)


def random_sites(rng, lattice, n_sites, n_labels):
    # well separated fractional positions on a jittered grid, some close to cell faces
    grid = np.array([(i, j, k) for i in range(3) for j in range(3) for k in range(3)], dtype=float) / 3.0
    pick = rng.choice(len(grid), size=n_sites, replace=False)
    frac = (grid[pick] + rng.uniform(-0.02, 0.02, size=(n_sites, 3))) % 1.0
    labels = ['S%d' % (i % n_labels) for i in range(n_sites)]
    return Structure(lattice, ['Li'] * n_sites, frac, labels=labels)


def random_states(rng, n_steps, n_atoms, n_sites, p_move, p_nosite):
    states = np.empty((n_steps, n_atoms), dtype=int)
    cur = rng.integers(-1, n_sites, size=n_atoms)
    for t in range(n_steps):
        move = rng.random(n_atoms) < p_move
        new = rng.integers(0, n_sites, size=n_atoms)
        new[rng.random(n_atoms) < p_nosite] = -1
        cur = np.where(move, new, cur)
        states[t] = cur
    return states


def make_case(seed):
    rng = np.random.default_rng(seed)
    lattice = random_lattice(rng, seed % 3)
    n_sites = int(rng.integers(2, 9))
    n_labels = int(rng.integers(1, min(n_sites, 3) + 1))
    sites = random_sites(rng, lattice, n_sites, n_labels)
    n_atoms = int(rng.integers(1, 5))
    n_steps = int(rng.integers(60, 160))
    states = random_states(rng, n_steps, n_atoms, n_sites, rng.uniform(0.03, 0.25), rng.uniform(0.0, 0.6))
    # inner states: same site or NOSITE (the inner sphere is inside the outer one)
    inner = np.where(rng.random(states.shape) < rng.uniform(0.2, 0.9), states, -1)
    # coordinates: at the site (or between sites) plus noise; wrapped so that atoms cross cell faces
    site_frac = sites.frac_coords
    pos = np.where(states[..., None] >= 0, site_frac[np.clip(states, 0, None)], 0.5)
    pos = pos + rng.normal(scale=0.01, size=pos.shape)
    n_frame = int(rng.integers(0, 3))
    frame_pos = rng.random((n_frame, 3))[None] + rng.normal(scale=0.005, size=(n_steps, n_frame, 3))
    coords = np.concatenate([pos, frame_pos], axis=1) % 1.0
    species = [Element('Li')] * n_atoms + [Element('S')] * n_frame
    traj = Trajectory(species=species, coords=coords, lattice=lattice, time_step=float(rng.uniform(1e-15, 3e-15)),
                      metadata={'temperature': float(rng.uniform(300, 900))})
    return rng, traj, sites, states, inner


def graph_dump(g):
    return (sorted(g.nodes(data='label')), [(u, v, d['e_act']) for u, v, d in g.edges(data=True)])


def structure_dump(st):
    return ([dict((str(el), amt) for el, amt in site.species.items()) for site in st],
            [site.species.num_atoms for site in st], list(st.labels), st.frac_coords, st.lattice.matrix,
            sorted(st.site_properties))


def transitions_dump(tr):
    return (tr.events.to_numpy(), list(tr.events.columns), [str(t) for t in tr.events.dtypes], tr.states,
            tr.inner_states, len(tr.trajectory), len(tr.diff_trajectory), tr.trajectory.positions,
            tr.diff_trajectory.positions, list(tr.sites.labels))


def run_case(seed):
    rng, traj, sites, states, inner = make_case(seed)
    out = {}
    diff = traj.filter('Li')

    if seed % 5 == 0:
        # at most one atom per site, so that the occupancy Structure can always be built
        n_steps, n_atoms = states.shape
        perm = np.array([rng.permutation(len(sites))[:n_atoms] if n_atoms <= len(sites) else
                         np.arange(n_atoms) % len(sites) for _ in range(n_steps)])
        block = np.repeat(perm[:: max(1, n_steps // 7)], max(1, n_steps // 7), axis=0)[:n_steps]
        states = np.where(rng.random(block.shape) < 0.3, -1, block)
        inner = np.where(rng.random(states.shape) < 0.6, states, -1)
    if seed % 7 == 0:
        states = np.full_like(states, -1)  # nobody ever at a site
        states[len(states) // 2:, 0] = 0
        inner = states.copy()

    def build_from_states():
        events = _calculate_transition_events(atom_sites=states, atom_inner_sites=inner)
        return Transitions(trajectory=traj, diff_trajectory=diff, sites=sites, events=events,
                           states=states, inner_states=inner)

    def build_from_trajectory():
        radius = float(rng.uniform(0.3, 0.9))
        if seed % 2:
            radius = {lab: float(rng.uniform(0.3, 0.9)) for lab in sorted(set(sites.labels))}
        return Transitions.from_trajectory(trajectory=traj, sites=sites, floating_specie='Li',
                                           site_radius=radius, site_inner_fraction=float(rng.uniform(0.5, 1.0)))

    for name, builder in (('states', build_from_states), ('traj', build_from_trajectory)):
        res = guarded(builder)
        if res[0] != 'ok':
            out[name] = res
            continue
        tr = res[1]
        out[name + '.occupancy'] = guarded(lambda: structure_dump(tr.occupancy()))
        out[name + '.by_type'] = guarded(lambda: list(tr.occupancy_by_site_type().items()))
        out[name + '.by_type.types'] = guarded(lambda: [type(v).__name__ for v in tr.occupancy_by_site_type().values()])
        out[name + '.locations'] = guarded(lambda: list(tr.atom_locations().items()))
        out[name + '.locations.types'] = guarded(lambda: [type(v).__name__ for v in tr.atom_locations().values()])
        for n_parts in (1, 2, 3, 7, 10):
            key = '%s.split%d' % (name, n_parts)
            pres = guarded(lambda: tr.split(n_parts))
            if pres[0] != 'ok':
                out[key] = pres
                continue
            parts = pres[1]
            out[key] = [transitions_dump(p) for p in parts]
            out[key + '.occ'] = [guarded(lambda: structure_dump(p.occupancy())) for p in parts]
            out[key + '.loc'] = [guarded(lambda: list(p.atom_locations().items())) for p in parts]
            out[key + '.matrix'] = [guarded(lambda: p.matrix()) for p in parts]
        out[name + '.split0'] = guarded(lambda: tr.split(0))
        jres = guarded(lambda: tr.jumps())
        if jres[0] != 'ok':
            out[name + '.jumps'] = jres
            continue
        jumps = jres[1]
        out[name + '.graph'] = guarded(lambda: graph_dump(jumps.to_graph()))
        for n_parts in (2, 5):
            out[name + '.rates%d' % n_parts] = guarded(
                lambda: (lambda df: (list(df.index), list(df.columns), df.to_numpy()))(jumps.rates(n_parts)))
            out[name + '.eact%d' % n_parts] = guarded(
                lambda: (lambda df: (list(df.index), list(df.columns), df.to_numpy()))(jumps.activation_energies(n_parts)))
    return out


if __name__ == '__main__':
    seeds = [int(s) for s in sys.argv[1:]]
    sys.stdout.buffer.write(pickle.dumps({seed: run_case(seed) for seed in seeds}))
'''


def original_src(tmp):
    env_src = os.environ.get('GEMDAT_ORIG_SRC')
    if env_src:
        return env_src
    try:
        archive = subprocess.run(['git', '-C', WORKTREE, 'archive', 'HEAD', 'src/gemdat'], check=True,
                                 capture_output=True).stdout
        subprocess.run(['tar', '-x', '-C', tmp], input=archive, check=True)
        return os.path.join(tmp, 'src')
    except Exception:
        return '/repo/src'


def run_worker(worker_path, src, seeds):
    env = dict(os.environ, PYTHONPATH=src, PYTHONHASHSEED='0')
    proc = subprocess.run([PYTHON, worker_path, *map(str, seeds)], env=env, capture_output=True, cwd='/tmp')
    if proc.returncode != 0:
        sys.stderr.write(proc.stderr.decode())
        raise SystemExit(f'worker failed for {src}')
    return pickle.loads(proc.stdout)


def same(a, b, path, problems):
    if type(a) is not type(b):
        problems.append(f'{path}: type {type(a).__name__} != {type(b).__name__}')
    elif isinstance(a, dict):
        if list(a) != list(b):
            problems.append(f'{path}: keys differ')
        else:
            for k in a:
                same(a[k], b[k], f'{path}/{k}', problems)
    elif isinstance(a, (list, tuple)):
        if len(a) != len(b):
            problems.append(f'{path}: length {len(a)} != {len(b)}')
        else:
            for i, (x, y) in enumerate(zip(a, b)):
                same(x, y, f'{path}[{i}]', problems)
    elif isinstance(a, np.ndarray):
        if a.shape != b.shape or a.dtype != b.dtype:
            problems.append(f'{path}: shape/dtype {a.shape}{a.dtype} != {b.shape}{b.dtype}')
        elif a.dtype.kind == 'f':
            if not np.allclose(a, b, rtol=1e-12, atol=0, equal_nan=True):
                problems.append(f'{path}: float arrays differ')
        elif not np.array_equal(a, b):
            problems.append(f'{path}: arrays differ')
    elif isinstance(a, float):
        if not (a == b or (a != a and b != b) or abs(a - b) <= 1e-12 * max(abs(a), abs(b))):
            problems.append(f'{path}: {a!r} != {b!r}')
    elif a != b:
        problems.append(f'{path}: {a!r} != {b!r}')


def main():
    seeds = list(range(1000, 1000 + N_CASES))
    with tempfile.TemporaryDirectory() as tmp:
        worker_path = os.path.join(tmp, 'worker.py')
        with open(worker_path, 'w') as fh:
            fh.write(WORKER)
        orig = run_worker(worker_path, original_src(tmp), seeds)
        new = run_worker(worker_path, NEW_SRC, seeds)
    problems = []
    same(orig, new, '', problems)
    n_values = sum(len(v) for v in orig.values())
    n_ok = sum(1 for v in orig.values() for r in v.values() if not (isinstance(r, tuple) and r and isinstance(r[0], str) and r[0] == 'err'))
    print(f'cases={len(orig)} compared_values={n_values} non_error_values={n_ok} differences={len(problems)}')
    for p in problems[:40]:
        print('  DIFF', p)
    return 1 if problems else 0


if __name__ == '__main__':
    sys.exit(main())
