"""Differential test for refactoring 2 (transitions._calculate_transition_events).

Runs the same randomised cases once against /repo/src (original) and once against
/tmp/wtt_C07/src (refactored), each in its own subprocess, and compares the pickled results.
Exit code 0 iff all results are identical.
"""
import os
import pickle
import subprocess
import sys
import tempfile

ORIG = '/repo/src'
NEW = '/tmp/wtt_C07/src'
N_ARRAY_CASES = 120
N_TRAJ_CASES = 24


def frame_summary(df):
    return {
        'values': df.to_numpy().tolist(),
        'dtypes': [str(d) for d in df.dtypes],
        'columns': list(df.columns),
        'index': df.index.tolist(),
        'shape': df.shape,
    }


def random_states(rng, seed):
    """Random (outer, inner) state arrays; inner is outer with some entries set to NOSITE."""
    import numpy as np

    kind = seed % 8
    n_steps = int(rng.integers(1, 30)) if kind != 6 else int(rng.integers(1, 3))
    n_atoms = int(rng.integers(1, 6))
    n_sites = int(rng.integers(1, 6))

    outer = np.empty((n_steps, n_atoms), dtype=int)
    outer[0] = rng.integers(-1, n_sites, size=n_atoms)
    p_stay = rng.uniform(0.3, 0.95)
    for t in range(1, n_steps):
        stay = rng.random(n_atoms) < p_stay
        outer[t] = np.where(stay, outer[t - 1], rng.integers(-1, n_sites, size=n_atoms))

    if kind == 1:  # some atoms never move
        outer[:, 0] = outer[0, 0]
    if kind == 2:  # the only change is at the very last step (roll wrap-around edge)
        outer[:, 0] = 0
        outer[-1, 0] = -1 if n_sites == 1 else 1
    if kind == 3:  # first == last but changes in between
        outer[-1] = outer[0]
    if kind == 4:  # last != first for every atom
        outer[-1] = (outer[0] + 2) % (n_sites + 1) - 1
    if kind == 5:  # nothing moves at all -> error path
        outer[:] = outer[0]

    inner = outer.copy()
    inner[rng.random(outer.shape) < rng.uniform(0, 0.6)] = -1
    if kind == 7:  # inner flickers while outer is constant for atom 0
        outer[:, 0] = 0
        inner[:, 0] = np.where(rng.random(n_steps) < 0.5, 0, -1)
    if seed % 16 == 9:  # other integer dtype
        outer = outer.astype(np.int32)
        inner = inner.astype(np.int32)
    return outer, inner


def run_array_case(seed):
    import numpy as np

    from gemdat.transitions import _calculate_transition_events

    rng = np.random.default_rng(seed)
    outer, inner = random_states(rng, seed)
    outer0, inner0 = outer.copy(), inner.copy()
    try:
        df = _calculate_transition_events(atom_sites=outer, atom_inner_sites=inner)
        res = ('ok', frame_summary(df))
    except Exception as exc:
        res = ('exc', type(exc).__name__, str(exc))
    # inputs must not be modified
    return res, bool((outer == outer0).all() and (inner == inner0).all())


def run_traj_case(seed):
    import warnings

    import numpy as np
    from pymatgen.core import Element, Lattice, Structure
    from scipy.spatial.transform import Rotation

    import gemdat
    from gemdat.transitions import Transitions

    rng = np.random.default_rng(10_000 + seed)
    if seed % 3 == 0:
        m = np.eye(3) * rng.uniform(5, 8)
    else:
        m = Lattice.from_parameters(
            *rng.uniform(5, 9, size=3), *rng.uniform(70, 110, size=3)
        ).matrix.copy()
        if seed % 3 == 2:
            m = m @ Rotation.from_rotvec(rng.normal(size=3)).as_matrix().T

    n_sites = int(rng.integers(2, 7))
    site_frac = rng.random((n_sites, 3))
    site_frac[0] = [0.0, 0.0, 0.0]  # site on the cell corner: atoms wrap through faces
    sites = Structure(lattice=m, species=['Li'] * n_sites, coords=site_frac,
                      labels=[('A', 'B')[k % 2] for k in range(n_sites)])
    n_li, n_steps = int(rng.integers(1, 5)), int(rng.integers(2, 60))
    which = rng.integers(0, n_sites, size=(n_steps, n_li))
    hold = rng.random((n_steps, n_li)) < 0.8
    for t in range(1, n_steps):
        which[t] = np.where(hold[t], which[t - 1], which[t])
    li = site_frac[which] + rng.normal(scale=0.04, size=(n_steps, n_li, 3))
    host = rng.random((1, 2, 3)) + rng.normal(scale=0.01, size=(n_steps, 2, 3))
    traj = gemdat.Trajectory(
        species=[Element('Li')] * n_li + [Element('S')] * 2,
        coords=np.concatenate([li, host], axis=1), lattice=m, time_step=1e-15,
        metadata={'temperature': 300},
    )
    with warnings.catch_warnings():
        warnings.simplefilter('ignore')
        try:
            tr = Transitions.from_trajectory(
                trajectory=traj, sites=sites, floating_specie='Li',
                site_radius=float(rng.uniform(0.3, 1.0)),
                site_inner_fraction=float(rng.choice([1.0, 0.5, 0.8])),
            )
            out = ['ok', frame_summary(tr.events), tr.matrix().tolist()]
            try:
                out.append([frame_summary(p.events) for p in tr.split(2)])
            except Exception as exc:
                out.append(('exc', type(exc).__name__, str(exc)))
            try:
                out.append(frame_summary(tr.jumps().data))
            except Exception as exc:
                out.append(('exc', type(exc).__name__, str(exc)))
            return out
        except Exception as exc:
            return ['exc', type(exc).__name__, str(exc)]


def worker(path):
    import gemdat

    results = {'__file__': os.path.dirname(gemdat.__file__)}
    for seed in range(N_ARRAY_CASES):
        results['arr', seed] = run_array_case(seed)
    for seed in range(N_TRAJ_CASES):
        results['traj', seed] = run_traj_case(seed)
    with open(path, 'wb') as fh:
        pickle.dump(results, fh)


def main():
    with tempfile.TemporaryDirectory() as td:
        outs = {}
        for tag, src in (('orig', ORIG), ('new', NEW)):
            path = os.path.join(td, tag + '.pkl')
            env = dict(os.environ, PYTHONPATH=src, PYTHONHASHSEED='0')
            subprocess.run([sys.executable, os.path.abspath(__file__), '--worker', path],
                           env=env, check=True)
            with open(path, 'rb') as fh:
                outs[tag] = pickle.load(fh)
    assert outs['orig'].pop('__file__') == ORIG + '/gemdat', 'original not imported from /repo'
    assert outs['new'].pop('__file__') == NEW + '/gemdat', 'refactored not imported from worktree'
    assert outs['orig'].keys() == outs['new'].keys()

    bad = 0
    n_ok = n_exc = n_rows = 0
    for key, a in outs['orig'].items():
        b = outs['new'][key]
        if a != b:
            bad += 1
            print(f'DIFF case={key}\n  orig={str(a)[:400]}\n  new ={str(b)[:400]}')
        if key[0] == 'arr':
            assert a[1], 'input mutated'
            n_ok += a[0][0] == 'ok'
            n_exc += a[0][0] == 'exc'
            if a[0][0] == 'ok':
                n_rows += a[0][1]['shape'][0]
        else:
            n_ok += a[0] == 'ok'
            n_exc += a[0] == 'exc'
    print(f'cases={len(outs["orig"])} ok={n_ok} exceptions={n_exc} event_rows={n_rows} differing={bad}')
    sys.exit(1 if bad else 0)


if __name__ == '__main__':
    if len(sys.argv) == 3 and sys.argv[1] == '--worker':
        worker(sys.argv[2])
    else:
        main()
