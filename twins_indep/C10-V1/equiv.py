"""Differential test for refactoring 1 (free_energy_graph: mask/argwhere admission, broadcast neighbours).

Loads the ORIGINAL gemdat/path.py from /repo/src (read-only) under another module name and compares it
with the refactored module of the worktree on randomised inputs.  Exits non-zero on any difference.
"""
import importlib.util
import struct
import sys

sys.path.insert(0, '/tmp/wtu_C10/src')

import networkx as nx
import numpy as np
from pymatgen.core import Lattice

import gemdat.path as new
from gemdat.volume import FreeEnergyVolume

assert new.__file__.startswith('/tmp/wtu_C10/'), new.__file__
spec = importlib.util.spec_from_file_location('gemdat._orig_path', '/repo/src/gemdat/path.py')
old = importlib.util.module_from_spec(spec)
sys.modules['gemdat._orig_path'] = old
spec.loader.exec_module(old)

failures = []


def bits(x):
    return struct.pack('<d', float(x))


def same_scalar(a, b):
    return type(a) is type(b) and bits(a) == bits(b)


def same_key(a, b):
    return a == b and [type(i) for i in a] == [type(i) for i in b]


def compare_graphs(tag, Go, Gn):
    no, nn = list(Go.nodes), list(Gn.nodes)
    if no != nn or not all(same_key(a, b) for a, b in zip(no, nn)):
        failures.append(f'{tag}: node order / keys differ')
        return
    for n in no:
        do, dn = Go.nodes[n], Gn.nodes[n]
        if list(do) != list(dn) or not same_scalar(do['energy'], dn['energy']):
            failures.append(f'{tag}: node attrs differ at {n}')
            return
        ao, an = list(Go.adj[n].items()), list(Gn.adj[n].items())
        if len(ao) != len(an):
            failures.append(f'{tag}: degree differs at {n}')
            return
        for (ko, eo), (kn, en) in zip(ao, an):
            if not same_key(ko, kn):
                failures.append(f'{tag}: adjacency order / key type differs at {n}: {ko!r} {kn!r}')
                return
            if list(eo) != list(en) or any(not same_scalar(eo[k], en[k]) for k in eo):
                failures.append(f'{tag}: edge attrs differ at {n}-{ko}: {eo} {en}')
                return


def call(f, *a, **k):
    try:
        return ('ok', f(*a, **k))
    except Exception as e:  # noqa: BLE001
        return ('exc', type(e).__name__, str(e))


def same_path(po, pn):
    if po[0] != pn[0]:
        return False
    if po[0] == 'exc':
        return po == pn
    a, b = po[1], pn[1]
    if a is None or b is None:
        return a is None and b is None
    if a.sites != b.sites or a.dims != b.dims or len(a.energy) != len(b.energy):
        return False
    if not all(same_key(x, y) for x, y in zip(a.sites, b.sites)):
        return False
    return all(same_scalar(x, y) for x, y in zip(a.energy, b.energy))


LATTICES = [
    Lattice.cubic(5.0),
    Lattice.from_parameters(4.0, 5.5, 7.1, 90, 90, 90),
    Lattice.from_parameters(4.0, 5.5, 7.1, 72, 95, 110),
    Lattice([[3.1, 0.4, -0.2], [0.9, 4.2, 0.3], [-0.5, 0.8, 5.0]]),
    Lattice.hexagonal(4.2, 6.6),
]
METHODS = ['dijkstra', 'bellman-ford', 'minmax-energy', 'dijkstra-exp', 'simple', 'bogus']

rng = np.random.default_rng(20261001)
n_cases = 0
for case in range(36):
    shape = tuple(int(i) for i in rng.integers(1, 7, size=3))
    if case % 6 == 0:
        shape = tuple(int(i) for i in rng.permutation([1, 2, int(rng.integers(3, 6))]))
    kind = case % 5
    data = rng.random(shape) * [3.0, 12.0, 30.0, 800.0, 3.0][kind]
    # unusual voxels: negative, nan, inf, exactly 0, exactly on the threshold
    flat = data.reshape(-1)
    for val in (-1.0, np.nan, np.inf, 0.0, -0.0, 5.0):
        if flat.size > 2 and rng.random() < 0.6:
            flat[rng.integers(flat.size)] = val
    thr = [1e20, 1e7, 5.0, 2.0, float('inf')][int(rng.integers(5))]
    diagonal = bool(rng.integers(2))
    if case % 7 == 3:
        data = np.asfortranarray(data)  # non C-contiguous memory layout
    if case % 9 == 4:
        data = (data * 2).astype(int)  # integer grid
    vol = FreeEnergyVolume(data=data, lattice=LATTICES[case % len(LATTICES)])
    arg = vol if case % 2 else data
    tag = f'case{case} shape={shape} thr={thr} diag={diagonal}'

    with np.errstate(all='ignore'):
        Go = old.free_energy_graph(arg, max_energy_threshold=thr, diagonal=diagonal)
        Gn = new.free_energy_graph(arg, max_energy_threshold=thr, diagonal=diagonal)
    compare_graphs(tag, Go, Gn)
    n_cases += 1

    # default arguments
    with np.errstate(all='ignore'):
        compare_graphs(tag + ' defaults', old.free_energy_graph(arg), new.free_energy_graph(arg))
        # Volume method delegates to the refactored function
        compare_graphs(tag + ' method', old.free_energy_graph(data, max_energy_threshold=1e7),
                       vol.free_energy_graph(max_energy_threshold=1e7))

    # paths found on the two graphs (tie breaking depends on insertion order)
    nodes = list(Go.nodes)
    if nodes:
        for _ in range(4):
            s = nodes[int(rng.integers(len(nodes)))]
            t = nodes[int(rng.integers(len(nodes)))]
            for m in METHODS:
                po = call(old.optimal_path, Go, start=s, stop=t, method=m)
                pn = call(new.optimal_path, Gn, start=s, stop=t, method=m)
                if not same_path(po, pn):
                    failures.append(f'{tag}: optimal_path {m} {s}->{t} differs')

    # percolating paths (tiles the grid and builds the graph internally)
    fin = np.argwhere((data >= 0) & (data < 1e7))
    if len(fin) and min(shape) >= 1 and data.size <= 150:
        peaks = fin[rng.permutation(len(fin))[:3]]
        for perc in ('x', 'yz', 'xyz', 'zx', ''):
            with np.errstate(all='ignore'):
                po = call(old.optimal_percolating_path, vol, peaks=peaks, percolate=perc)
                pn = call(new.optimal_percolating_path, vol, peaks=peaks, percolate=perc)
            if not same_path(po, pn):
                failures.append(f'{tag}: percolating {perc!r} differs')
            elif po[0] == 'ok' and po[1] is not None:
                if po[1].wrapped_sites() != pn[1].wrapped_sites() or not np.array_equal(
                        po[1].frac_sites(), pn[1].frac_sites()):
                    failures.append(f'{tag}: wrapped/frac differ {perc!r}')

# empty grid / nothing admissible
for data in (np.full((3, 3, 3), -1.0), np.full((2, 3, 2), np.nan), np.zeros((0, 3, 3))):
    compare_graphs('empty', old.free_energy_graph(data), new.free_energy_graph(data))
    n_cases += 1

print(f'cases={n_cases} failures={len(failures)}')
for f in failures[:20]:
    print('  DIFF', f)
sys.exit(1 if failures else 0)
