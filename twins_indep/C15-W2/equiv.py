"""Differential test: original gemdat (/repo/src) vs refactored worktree (/tmp/wtw_C15/src).

Runs the same randomised scenario script in two subprocesses (one per PYTHONPATH), pickles
the results and compares them bit-for-bit (floats: <= 1e-12).  Exits non-zero on any difference.
"""
import os
import pickle
import subprocess
import sys
import tempfile

import numpy as np

WORKER = r'''
import pickle, sys, warnings
warnings.filterwarnings('ignore')
import numpy as np
from pymatgen.core import Element, Lattice, Species
import gemdat
from gemdat import Trajectory

def snap(t):
    """Observable state of a trajectory, without triggering a conversion first."""
    out = {
        'n': len(t),
        'species': [str(s) for s in t.species],
        'cad': bool(t.coords_are_displacement),
        'coords_raw': np.array(t.coords, copy=True),
        'base': None if t.base_positions is None else np.array(t.base_positions, copy=True),
        'lattice': np.array(t.get_lattice().matrix, copy=True),
        'time_step': t.time_step,
        'metadata': dict(t.metadata),
        'cls': type(t).__name__,
    }
    return out

def full(t):
    a = snap(t)
    a['positions'] = np.array(t.positions, copy=True)
    a['displacements'] = np.array(t.displacements, copy=True)
    a['positions2'] = np.array(t.positions, copy=True)
    return a

def attempt(f):
    try:
        return ('ok', f())
    except Exception as e:  # noqa
        return ('err', type(e).__name__)

def make(rng, case):
    kind = case % 4
    if kind == 0:
        lat = Lattice.cubic(4.0 + rng.random() * 3)
    elif kind == 1:
        lat = Lattice.from_parameters(4 + rng.random(), 5 + rng.random(), 6 + rng.random(),
                                      70 + 30 * rng.random(), 80 + 25 * rng.random(), 60 + 50 * rng.random())
    elif kind == 2:
        # rotated triclinic cell
        m = Lattice.from_parameters(5, 6, 7, 75, 95, 110).matrix
        q, _ = np.linalg.qr(rng.normal(size=(3, 3)))
        lat = Lattice(m @ q)
    else:
        lat = Lattice(np.eye(3) * 5 + rng.normal(scale=0.6, size=(3, 3)))
    pool = ['Li', 'Li', 'S', 'P', 'Na', 'O', 'Cl']
    nat = int(rng.integers(1, 9))
    syms = list(rng.choice(pool, size=nat))
    species = []
    for s in syms:
        if rng.random() < 0.3:
            species.append(Species(s, 1 if s in ('Li', 'Na') else -2) if s in ('Li', 'Na', 'O', 'S') else Element(s))
        else:
            species.append(Element(s))
    nfr = int(rng.integers(1, 40))
    start = rng.random((1, nat, 3))
    steps = rng.normal(scale=0.15, size=(nfr, nat, 3))
    steps[0] = 0
    coords = start + np.cumsum(steps, axis=0)       # atoms cross cell faces, coords leave [0, 1)
    # boundary values
    if nfr > 2 and rng.random() < 0.5:
        coords[1, 0] = [1.0, -1e-18, 0.0]
        coords[2, 0] = [-0.0, 2.0, 1 - 1e-17]
    meta = {'temperature': float(rng.integers(100, 900))} if rng.random() < 0.8 else None
    t = Trajectory(species=species, coords=coords, lattice=lat, time_step=float(rng.choice([1e-15, 2e-15, 5e-16])),
                   metadata=meta)
    return t, syms

def scenario(seed):
    rng = np.random.default_rng(seed)
    t, syms = make(rng, seed)
    res = {}
    # put source in a random internal representation first
    rep = seed % 3
    if rep == 1:
        t.to_displacements()
    elif rep == 2:
        t.to_displacements(); t.to_positions()
    res['src0'] = snap(t)
    present = sorted(set(syms))
    selections = [present[0], [present[0]], tuple(present), set(present[:2]), frozenset(present[-1:]), [], 'Xx', ['Zr', present[-1]],
                  'L', present[0][0]]
    for i, sel in enumerate(selections):
        res['filter%d' % i] = attempt(lambda: full(t.filter(sel)))
        res['after_filter%d' % i] = snap(t)
        if i % 3 == 0:
            t.to_displacements()
    # chained: filter on slices / filter of filter
    res['slice_filter'] = attempt(lambda: full(t[1:].filter(present[0])))
    res['filter_filter'] = attempt(lambda: full(t.filter(present).filter(present[-1])))
    res['filter_slice'] = attempt(lambda: full(t.filter(present[0])[::2]))
    res['drift_fixed'] = attempt(lambda: np.array(t.drift(fixed_species=present[0])))
    res['drift_floating'] = attempt(lambda: np.array(t.drift(floating_species=[present[0]])))
    res['drift_corr'] = attempt(lambda: full(t.apply_drift_correction(floating_species=present[-1])))
    res['dist'] = attempt(lambda: np.array(t.distances_from_base_position()))
    res['com'] = attempt(lambda: full(t.center_of_mass()))
    for n in (0, 1, 2, 3, 4, 7, 10, len(t), len(t) + 3, int(rng.integers(1, 60))):
        for eq in (False, True):
            res['split%d%s' % (n, eq)] = attempt(lambda: [snap(p) for p in t.split(n, equal_parts=eq)])
            res['splitfull%d%s' % (n, eq)] = attempt(lambda: [full(p) for p in t.split(n, equal_parts=eq)])
            res['after_split%d%s' % (n, eq)] = snap(t)
            if n % 2:
                t.to_displacements()
    res['split_default'] = attempt(lambda: [snap(p) for p in t.split()])
    res['split_kw'] = attempt(lambda: [snap(p) for p in t.filter(present[0]).split(n_parts=3, equal_parts=True)])
    res['idx'] = attempt(lambda: snap(t[len(t) // 2:]))
    res['idxlist'] = attempt(lambda: full(t[[0, len(t) - 1]]))
    res['final'] = full(t)
    return res

out = {seed: scenario(seed) for seed in range(int(sys.argv[2]))}
pickle.dump(out, open(sys.argv[1], 'wb'))
'''


def run(src, path, n):
    env = dict(os.environ, PYTHONPATH=src)
    subprocess.run(['/venv/bin/python', '-c', WORKER, path, str(n)], env=env, check=True, cwd='/tmp')


def same(a, b, where, errs):
    if type(a) is not type(b):
        errs.append(f'{where}: type {type(a)} != {type(b)}')
    elif isinstance(a, dict):
        if a.keys() != b.keys():
            errs.append(f'{where}: keys differ')
            return
        for k in a:
            same(a[k], b[k], f'{where}.{k}', errs)
    elif isinstance(a, (list, tuple)):
        if len(a) != len(b):
            errs.append(f'{where}: len {len(a)} != {len(b)}')
            return
        for i, (x, y) in enumerate(zip(a, b)):
            same(x, y, f'{where}[{i}]', errs)
    elif isinstance(a, np.ndarray):
        if a.shape != b.shape or a.dtype != b.dtype:
            errs.append(f'{where}: shape/dtype {a.shape}{a.dtype} != {b.shape}{b.dtype}')
        elif a.size and not np.allclose(a, b, rtol=0, atol=1e-12, equal_nan=True):
            errs.append(f'{where}: values differ by {np.nanmax(np.abs(a - b))}')
    elif isinstance(a, float):
        if not (a == b or abs(a - b) <= 1e-12):
            errs.append(f'{where}: {a} != {b}')
    elif a != b:
        errs.append(f'{where}: {a!r} != {b!r}')


def main():
    n = 40
    with tempfile.TemporaryDirectory() as td:
        po, pn = os.path.join(td, 'o.pkl'), os.path.join(td, 'n.pkl')
        run('/repo/src', po, n)
        run('/tmp/wtw_C15/src', pn, n)
        o, r = pickle.load(open(po, 'rb')), pickle.load(open(pn, 'rb'))
    errs = []
    same(o, r, 'res', errs)
    nok = sum(1 for s in o.values() for v in s.values() if isinstance(v, tuple) and v[0] == 'ok')
    nerr = sum(1 for s in o.values() for v in s.values() if isinstance(v, tuple) and v[0] == 'err')
    print(f'scenarios={len(o)} ok_calls={nok} err_calls={nerr} differences={len(errs)}')
    for e in errs[:20]:
        print('  DIFF', e)
    sys.exit(1 if errs else 0)


if __name__ == '__main__':
    main()
