"""Differential test for refactoring 3 (src/gemdat/collective.py: pair loop of
Collective._compute via itertools.combinations + operator.itemgetter, combined skip
condition; site_pair_count_matrix with a position dict instead of list.index;
multiple_collective built with map(itemgetter)).

The same worker script is run in subprocesses with PYTHONPATH=/repo/src (ORIGINAL,
read-only) and PYTHONPATH=<worktree>/src (refactored), for two values of PYTHONHASHSEED
(the order of site_pair_count_matrix_labels() comes from a set of string pairs).  The
worker builds >= 20 random synthetic trajectories (cubic / orthorhombic / triclinic /
rotated cells, sites on cell faces, hops across the periodic boundary, very short runs
with 1-3 jumps, 1-3 site labels), keeps a pool of live Jumps objects and replays a random
history of Jumps.collective(max_dist) calls with varying arguments (including "nothing is
collective" and "everything is collective"), direct Collective(...) constructions with
varying max_steps, the cached Collective methods, drops and gc.  All results are printed
exactly (values, dtypes, element types, order) and each cached result is also compared
with an uncached recomputation through __wrapped__ (property C20).  Outputs must be
identical line by line.
"""

SYNTH = r"""
import numpy as np
from pymatgen.core import Lattice, Structure, Element


def random_lattice(rng, kind):
    if kind == 'cubic':
        return Lattice.cubic(float(rng.uniform(7, 10)))
    if kind == 'ortho':
        return Lattice.orthorhombic(*rng.uniform(6, 11, 3))
    a, b, c = rng.uniform(7, 11, 3)
    al, be, ga = rng.uniform(70, 110, 3)
    lat = Lattice.from_parameters(a, b, c, al, be, ga)
    if kind == 'rotated':
        q, _ = np.linalg.qr(rng.normal(size=(3, 3)))
        if np.linalg.det(q) < 0:
            q[:, 0] *= -1
        lat = Lattice(lat.matrix @ q)
    return lat


def make_case(gemdat, rng, kind='triclinic', n_steps=400, n_li=3, labels=('A', 'B')):
    lat = random_lattice(rng, kind)
    # sites on a 2x2x2 grid, offset so some sit at the cell faces
    grid = np.array([[i, j, k] for i in (0, .5) for j in (0, .5) for k in (0, .5)], float)
    off = rng.choice([0.0, 0.02, 0.98])
    site_frac = (grid + off) % 1.0
    n_sites = len(site_frac)
    site_labels = [labels[i % len(labels)] for i in rng.permutation(n_sites)]
    sites = Structure(lat, ['Li'] * n_sites, site_frac, labels=site_labels)
    # Li atoms hop between sites (possibly across cell faces), with dwell times
    coords = np.zeros((n_steps, n_li + 2, 3))
    for a in range(n_li):
        cur = int(rng.integers(n_sites))
        t = 0
        pos = site_frac[cur].copy()
        while t < n_steps:
            dwell = int(rng.integers(8, 60))
            end = min(n_steps, t + dwell)
            coords[t:end, a] = pos + rng.normal(scale=0.006, size=(end - t, 3))
            t = end
            if t >= n_steps:
                break
            nxt = int(rng.integers(n_sites))
            d = site_frac[nxt] - site_frac[cur]
            d -= np.round(d)
            ntr = int(rng.integers(1, 4))
            end = min(n_steps, t + ntr)
            for s in range(t, end):
                f = (s - t + 1) / (ntr + 1)
                coords[s, a] = pos + f * d + rng.normal(scale=0.004, size=3)
            t = end
            pos = pos + d
            cur = nxt
    coords[:, n_li] = np.array([.25, .25, .25]) + rng.normal(scale=0.003, size=(n_steps, 3))
    coords[:, n_li + 1] = np.array([.75, .75, .25]) + rng.normal(scale=0.003, size=(n_steps, 3))
    coords = coords % 1.0
    species = [Element('Li')] * n_li + [Element('S'), Element('P')]
    traj = gemdat.Trajectory(species=species, coords=coords, lattice=lat,
                             time_step=float(rng.choice([1e-15, 2e-15])),
                             metadata={'temperature': float(rng.choice([300, 650, 900]))})
    return traj, sites
"""

WORKER = r"""
import gc
import sys
import weakref

import numpy as np

sys.path.insert(0, '.')
import gemdat
import synth
from gemdat.collective import Collective
from gemdat.jumps import Jumps
from gemdat.transitions import Transitions

print('SRC', gemdat.__file__.split('/gemdat/')[0])


def series(s):
    return (s.name, type(s.name).__name__, list(s.index), [int(v) for v in s.values], str(s.dtype))


def arr(a):
    a = np.asarray(a)
    return (a.shape, str(a.dtype), a.tobytes().hex())


def dump_collective(c):
    return ('Collective', int(c.n_solo_jumps), type(c.n_solo_jumps).__name__,
            int(c.n_coll_jumps), type(c.n_coll_jumps).__name__, c.max_steps, float(c.max_dist).hex(),
            [tuple((int(x), type(x).__name__) for pair in cj for x in pair) for cj in c.coll_jumps],
            [type(cj).__name__ + type(cj[0]).__name__ for cj in c.coll_jumps[:3]],
            [(series(a), series(b)) for a, b in c.collective])


def dump(res):
    if isinstance(res, Collective):
        return dump_collective(res)
    if isinstance(res, np.ndarray):
        return ('arr',) + arr(res)
    if isinstance(res, tuple) and all(isinstance(r, np.ndarray) for r in res):
        return ('arrs',) + tuple(arr(r) for r in res)
    if isinstance(res, list):
        return ('list', res)
    return (type(res).__name__, repr(res))


def call(cls, obj, name, args=(), kwargs={}, cached=True):
    meth = getattr(cls, name)
    fn = meth if cached else meth.__wrapped__
    try:
        return ('ok', dump(fn(obj, *args, **kwargs)))
    except Exception as exc:  # noqa: BLE001
        return ('exc', type(exc).__name__, str(exc)[:200])


def probe_collective(tag, c, rng):
    # query the cached methods of a Collective in random order, twice, and uncached
    names = ['site_pair_count_matrix', 'site_pair_count_matrix_labels', 'multiple_collective']
    for k in rng.permutation(3):
        res = call(Collective, c, names[k])
        print('RES', tag, names[k], res)
        assert call(Collective, c, names[k]) == res, 'cache hit differs'
        assert call(Collective, c, names[k], cached=False) == res, \
            ('memoised result differs from recomputation', names[k])
    print('RES', tag, 'state', dump_collective(c))


def new_jumps(rng, case):
    kind = ['cubic', 'ortho', 'triclinic', 'rotated'][case % 4]
    labels = [('A', 'B'), ('A',), ('A', 'B', 'C'), ('Li1', 'Li2')][int(rng.integers(4))]
    short = case % 5 == 4
    traj, sites = synth.make_case(gemdat, rng, kind=kind,
                                  n_steps=int(rng.integers(50, 110)) if short else int(rng.integers(200, 360)),
                                  n_li=int(rng.integers(1, 3)) if short else int(rng.integers(2, 5)),
                                  labels=labels)
    tr = Transitions.from_trajectory(trajectory=traj, sites=sites, floating_specie='Li',
                                     site_radius=float(rng.choice([0.7, 0.9])),
                                     site_inner_fraction=float(rng.choice([1.0, 0.8])))
    try:
        j = Jumps(tr, minimal_residence=int(rng.integers(0, 4)))
    except ValueError as exc:
        print('CASE', case, kind, labels, 'no jumps:', exc)
        return None
    print('CASE', case, kind, labels, 'n_jumps', j.n_jumps, 'n_floating', j.n_floating)
    return j


def synthetic_tables(rng):
    # Collective only reads jumps.data, so dense hand-made event tables (many ties in the
    # start/stop times, same-atom pairs, 0-3 events) exercise every branch of the pair loop
    import types
    import pandas as pd
    for k in range(40):
        kind = ['cubic', 'ortho', 'triclinic', 'rotated'][k % 4]
        lat = synth.random_lattice(rng, kind)
        n_sites = int(rng.integers(2, 7))
        frac = rng.random((n_sites, 3))
        frac[0] = [0.0, 0.999, 0.5]          # on / next to a cell face
        labels = [str(x) for x in rng.choice(['A', 'B', 'C'], size=n_sites)]
        from pymatgen.core import Structure
        sites = Structure(lat, ['Li'] * n_sites, frac, labels=labels)
        n_ev = int(rng.integers(0, 4)) if k % 8 == 7 else int(rng.integers(4, 16))
        start = rng.integers(0, 12, n_ev)
        data = pd.DataFrame({
            'atom index': rng.integers(0, 4, n_ev),
            'start site': rng.integers(0, n_sites, n_ev),
            'destination site': rng.integers(0, n_sites, n_ev),
            'start time': start,
            'stop time': start + rng.integers(1, 5, n_ev),
        }).astype('int64')
        fake = types.SimpleNamespace(data=data)
        for _ in range(3):
            ms = int(rng.integers(-5, 6))
            md = float(rng.choice([0.5, 2.0, 3.5, 6.0, 50.0]))
            print('CASE synthetic', k, kind, 'n_events', n_ev, 'ms', ms, 'md', md)
            try:
                c = Collective(jumps=fake, sites=sites, lattice=lat, max_steps=ms, max_dist=md)
            except Exception as exc:  # noqa: BLE001
                print('RES synthetic ctor exc', type(exc).__name__, str(exc)[:200])
                continue
            probe_collective(f'synthetic {k} ms={ms} md={md}', c, rng)


MAX_DISTS = [0.01, 1, 1.0, 2.5, 4.0, 5.5, 100.0]
MAX_STEPS = [-3, -2, -1, 0, 1, 2, 5, 40, 10**6]   # negative: the second lag test matters

synthetic_tables(np.random.default_rng(909))

rng = np.random.default_rng(303)
live = []
case = 0
N_CASES = 24
while case < N_CASES or live:
    r = rng.random()
    if case < N_CASES and (len(live) < 2 or r < 0.08):
        j = new_jumps(rng, case)
        case += 1
        if j is not None:
            live.append(j)
        j = None
    elif live and r < 0.55:
        i = int(rng.integers(len(live)))
        form = int(rng.integers(3))
        md = MAX_DISTS[int(rng.integers(len(MAX_DISTS)))]
        args, kwargs = [((), {}), ((md,), {}), ((), {'max_dist': md})][form]
        c = live[i].collective(*args, **kwargs)
        assert live[i].collective(*args, **kwargs) is c, 'cache hit returned another object'
        fresh = call(Jumps, live[i], 'collective', args, kwargs, cached=False)
        assert fresh == ('ok', dump_collective(c)), 'memoised Collective differs from recomputation'
        probe_collective(f'{i} collective{args}{kwargs}', c, rng)
        if rng.random() < 0.3:
            print('RES', i, 'n_solo', live[i].n_solo_jumps, float(live[i].solo_fraction).hex())
        c = None
    elif live and r < 0.80:
        i = int(rng.integers(len(live)))
        ms = MAX_STEPS[int(rng.integers(len(MAX_STEPS)))]
        md = MAX_DISTS[int(rng.integers(len(MAX_DISTS)))]
        j = live[i]
        c = Collective(jumps=j, sites=j.sites, lattice=j.trajectory.get_lattice(), max_steps=ms, max_dist=md)
        probe_collective(f'{i} direct ms={ms} md={md}', c, rng)
        ref = weakref.ref(c)
        c = j = None
        assert ref() is None, 'cache keeps the Collective object alive'
    elif live and (r < 0.95 or case >= N_CASES):
        i = int(rng.integers(len(live)))
        ref = weakref.ref(live[i])
        del live[i]
        gc.collect()   # Jumps <-> Collective reference each other (Collective.jumps / cached value)
        print('DROP', i, 'collected' if ref() is None else 'ALIVE')
    else:
        gc.collect()
        print('GC')
"""

import os
import subprocess
import sys
import tempfile

WT = os.environ.get('C20_WORKTREE', '/tmp/wtu_C20')


def run(src, workdir, hashseed='0'):
    env = dict(os.environ, PYTHONPATH=src, PYTHONHASHSEED=hashseed)
    p = subprocess.run([sys.executable, '-W', 'ignore', os.path.join(workdir, 'worker.py')],
                       env=env, capture_output=True, text=True, cwd=workdir)
    if p.returncode != 0:
        print(p.stdout[-1500:])
        print(p.stderr[-3000:])
        print('worker failed for', src)
        sys.exit(2)
    return p.stdout


def main():
    for hashseed in ('0', '12345'):
        compare(hashseed)
    print('EQUIVALENT')
    sys.exit(0)


def compare(hashseed):
    with tempfile.TemporaryDirectory() as td:
        open(os.path.join(td, 'synth.py'), 'w').write(SYNTH)
        open(os.path.join(td, 'worker.py'), 'w').write(WORKER)
        out_orig = run('/repo/src', td, hashseed)          # ORIGINAL implementation (read-only)
        out_new = run(f'{WT}/src', td, hashseed)           # refactored worktree
    lines_o, lines_n = out_orig.splitlines(), out_new.splitlines()
    assert lines_o[0].startswith('SRC /repo/src'), lines_o[0]
    assert lines_n[0].startswith(f'SRC {WT}/src'), lines_n[0]
    body_o, body_n = lines_o[1:], lines_n[1:]
    n_cases = sum(1 for line in body_n if line.startswith('CASE'))
    n_res = sum(1 for line in body_n if line.startswith('RES'))
    if body_o != body_n:
        for k, (a, b) in enumerate(zip(body_o, body_n)):
            if a != b:
                print('first difference at line', k)
                print('  orig:', a[:600])
                print('  new :', b[:600])
                break
        else:
            print('different number of lines', len(body_o), len(body_n))
        print('DIFFERENT')
        sys.exit(1)
    assert n_cases >= 20 and n_res >= 100, (n_cases, n_res)
    print(f'PYTHONHASHSEED={hashseed}: {n_cases} random cases, {n_res} compared results, '
          f'{len(body_n)} lines identical')


if __name__ == '__main__':
    main()
