"""Differential test for refactoring 2 (path.free_energy_graph split into helpers; boolean-mask node selection).

The same randomised cases are run once against the ORIGINAL tree and once against the refactored worktree,
each in its own subprocess (PYTHONPATH decides which gemdat is imported); the pickled results are compared.
Exit code 0 iff every result is identical (graphs are compared including node order, adjacency order, the
Python types of node keys / adjacency keys / attributes, and the emitted warnings).

ORIGINAL tree: /repo/src (read-only).  It can be redirected with GEMDAT_ORIG_SRC=<dir>, e.g. to an export of
the untouched HEAD (`git -C /tmp/wtu_C07 archive HEAD src | tar -x -C <dir>`).
"""
import os
import pickle
import subprocess
import sys
import tempfile

ORIG = os.environ.get('GEMDAT_ORIG_SRC', '/repo/src')
NEW = '/tmp/wtu_C07/src'
N_GRAPH = 60
N_PATH = 24


def typed(x):
    """Value together with its Python type, recursively for tuples."""
    if isinstance(x, tuple):
        return ('tuple', tuple(typed(v) for v in x))
    if hasattr(x, 'item'):
        return (type(x).__name__, repr(x.item()))
    return (type(x).__name__, repr(x))


def graph_summary(G):
    return {
        'nodes': [(typed(n), [(k, typed(v)) for k, v in d.items()]) for n, d in G.nodes(data=True)],
        'adj': [
            (typed(n), [(typed(m), [(k, typed(v)) for k, v in d.items()]) for m, d in nbrs.items()])
            for n, nbrs in G.adjacency()
        ],
        'n_edges': G.number_of_edges(),
    }


def path_summary(p):
    if p is None:
        return None
    return {'sites': [typed(s) for s in p.sites], 'energy': [typed(e) for e in p.energy],
            'total': repr(float(p.total_energy)), 'dims': p.dims}


def call(func, summarize, *args, **kwargs):
    import warnings

    with warnings.catch_warnings(record=True) as caught:
        warnings.simplefilter('always')
        try:
            res = ('ok', summarize(func(*args, **kwargs)))
        except Exception as exc:
            res = ('exc', type(exc).__name__, str(exc))
    return res, sorted({(w.category.__name__, str(w.message)) for w in caught})


def random_grid(rng, seed):
    import numpy as np

    kind = seed % 10
    shape = tuple(int(x) for x in rng.integers(1, 6, size=3))
    data = rng.uniform(0, 6, size=shape)
    if kind == 1:  # invalid voxels: negative, above threshold, nan, inf
        flat = data.reshape(-1)
        pick = rng.random(flat.size)
        flat[pick < 0.15] = -rng.uniform(0, 2)
        flat[(pick >= 0.15) & (pick < 0.25)] = np.nan
        flat[(pick >= 0.25) & (pick < 0.35)] = np.inf
        flat[(pick >= 0.35) & (pick < 0.45)] = 1e25
    elif kind == 2:  # exp overflows / is capped
        data = rng.uniform(0, 900, size=shape)
    elif kind == 3:  # values exactly 0 and exactly on the threshold
        data = rng.choice([0.0, 1.0, 2.5, 5.0, 7.0], size=shape)
    elif kind == 4:  # Fortran order
        data = np.asfortranarray(data)
    elif kind == 5:  # non-contiguous view
        big = rng.uniform(0, 6, size=tuple(2 * s for s in shape))
        data = big[::2, ::2, ::2]
    elif kind == 6:  # integer grid
        data = rng.integers(-1, 8, size=shape)
    elif kind == 7:  # float32 grid with huge values
        data = rng.choice([0.5, 3.0, 3e38], size=shape).astype(np.float32)
    elif kind == 8:  # all voxels invalid, or degenerate / non-3d grids
        choice = seed // 10 % 4
        if choice == 0:
            data = -np.ones(shape)
        elif choice == 1:
            data = rng.uniform(0, 3, size=(3, 4))
        elif choice == 2:
            data = rng.uniform(0, 3, size=(0, 3, 3))
        else:
            data = rng.uniform(0, 3, size=(2, 2, 2, 2))
    return data


def run_graph_case(seed):
    import numpy as np
    from gemdat.path import free_energy_graph
    from gemdat.volume import FreeEnergyVolume
    from pymatgen.core import Lattice

    rng = np.random.default_rng(seed)
    data = random_grid(rng, seed)
    out = {'shape': data.shape, 'dtype': str(data.dtype)}
    thresholds = {0: 1e20, 1: 1e20, 2: 1e7, 3: 5.0}
    thr = thresholds.get(seed % 10, float(rng.choice([1e20, 1e7, 4.0])))
    for diagonal in (True, False):
        out['graph', diagonal] = call(free_energy_graph, graph_summary, data, max_energy_threshold=thr,
                                      diagonal=diagonal)
    out['default'] = call(free_energy_graph, graph_summary, data)
    if data.ndim == 3 and data.size:
        lattice = Lattice.from_parameters(*rng.uniform(4, 9, size=3), *rng.uniform(70, 110, size=3))
        vol = FreeEnergyVolume(data=data, lattice=lattice)
        out['volume'] = call(free_energy_graph, graph_summary, vol, max_energy_threshold=thr)
        out['volume_method'] = call(vol.free_energy_graph, graph_summary, max_energy_threshold=1e7)
    return out


def run_path_case(seed):
    """Optimal paths / costs on the graphs, also for the grid rolled by whole voxels (property C07)."""
    import numpy as np
    from gemdat.path import free_energy_graph, optimal_n_paths, optimal_path
    from gemdat.volume import FreeEnergyVolume
    from pymatgen.core import Lattice
    from scipy.spatial.transform import Rotation

    rng = np.random.default_rng(5_000 + seed)
    shape = tuple(int(x) for x in rng.integers(2, 6, size=3))
    data = rng.uniform(0, 8, size=shape)
    if seed % 3 == 1:
        data[rng.random(shape) < 0.15] = 1e9  # walls
    if seed % 3 == 2:
        data = np.round(data)  # many ties
    matrix = Lattice.from_parameters(*rng.uniform(4, 9, size=3), *rng.uniform(70, 110, size=3)).matrix.copy()
    if seed % 2:
        matrix = matrix @ Rotation.from_rotvec(rng.normal(size=3)).as_matrix().T
    out = {}
    shift = tuple(int(x) for x in rng.integers(0, 5, size=3))
    for tag, grid, offset in (('plain', data, (0, 0, 0)), ('rolled', np.roll(data, shift, axis=(0, 1, 2)), shift)):
        vol = FreeEnergyVolume(data=grid, lattice=Lattice(matrix))
        ok = np.argwhere(grid < 1e7)
        start = tuple(int(x) for x in (np.array(ok[0]) if tag == 'plain' else ok[0]))
        stop = tuple(int(x) for x in ok[-1])
        if tag == 'plain':
            plain_start, plain_stop = start, stop
        else:
            start = tuple((np.array(plain_start) + offset) % shape)
            stop = tuple((np.array(plain_stop) + offset) % shape)
            start = tuple(int(x) for x in start)
            stop = tuple(int(x) for x in stop)
        G = free_energy_graph(vol, max_energy_threshold=1e7, diagonal=bool(seed % 4))
        for method in ('dijkstra', 'bellman-ford', 'minmax-energy', 'dijkstra-exp', 'simple'):
            out[tag, method] = call(optimal_path, path_summary, G, start=start, stop=stop, method=method)
        out[tag, 'n_paths'] = call(optimal_n_paths, lambda ps: [path_summary(p) for p in ps], G, start=start,
                                   stop=stop, n_paths=3, min_diff=0.0)
        out[tag, 'vol.optimal_path'] = call(vol.optimal_path, path_summary, start=start, stop=stop)
        peaks = np.array([start, stop])
        for percolate in ('x', 'yz', 'xyz'):
            out[tag, 'percolate', percolate] = call(vol.optimal_percolating_path, path_summary, peaks=peaks,
                                                    percolate=percolate)
    return out


def worker(path):
    results = {}
    for seed in range(N_GRAPH):
        results['graph', seed] = run_graph_case(seed)
    for seed in range(N_PATH):
        results['path', seed] = run_path_case(seed)
    with open(path, 'wb') as fh:
        pickle.dump(results, fh)


def run_tree(src, path):
    env = dict(os.environ, PYTHONPATH=src)
    subprocess.run([sys.executable, os.path.abspath(__file__), '--worker', path], env=env, check=True)
    with open(path, 'rb') as fh:
        return pickle.load(fh)


def main():
    with tempfile.TemporaryDirectory() as td:
        a = run_tree(ORIG, os.path.join(td, 'orig.pkl'))
        b = run_tree(NEW, os.path.join(td, 'new.pkl'))
    assert a.keys() == b.keys()
    differing = [k for k in a if a[k] != b[k]]
    calls = [v for case in a.values() for v in case.values() if isinstance(v, tuple) and len(v) == 2
             and isinstance(v[0], tuple) and v[0] and v[0][0] in ('ok', 'exc')]
    n_ok = sum(1 for res, _ in calls if res[0] == 'ok')
    n_exc = sum(1 for res, _ in calls if res[0] == 'exc')
    n_warn = sum(1 for _, w in calls if w)
    n_edges = sum(res[1]['n_edges'] for res, _ in calls if res[0] == 'ok' and isinstance(res[1], dict)
                  and 'n_edges' in res[1])
    print(f'cases={len(a)} calls_ok={n_ok} exceptions={n_exc} calls_with_warnings={n_warn} '
          f'graph_edges={n_edges} differing={len(differing)}')
    for k in differing[:10]:
        print('  DIFFERS', k)
    sys.exit(1 if differing else 0)


if __name__ == '__main__':
    if len(sys.argv) == 3 and sys.argv[1] == '--worker':
        import gemdat  # noqa: F401

        expected = os.environ['PYTHONPATH'].split(os.pathsep)[0]
        assert os.path.abspath(gemdat.__file__).startswith(os.path.abspath(expected)), gemdat.__file__
        worker(sys.argv[2])
    else:
        main()
