"""Differential test for refactoring 3 (optimal_percolating_path: _CheapestPath tracker, contextlib.suppress,
np.where tiling repeats, early return).

Loads the ORIGINAL gemdat/path.py from /repo/src (read-only) under another module name and compares it
with the refactored module of the worktree on randomised inputs.  Exits non-zero on any difference.
"""
import importlib.util
import struct
import sys

sys.path.insert(0, '/tmp/wtu_C10/src')

import networkx as nx
import numpy as np
from pymatgen.core import Lattice

import gemdat.path as new
from gemdat.volume import FreeEnergyVolume

assert new.__file__.startswith('/tmp/wtu_C10/'), new.__file__
spec = importlib.util.spec_from_file_location('gemdat._orig_path', '/repo/src/gemdat/path.py')
old = importlib.util.module_from_spec(spec)
sys.modules['gemdat._orig_path'] = old
spec.loader.exec_module(old)

failures = []
stats = {'path': 0, 'none': 0, 'exc': 0}


def bits(x):
    return struct.pack('<d', float(x))


def same_scalar(a, b):
    return type(a) is type(b) and bits(a) == bits(b)


def same_key(a, b):
    return a == b and [type(i) for i in a] == [type(i) for i in b]


def call(f, *a, **k):
    try:
        return ('ok', f(*a, **k))
    except Exception as e:  # noqa: BLE001
        return ('exc', type(e).__name__, str(e))


def same_pathway(a, b, lattice):
    if a is None or b is None:
        return a is None and b is None
    if a.sites != b.sites or a.dims != b.dims or type(a.dims) is not type(b.dims):
        return False
    if len(a.energy) != len(b.energy):
        return False
    if not all(same_key(x, y) for x, y in zip(a.sites, b.sites)):
        return False
    if not all(same_scalar(x, y) for x, y in zip(a.energy, b.energy)):
        return False
    if a.wrapped_sites() != b.wrapped_sites():
        return False
    fa, fb = a.frac_sites(), b.frac_sites()
    if fa.shape != fb.shape or fa.tobytes() != fb.tobytes():
        return False
    if len(a.sites) > 1 and len(set(a.wrapped_sites())) == len(a.sites):
        if bits(a.total_length(lattice)) != bits(b.total_length(lattice)):
            return False
    return repr(a) == repr(b) and bits(a.total_energy) == bits(b.total_energy)


LATTICES = [
    Lattice.cubic(5.0),
    Lattice.from_parameters(4.0, 5.5, 7.1, 90, 90, 90),
    Lattice.from_parameters(4.0, 5.5, 7.1, 72, 95, 110),
    Lattice([[3.1, 0.4, -0.2], [0.9, 4.2, 0.3], [-0.5, 0.8, 5.0]]),
    Lattice.hexagonal(4.2, 6.6),
    Lattice([[0.0, 4.0, 0.0], [0.0, 0.0, 5.0], [6.0, 0.0, 0.0]]),  # rotated axes
]
PERCOLATE = ['x', 'y', 'z', 'xy', 'yz', 'zx', 'xyz', 'zyx', '', 'q', 'xx', 'X', ['x', 'z'], ('y',), {'z'}]

rng = np.random.default_rng(310)
n_cases = 0
for case in range(40):
    shape = tuple(int(i) for i in rng.integers(1, 6, size=3))
    if case % 8 == 0:
        shape = tuple(int(i) for i in rng.permutation([1, 2, 4]))
    data = rng.random(shape) * [2.0, 15.0, 40.0, 1.0][case % 4]
    flat = data.reshape(-1)
    for val in (-1.0, np.nan, 1e9, np.inf, 0.0):
        if flat.size > 3 and rng.random() < 0.5:
            flat[rng.integers(flat.size)] = val
    if case % 5 == 1:
        data[...] = 0.75  # all candidates equally cheap: the first peak must win
    if case % 5 == 2 and shape[0] > 1:
        data[0, :, :] = -1.0  # wall across x: nothing percolates along x
    if case % 5 == 3 and shape[2] > 2:
        data[:, :, 1] = 2e7  # wall above the internal threshold across z
    lattice = LATTICES[case % len(LATTICES)]
    vol = FreeEnergyVolume(data=data, lattice=lattice)
    tag = f'case{case} shape={shape}'

    ok = np.argwhere((data >= 0) & (data < 1e7))
    everything = np.argwhere(np.ones(shape, dtype=bool))
    peak_sets = []
    if len(ok):
        peak_sets.append(ok[rng.permutation(len(ok))[: int(rng.integers(1, 5))]])
        peak_sets.append([tuple(int(i) for i in ok[int(rng.integers(len(ok)))])])  # list of tuples
        peak_sets.append(np.repeat(ok[:1], 2, axis=0))  # duplicated peak
    peak_sets.append(np.empty((0, 3), dtype=int))  # no peaks at all
    peak_sets.append([])
    if case % 3 == 0:
        peak_sets.append(everything[rng.permutation(len(everything))[:3]])  # may hit inadmissible voxels
    if case % 6 == 0:
        peak_sets.append(np.array([[50, 50, 50]]))  # outside the grid -> NodeNotFound

    percs = [PERCOLATE[i] for i in rng.permutation(len(PERCOLATE))[:6]] + ['x', 'xyz']
    for peaks in peak_sets:
        for perc in percs:
            with np.errstate(all='ignore'):
                po = call(old.optimal_percolating_path, vol, peaks=peaks, percolate=perc)
                pn = call(new.optimal_percolating_path, vol, peaks=peaks, percolate=perc)
            if po[0] != pn[0]:
                failures.append(f'{tag} perc={perc!r}: outcome {po} vs {pn}')
            elif po[0] == 'exc':
                if po != pn:
                    failures.append(f'{tag} perc={perc!r}: exceptions {po} vs {pn}')
            elif not same_pathway(po[1], pn[1], lattice):
                failures.append(f'{tag} perc={perc!r}: paths differ')
            n_cases += 1
            stats['exc' if po[0] == 'exc' else ('none' if po[1] is None else 'path')] += 1
    # the Volume wrapper delegates to the refactored function
    if len(ok):
        with np.errstate(all='ignore'):
            po = call(old.optimal_percolating_path, vol, peaks=peak_sets[0], percolate='xyz')
            pn = call(vol.optimal_percolating_path, peaks=peak_sets[0], percolate='xyz')
        if po[0] != pn[0] or (po[0] == 'ok' and not same_pathway(po[1], pn[1], lattice)):
            failures.append(f'{tag}: Volume.optimal_percolating_path')

# inputs that are not a 3-D grid fail the same way
for data in (np.ones((3, 4)), np.ones((2, 2, 2, 2))):
    vol = FreeEnergyVolume(data=data, lattice=LATTICES[0])
    for perc in ('x', 'yz'):
        po = call(old.optimal_percolating_path, vol, peaks=[(0, 0, 0)], percolate=perc)
        pn = call(new.optimal_percolating_path, vol, peaks=[(0, 0, 0)], percolate=perc)
        if po[:2] != pn[:2] or po[0] == 'ok':
            failures.append(f'non-3D grid {data.shape} {perc}: {po} vs {pn}')
        elif po != pn:
            failures.append(f'non-3D grid message {data.shape} {perc}: {po} vs {pn}')

print(f'calls={n_cases} outcomes={stats} failures={len(failures)}')
for f in failures[:20]:
    print('  DIFF', f)
sys.exit(1 if failures else 0)
