"""Differential test for refactoring 2 (gemdat.path.free_energy_graph).

Runs the same randomised driver in two subprocesses -- against the ORIGINAL code
(PYTHONPATH=/repo/src) and against the refactored worktree -- and compares the
graphs (node order, node key types, energies, adjacency order, edge attributes
and their types) as well as shortest paths computed on them.
"""
import os
import pickle
import subprocess
import sys
import tempfile

ORIG = '/repo/src'
NEW = '/tmp/wtu_C09/src'


def worker(out_path):
    import warnings

    import networkx as nx
    import numpy as np
    from pymatgen.core import Lattice

    import gemdat
    from gemdat.path import free_energy_graph, optimal_path
    from gemdat.volume import Volume

    assert gemdat.__file__.startswith(os.environ['EXPECT_ROOT']), gemdat.__file__
    warnings.simplefilter('ignore')
    rng = np.random.default_rng(90902)

    def num(x):
        return (type(x).__name__, float(x).hex())

    def key(n):
        return (tuple(int(i) for i in n), tuple(type(i).__name__ for i in n))

    def dump_graph(G):
        nodes = [(key(n), num(d['energy']), sorted(d)) for n, d in G.nodes(data=True)]
        adj = []
        for u, nbrs in G.adjacency():
            for v, d in nbrs.items():
                adj.append((key(u), key(v), num(d['weight']), num(d['weight_exp']), sorted(d)))
        edges = [(key(u), key(v)) for u, v in G.edges]
        return {'nodes': nodes, 'adj': adj, 'edges': edges, 'type': type(G).__name__}

    def rot(rng):
        q, _ = np.linalg.qr(rng.normal(size=(3, 3)))
        return q

    results = []
    thresholds = [1e7, 1e20, 5.0, 10, 2.5, 1e7]
    for case in range(36):
        shape = tuple(int(i) for i in rng.integers(1, 5, 3))
        kind = case % 6
        if kind == 0:  # genuine free energy of a sparse density on a triclinic, rotated cell
            lat = Lattice(Lattice.from_parameters(3.1, 4.2, 5.3, 80, 97, 112).matrix @ rot(rng))
            dens = rng.poisson(0.8, shape)
            F = Volume(data=dens, lattice=lat).get_free_energy(temperature=float(rng.uniform(200, 900)))
        elif kind == 1:  # plain arrays with negative, nan and huge entries
            F = rng.uniform(-1, 8, shape)
            F[rng.random(shape) < 0.15] = np.nan
            F[rng.random(shape) < 0.15] = np.finfo(float).max
            F[rng.random(shape) < 0.1] = np.inf
        elif kind == 2:  # energies large enough for exp() to hit the cap / overflow
            F = rng.uniform(0, 1500, shape)
        elif kind == 3:  # integer energies, some exactly zero / at the threshold
            F = rng.integers(-2, 12, shape)
        elif kind == 4:  # FreeEnergyVolume of a dense float density, cubic cell
            dens = rng.random(shape) + 0.01
            F = Volume(data=dens, lattice=Lattice.cubic(4.0)).get_free_energy(temperature=300)
        else:  # nothing accessible
            F = np.full(shape, -1.0) if case % 2 else np.full(shape, np.finfo(float).max)
        thr = thresholds[case % len(thresholds)]
        diagonal = bool(case % 2) if case % 4 else True
        if case % 5 == 0:
            G = free_energy_graph(F, thr)  # positional, default diagonal
        else:
            G = free_energy_graph(F, max_energy_threshold=thr, diagonal=diagonal)
        rec = dump_graph(G)
        rec['case'] = (case, kind, shape, thr, diagonal)

        # shortest paths depend on the adjacency insertion order for tie breaking
        paths = []
        nodes = list(G.nodes)
        if len(nodes) >= 2:
            for method in ('dijkstra', 'dijkstra-exp', 'simple', 'bellman-ford'):
                for _ in range(2):
                    a, b = (nodes[int(i)] for i in rng.integers(0, len(nodes), 2))
                    try:
                        p = optimal_path(G, start=a, stop=b, method=method)
                        paths.append((method, [key(s) for s in p.sites], [num(e) for e in p.energy]))
                    except nx.NetworkXNoPath:
                        paths.append((method, 'nopath'))
        else:
            rng.integers(0, 2, 16)
        rec['paths'] = paths
        results.append(rec)

    # the method on FreeEnergyVolume forwards to the same function
    for case in range(6):
        shape = tuple(int(i) for i in rng.integers(2, 5, 3))
        lat = Lattice.from_parameters(4, 5, 6, 70, 100, 95)
        fv = Volume(data=rng.poisson(1.5, shape), lattice=lat).get_free_energy(temperature=500.0)
        rec = dump_graph(fv.free_energy_graph(max_energy_threshold=1e7, diagonal=bool(case % 2)))
        rec['case'] = ('method', case, shape)
        rec['unvisited_excluded'] = all(
            fv.data[k[0]] < 1e7 for k, _, _ in rec['nodes']
        )
        results.append(rec)

    with open(out_path, 'wb') as fh:
        pickle.dump(results, fh)


def run(root, out_path):
    env = dict(os.environ, PYTHONPATH=root, EXPECT_ROOT=root)
    subprocess.run([sys.executable, os.path.abspath(__file__), '--worker', out_path], env=env, check=True)
    with open(out_path, 'rb') as fh:
        return pickle.load(fh)


def main():
    with tempfile.TemporaryDirectory() as td:
        a = run(ORIG, os.path.join(td, 'orig.pkl'))
        b = run(NEW, os.path.join(td, 'new.pkl'))
    bad = 0
    if len(a) != len(b):
        print('different number of results', len(a), len(b))
        bad += 1
    n_nodes = n_edges = 0
    for ra, rb in zip(a, b):
        n_nodes += len(ra['nodes'])
        n_edges += len(ra['edges'])
        if ra != rb:
            bad += 1
            print('MISMATCH', ra['case'], [k for k in ra if ra[k] != rb.get(k)])
    print(f'compared {len(a)} graphs ({n_nodes} nodes, {n_edges} edges), mismatches={bad}')
    return 1 if bad else 0


if __name__ == '__main__':
    if len(sys.argv) > 2 and sys.argv[1] == '--worker':
        worker(sys.argv[2])
    else:
        sys.exit(main())
