"""Differential test for property C12 (collective jumps).

Loads the ORIGINAL gemdat/collective.py from /repo/src (read-only) under a
different module name and compares it with the refactored implementation of the
worktree (/tmp/wtu_C12/src) on randomised inputs.  Exits non-zero on any
difference.
"""

from __future__ import annotations

import importlib.util
import sys
import warnings
from types import SimpleNamespace

WORKTREE_SRC = '/tmp/wtu_C12/src'
ORIG_FILE = '/repo/src/gemdat/collective.py'

sys.path.insert(0, WORKTREE_SRC)
warnings.filterwarnings('ignore')

import numpy as np  # noqa: E402
import pandas as pd  # noqa: E402
from pymatgen.core import Element, Lattice, Structure  # noqa: E402

import gemdat  # noqa: E402
from gemdat import collective as new_mod  # noqa: E402

assert new_mod.__file__.startswith(WORKTREE_SRC), new_mod.__file__

# the relative import `.caching` resolves to the (untouched) worktree module
_spec = importlib.util.spec_from_file_location('gemdat._collective_orig', ORIG_FILE)
old_mod = importlib.util.module_from_spec(_spec)
sys.modules[_spec.name] = old_mod
_spec.loader.exec_module(old_mod)
assert old_mod.__file__ == ORIG_FILE

COLUMNS = ['atom index', 'start site', 'destination site', 'start time', 'stop time']


# --------------------------------------------------------------------------
# input generators
# --------------------------------------------------------------------------
def random_lattice(rng, kind):
    if kind == 'cubic':
        return Lattice.cubic(rng.uniform(4, 9))
    if kind == 'ortho':
        return Lattice.orthorhombic(*rng.uniform(3, 10, 3))
    if kind == 'triclinic':
        return Lattice.from_parameters(
            rng.uniform(4, 9), rng.uniform(4, 9), rng.uniform(4, 9),
            rng.uniform(70, 110), rng.uniform(70, 110), rng.uniform(70, 110),
        )
    if kind == 'hex':
        return Lattice.hexagonal(rng.uniform(3, 6), rng.uniform(5, 11))
    # rotated (general, non upper/lower triangular) cell
    while True:
        m = rng.normal(size=(3, 3)) * 4
        if abs(np.linalg.det(m)) > 30:
            return Lattice(m)


def random_sites(rng, lattice, n_sites):
    mode = rng.integers(0, 4)
    if mode == 0:
        frac = rng.uniform(0, 1, (n_sites, 3))
    elif mode == 1:
        # sites hugging the cell faces -> minimum image matters
        frac = rng.choice([0.01, 0.02, 0.98, 0.99, 0.5], size=(n_sites, 3))
        frac = frac + rng.normal(scale=0.01, size=frac.shape)
    elif mode == 2:
        # coordinates outside [0, 1)
        frac = rng.uniform(-1.5, 2.5, (n_sites, 3))
    else:
        # grid -> many exactly equal distances
        frac = rng.integers(0, 4, (n_sites, 3)) / 4.0
    labels = [str(rng.choice(['A', 'B', 'C'])) for _ in range(n_sites)]
    return Structure(
        lattice, ['Li'] * n_sites, frac, labels=labels, to_unit_cell=False, coords_are_cartesian=False
    )


def random_events(rng, n_events, n_atoms, n_sites, t_max, allow_minus_one):
    atom = rng.integers(0, n_atoms, n_events)
    start_site = rng.integers(0, n_sites, n_events)
    dest_site = rng.integers(0, n_sites, n_events)
    if allow_minus_one and n_events:
        k = rng.integers(0, n_events)
        dest_site[k] = -1  # 'no site' marker: numpy negative index, as in the original
    start_time = rng.integers(0, t_max, n_events)
    stop_time = start_time + rng.integers(1, 8, n_events)
    df = pd.DataFrame(
        {
            'atom index': atom,
            'start site': start_site,
            'destination site': dest_site,
            'start time': start_time,
            'stop time': stop_time,
        },
        columns=COLUMNS,
    )
    return df


def synthetic_case(rng, case):
    kind = ['cubic', 'ortho', 'triclinic', 'hex', 'rotated'][case % 5]
    lattice = random_lattice(rng, kind)
    n_sites = int(rng.integers(2, 12))
    sites = random_sites(rng, lattice, n_sites)

    if case in (0, 1):
        n_events = case  # empty frame and a single jump
    else:
        n_events = int(rng.integers(2, 45))
    n_atoms = int(rng.integers(1, 7))
    t_max = int(rng.choice([5, 60, 400, 3000]))
    df = random_events(rng, n_events, n_atoms, n_sites, t_max, allow_minus_one=(case % 7 == 3))

    if case % 6 == 2:
        # non-default, shuffled index
        df = df.sample(frac=1.0, random_state=int(rng.integers(0, 2**31))).copy()
    if case % 9 == 4:
        # extra column, different column order
        df['extra'] = rng.integers(0, 5, len(df))
        df = df[['extra'] + COLUMNS[::-1]]
    if case % 11 == 5 and len(df):
        df = df.astype({'start time': float, 'stop time': float})

    max_steps = int(rng.choice([0, 1, 3, 10, 60, 1000]))
    if case % 8 == 6 and len(df):
        # unusual frames: jumps that 'stop' before they start and a negative
        # window, so that BOTH time conditions of the pair test are live
        df['start time'] = rng.integers(0, 25, len(df))
        df['stop time'] = df['start time'] + rng.integers(-12, 5, len(df))
        df['atom index'] = np.arange(len(df)) % 5
        max_steps = int(rng.choice([-3, 0, 2, 6]))

    full = lattice.get_all_distances(sites.frac_coords, sites.frac_coords)
    choice = case % 4
    if choice == 0:
        off = full[~np.eye(n_sites, dtype=bool)]
        max_dist = float(np.quantile(off, rng.uniform(0.05, 0.5)))
    elif choice == 1:
        # cut-off exactly ON an occurring distance (strict '<' boundary)
        off = full[~np.eye(n_sites, dtype=bool)]
        max_dist = float(rng.choice(off))
    elif choice == 2:
        max_dist = float(np.nextafter(rng.choice(full[full > 0]), np.inf))
    else:
        max_dist = float(rng.choice([0.0, 1.0, 100.0]))
    return SimpleNamespace(data=df), sites, lattice, max_steps, max_dist


def end_to_end_case(rng, case):
    """Real Trajectory -> Transitions -> Jumps built with the worktree code."""
    kind = ['cubic', 'triclinic', 'rotated', 'hex'][case % 4]
    lattice = random_lattice(rng, kind)
    n_sites = 6
    while True:
        frac_sites = rng.uniform(0, 1, (n_sites, 3))
        frac_sites[0] = [0.02, 0.98, 0.5]  # next to cell faces
        d = lattice.get_all_distances(frac_sites, frac_sites) + np.eye(n_sites) * 99
        if d.min() > 1.6:
            break
    sites = Structure(lattice, ['Li'] * n_sites, frac_sites, labels=list('ABABCC'))

    n_steps, n_li = 160, 3
    occupancy = np.zeros((n_steps, n_li), dtype=int)
    current = rng.permutation(n_sites)[:n_li]
    for t in range(n_steps):
        for a in range(n_li):
            if rng.random() < 0.12:
                current[a] = rng.integers(0, n_sites)
        occupancy[t] = current
    coords = frac_sites[occupancy] + rng.normal(scale=0.004, size=(n_steps, n_li, 3))
    # a 'no site' stretch for atom 0 and an un-wrapped (cell crossing) atom 1
    coords[40:46, 0] += np.array([0.21, 0.17, 0.13])
    coords[:, 1] += np.array([1.0, -1.0, 0.0])
    frame_coords = np.concatenate([coords, np.zeros((n_steps, 1, 3)) + 0.37], axis=1)
    frame_coords[:, -1] += rng.normal(scale=0.002, size=(n_steps, 3))

    trajectory = gemdat.Trajectory(
        species=[Element('Li')] * n_li + [Element('O')],
        coords=frame_coords,
        lattice=lattice,
        time_step=1e-15,
        metadata={'temperature': 300},
    )
    transitions = gemdat.Transitions.from_trajectory(
        trajectory=trajectory, sites=sites, floating_specie='Li', site_radius=0.5
    )
    try:
        jumps = transitions.jumps(minimal_residence=int(case % 3))
    except ValueError:
        return None
    max_steps = int(rng.choice([2, 8, 40]))
    max_dist = float(rng.choice([1.0, 2.5, 4.0]))
    return jumps, transitions.sites, trajectory.get_lattice(), max_steps, max_dist


# --------------------------------------------------------------------------
# comparison
# --------------------------------------------------------------------------
def same_series(a, b):
    return (
        type(a) is type(b)
        and a.name == b.name
        and a.dtype == b.dtype
        and list(a.index) == list(b.index)
        and a.equals(b)
    )


def call(fn):
    try:
        return ('ok', fn())
    except Exception as exc:  # noqa: BLE001
        return ('err', type(exc).__name__, str(exc))


def oracle_pairs(df, sites, lattice, max_steps, max_dist):
    """Direct statement of C12 on the sorted frame (set of unordered pairs)."""
    ev = df.sort_values(['stop time', 'start time'], ignore_index=True)
    frac = sites.frac_coords
    out = []
    for i in range(len(ev)):
        for j in range(i + 1, len(ev)):
            a, b = ev.iloc[i], ev.iloc[j]
            if a['atom index'] == b['atom index']:
                continue
            if b['start time'] - a['stop time'] > max_steps or a['start time'] - b['stop time'] > max_steps:
                continue
            d = lattice.get_all_distances(
                frac[[int(a['start site']), int(a['destination site'])]],
                frac[[int(b['start site']), int(b['destination site'])]],
            )
            if (d < max_dist).any():
                out.append((i, j))
    return out


def compare(label, args):
    jumps, sites, lattice, max_steps, max_dist = args
    res_old = call(lambda: old_mod.Collective(jumps, sites, lattice, max_steps, max_dist))
    res_new = call(lambda: new_mod.Collective(jumps, sites, lattice, max_steps, max_dist))
    if res_old[0] != res_new[0]:
        return [f'{label}: constructor outcome differs {res_old} vs {res_new}']
    if res_old[0] == 'err':
        return [] if res_old[1] == res_new[1] else [f'{label}: exception type differs']
    old, new = res_old[1], res_new[1]
    errs = []

    for attr in ('n_solo_jumps', 'n_coll_jumps'):
        vo, vn = getattr(old, attr), getattr(new, attr)
        if type(vo) is not type(vn) or vo != vn:
            errs.append(f'{label}: {attr} {vo!r} ({type(vo)}) != {vn!r} ({type(vn)})')
    if new.n_solo_jumps + new.n_coll_jumps != len(jumps.data):
        errs.append(f'{label}: solo + collective != total')

    if old.coll_jumps != new.coll_jumps:
        errs.append(f'{label}: coll_jumps differ')
    else:
        for po, pn in zip(old.coll_jumps, new.coll_jumps):
            flat_o = [type(x) for t in po for x in t] + [type(po), type(po[0])]
            flat_n = [type(x) for t in pn for x in t] + [type(pn), type(pn[0])]
            if flat_o != flat_n:
                errs.append(f'{label}: coll_jumps element types differ')
                break

    if len(old.collective) != len(new.collective):
        errs.append(f'{label}: len(collective) {len(old.collective)} != {len(new.collective)}')
    else:
        for k, (po, pn) in enumerate(zip(old.collective, new.collective)):
            if type(po) is not type(pn) or len(po) != len(pn):
                errs.append(f'{label}: collective[{k}] container differs')
                break
            if not (same_series(po[0], pn[0]) and same_series(po[1], pn[1])):
                errs.append(f'{label}: collective[{k}] differs')
                break

    # the reported pairs are exactly the pairs of the property
    got = [(int(a.name), int(b.name)) for a, b in new.collective]
    want = oracle_pairs(jumps.data, sites, lattice, max_steps, max_dist)
    if got != want:
        errs.append(f'{label}: pairs differ from the direct statement of C12')
    if len(set(map(frozenset, got))) != len(got):
        errs.append(f'{label}: an unordered pair is reported twice')

    lo, ln = old.site_pair_count_matrix_labels(), new.site_pair_count_matrix_labels()
    if lo != ln:
        errs.append(f'{label}: site_pair_count_matrix_labels differ')
    mo, mn = call(old.site_pair_count_matrix), call(new.site_pair_count_matrix)
    if mo[0] != mn[0] or (mo[0] == 'err' and mo[1] != mn[1]):
        errs.append(f'{label}: site_pair_count_matrix outcome differs: {mo} {mn}')
    elif mo[0] == 'ok':
        if mo[1].dtype != mn[1].dtype or mo[1].shape != mn[1].shape or not np.array_equal(mo[1], mn[1]):
            errs.append(f'{label}: site_pair_count_matrix differs')
        if mn[1].sum() != len(new.collective):
            errs.append(f'{label}: site_pair_count_matrix total != number of pairs')

    uo, un = call(old.multiple_collective), call(new.multiple_collective)
    if uo[0] != un[0] or (uo[0] == 'err' and uo[1] != un[1]):
        errs.append(f'{label}: multiple_collective outcome differs: {uo} {un}')
    elif uo[0] == 'ok':
        (jo, co), (jn, cn) = uo[1], un[1]
        if jo.dtype != jn.dtype or jo.shape != jn.shape or not np.array_equal(jo, jn):
            errs.append(f'{label}: multiple_collective jumps differ')
        if co.dtype != cn.dtype or not np.array_equal(co, cn):
            errs.append(f'{label}: multiple_collective counts differ')
    return errs


def count_pairs(args):
    res = call(lambda: new_mod.Collective(*args))
    return len(res[1].collective) if res[0] == 'ok' else 0


def main():
    rng = np.random.default_rng(20261001)
    errors = []
    n_cases = 0
    n_pairs = 0
    for case in range(70):
        args = synthetic_case(rng, case)
        errors += compare(f'synthetic[{case}]', args)
        n_cases += 1
        n_pairs += count_pairs(args)
    for case in range(6):
        args = end_to_end_case(rng, case)
        if args is None:
            continue
        errors += compare(f'end_to_end[{case}]', args)
        n_cases += 1
        n_pairs += count_pairs(args)

    print(f'cases={n_cases} collective pairs seen={n_pairs} differences={len(errors)}')
    for e in errors[:20]:
        print('  DIFF', e)
    if n_cases < 20 or n_pairs == 0:
        print('test did not exercise the code')
        return 2
    return 1 if errors else 0


if __name__ == '__main__':
    sys.exit(main())
