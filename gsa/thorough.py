"""Thorough tier: (1) conformance of the library stubs with the installed third-party sources (parsed, never imported),
(2) self-validation of the property's rules on the in-memory corpus: catalogue mutants and confirmed seeded changes must be
reported, benign twins must stay silent.  A failure here means the CHECKER is broken: exit 2, never a VIOLATION."""

from __future__ import annotations

import ast
import glob
import json
import os
import re
import shutil
import subprocess
import tempfile
from concurrent.futures import ProcessPoolExecutor

from .source import AnalysisError, norm_text

SITE = '/venv/lib/python3.12/site-packages'
VERIF = os.path.dirname(os.path.dirname(os.path.abspath(__file__)))


# ------------------------------------------------------------------------------------------------ stub conformance
def _func(tree, cls, name):
    for n in ast.walk(tree):
        if isinstance(n, ast.ClassDef) and n.name == cls:
            for s in n.body:
                if isinstance(s, ast.FunctionDef) and s.name == name:
                    return s
    return None


def stub_conformance():
    """Facts the model assumes about pymatgen / MDAnalysis, checked on the installed source text. Returns list of (fact, ok)."""
    facts = []
    p = os.path.join(SITE, 'pymatgen/core/trajectory.py')
    if not os.path.exists(p):
        raise AnalysisError('installed pymatgen source not found: stub conformance cannot be checked')
    tree = ast.parse(open(p).read())
    f = _func(tree, 'Trajectory', 'to_positions')
    txt = norm_text(f) if f else ''
    facts.append(('pymatgen Trajectory.to_positions returns early unless coords_are_displacement',
                  bool(f) and 'if not self.coords_are_displacement' in txt and 'return' in txt))
    facts.append(('to_positions rebinds self.coords to base_positions + cumsum(coords, axis=0) and clears the flag',
                  'np.cumsum(self.coords, axis=0)' in txt and 'self.base_positions + cumulative_displacements' in txt
                  and 'self.coords = positions' in txt and 'self.coords_are_displacement = False' in txt))
    facts.append(('to_positions never writes into an array in place',
                  bool(f) and not any(isinstance(n, ast.Subscript) and isinstance(n.ctx, ast.Store) for n in ast.walk(f))
                  and not any(isinstance(n, ast.AugAssign) for n in ast.walk(f))))
    f = _func(tree, 'Trajectory', 'to_displacements')
    txt = norm_text(f) if f else ''
    facts.append(('to_displacements subtracts the previous frame (np.roll by 1 along axis 0) and reduces with np.around',
                  'np.roll(self.coords, 1, axis=0)' in txt and 'np.around(displacements)' in txt and 'self.coords = displacements' in txt
                  and 'self.coords_are_displacement = True' in txt))
    facts.append(('to_displacements writes only into its own fresh difference array',
                  bool(f) and all(norm_text(n.value) == 'displacements' for n in ast.walk(f)
                                  if isinstance(n, ast.Subscript) and isinstance(n.ctx, ast.Store))))
    f = _func(tree, 'Trajectory', '__getitem__')
    txt = norm_text(f) if f else ''
    facts.append(('Trajectory.__getitem__ converts to positions first and builds a new object of type(self) from coords[selected]',
                  'self.to_positions()' in txt and 'coords = self.coords[selected]' in txt and 'type(self)(' in txt))
    f = _func(tree, 'Trajectory', '__init__')
    args = [a.arg for a in (f.args.args + f.args.kwonlyargs)] if f else []
    facts.append(('Trajectory.__init__ takes species, coords, lattice, time_step, constant_lattice, coords_are_displacement, base_positions',
                  all(a in args for a in ('species', 'coords', 'lattice', 'time_step', 'constant_lattice', 'coords_are_displacement', 'base_positions'))))
    p = os.path.join(SITE, 'pymatgen/core/lattice.py')
    tree = ast.parse(open(p).read())
    f = _func(tree, 'Lattice', 'get_cartesian_coords')
    facts.append(('Lattice.get_cartesian_coords(f) = dot(f, matrix) (rows of matrix are the lattice vectors)',
                  bool(f) and 'np.dot(fractional_coords, self._matrix)' in norm_text(f)))
    f = _func(tree, 'Lattice', 'metric_tensor')
    facts.append(('Lattice.metric_tensor = M M^T', bool(f) and 'np.dot(self._matrix, self._matrix.T)' in norm_text(f)))
    f = _func(tree, 'Lattice', 'get_all_distances')
    facts.append(('Lattice.get_all_distances uses pbc_shortest_vectors (true minimum image)', bool(f) and 'pbc_shortest_vectors' in norm_text(f)))
    p = os.path.join(SITE, 'MDAnalysis/lib/pkdtree.py')
    if os.path.exists(p):
        tree = ast.parse(open(p).read())
        f = _func(tree, 'PeriodicKDTree', '__init__')
        facts.append(('PeriodicKDTree(box=...) takes the cell as box parameters', bool(f) and 'box' in [a.arg for a in f.args.args]))
        f = _func(tree, 'PeriodicKDTree', 'search_tree')
        facts.append(('PeriodicKDTree.search_tree(centers, radius) returns index pairs (centre, tree point)',
                      bool(f) and [a.arg for a in f.args.args][1:3] == ['centers', 'radius']))
        f = _func(tree, 'PeriodicKDTree', 'set_coords')
        txt = norm_text(f) if f else ''
        facts.append(('PeriodicKDTree.set_coords wraps and augments the coordinates with the box parameters alone (apply_PBC / '
                      'augment_coordinates): the coordinates are interpreted in the frame those parameters define',
                      'apply_PBC(coords, self.box)' in txt and 'augment_coordinates(' in txt))
    else:
        facts.append(('MDAnalysis pkdtree source present', False))
    return facts


# ------------------------------------------------------------------------------------------------ corpus
def patched_sources(patch_file, root='/repo'):
    txt = open(patch_file).read()
    files = sorted(set(re.findall(r'^\+\+\+ b/(\S+)', txt, flags=re.M)))
    td = tempfile.mkdtemp(prefix='gsa_', dir='/dev/shm' if os.path.isdir('/dev/shm') else None)
    try:
        for f in files:
            os.makedirs(os.path.dirname(os.path.join(td, f)), exist_ok=True)
            if os.path.exists(os.path.join(root, f)):
                shutil.copy(os.path.join(root, f), os.path.join(td, f))
        r = subprocess.run(['patch', '-p1', '-s', '-f', '-i', os.path.abspath(patch_file)], cwd=td, capture_output=True, text=True)
        if r.returncode != 0:
            return None
        return {f: open(os.path.join(td, f)).read() for f in files if f.endswith('.py') and f.startswith('src/gemdat')}
    finally:
        shutil.rmtree(td, ignore_errors=True)


def _run(job):
    kind, cid, prop, overrides, root = job
    from .driver import run_property
    code, lines, ctx = run_property(prop, 'quick', root, overrides=overrides, write=False)
    return kind, cid, code


def corpus_jobs(prop, root='/repo'):
    from .corpus.mutants import M
    from .corpus.twins import T
    jobs, na = [], []
    for ent in M:
        mid, p, rule, file, old, new = ent[:6]
        occ = ent[6] if len(ent) > 6 else 0
        if p != prop:
            continue
        rel = f'src/gemdat/{file}'
        src = open(os.path.join(root, rel)).read()
        if old not in src:
            na.append(mid)
            continue
        parts = src.split(old)
        jobs.append(('mutant', mid, prop, {rel: old.join(parts[:occ + 1]) + new + old.join(parts[occ + 1:])}, root))
    for tid, file, old, new, props in T:
        if prop not in props:
            continue
        rel = f'src/gemdat/{file}'
        src = open(os.path.join(root, rel)).read()
        pairs = old if isinstance(old, list) else [(old, new)]
        if any(src.count(o) != 1 for o, n in pairs):
            na.append(tid)
            continue
        for o, n in pairs:
            src = src.replace(o, n)
        jobs.append(('twin', tid, prop, {rel: src}, root))
    res_file = os.path.join(VERIF, 'seeded', 'RESULTS.json')
    table = json.load(open(res_file)) if os.path.exists(res_file) else {}
    for d in sorted(glob.glob(os.path.join(VERIF, 'seeded', '*', 'patch.diff'))):
        sid = os.path.basename(os.path.dirname(d))
        if prop not in table.get(sid, {}).get('caught_by', []):
            continue
        ov = patched_sources(d, root)
        if ov is None:
            na.append(sid)
            continue
        jobs.append(('seed', sid, prop, ov, root))
    # independently written behaviour-preserving refactorings: every one recorded as silent for this property must stay silent
    tw_file = os.path.join(VERIF, 'twins_indep', 'RESULTS.json')
    tw_table = json.load(open(tw_file)) if os.path.exists(tw_file) else None
    if tw_table is not None:
        for d in sorted(glob.glob(os.path.join(VERIF, 'twins_indep', '*', 'patch.diff'))):
            tid = os.path.basename(os.path.dirname(d))
            if tid not in tw_table or prop in tw_table[tid]:
                continue  # not evaluated, or recorded as undecided for this property (DESIGN section 12)
            ov = patched_sources(d, root)
            if ov is None:
                na.append(tid)
                continue
            jobs.append(('twin', tid, prop, ov, root))
    return jobs, na


def selftest(prop, root='/repo', workers=14):
    """Returns a dict for the evidence file; raises AnalysisError when the checker fails its own corpus."""
    jobs, na = corpus_jobs(prop, root)
    out = dict(mutants_killed=0, mutants_applicable=0, twins_silent=0, twins_total=0, seeds_caught=0, seeds_total=0, not_applicable=na,
               failures=[])
    if jobs:
        with ProcessPoolExecutor(max_workers=workers) as pool:
            for kind, cid, code in pool.map(_run, jobs):
                if kind == 'mutant':
                    out['mutants_applicable'] += 1
                    if code == 1:
                        out['mutants_killed'] += 1
                    else:
                        out['failures'].append(f'mutant {cid} not reported (exit {code})')
                elif kind == 'seed':
                    out['seeds_total'] += 1
                    if code == 1:
                        out['seeds_caught'] += 1
                    else:
                        out['failures'].append(f'seeded change {cid} not reported (exit {code})')
                else:
                    out['twins_total'] += 1
                    if code == 0:
                        out['twins_silent'] += 1
                    else:
                        out['failures'].append(f'benign twin {cid} not silent (exit {code})')
    return out
