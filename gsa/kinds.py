"""Kind algebra shared by the library model and the rules (DESIGN section 4.1).

geo facet values (tuples):
  ('FRAC', w)          fractional position; w: 'W' half-open [0,1), 'C' closed [0,1], 'N' not wrapped
  ('FDIFF', k)         fractional difference; k: 'MI' minimum image (pymatgen), 'CW' componentwise reduced to [-0.5, 0.5]
                       (rounding / two single-step corrections: minimum image only for vectors short against the cell),
                       'W2' difference of two wrapped
                       operands (components in (-1,1)), 'W1' one single-step image correction already
                       applied to a W2 difference, 'CUM' running sum of MI steps, 'ANY' anything else
  ('CART', frame, pv)  Cartesian Angstrom; frame 'LAT' (rows of lattice.matrix), 'MDA' (MDAnalysis box
                       convention a || x, b in xy), pv 'pos' | 'vec'
  ('CARTSQ', frame)    per-component squares of a Cartesian vector (sum over xyz is frame invariant)
  ('DIST',) ('DIST2',) length / squared length in Angstrom
  ('LATMAT', frame)    3x3 matrix whose rows are the lattice vectors
  ('METRIC',) ('BOX',) metric tensor; six cell parameters (orientation free)
  ('COV', geo)         vectors contracted once with the metric tensor
  ('SYMIMG',)          fractional image of a site under a symmetry operation (not wrapped)
"""

from __future__ import annotations

from fractions import Fraction


def is_frac(g):
    return g is not None and g[0] == 'FRAC'


def is_fdiff(g):
    return g is not None and g[0] == 'FDIFF'


def is_fractional(g):
    return g is not None and g[0] in ('FRAC', 'FDIFF')


def is_cart(g):
    return g is not None and g[0] == 'CART'


def wrapped(g):
    return is_frac(g) and g[1] in ('W', 'C')


# ---------------------------------------------------------------------------- monomials (U facet)
class Mono:
    """coef * prod(atom ** power), with homogeneity degree (dL, dT, dZ) and an SI unit vector.

    unit: dict dim -> Fraction power over {'m','ang','s','K','kg','A','mol','eV'}, plus key '10'
    for a power-of-ten scale (quantity = number * 10**scale * dims)."""

    __slots__ = ('coef', 'atoms', 'deg', 'unit', 'opaque')

    def __init__(self, coef=1.0, atoms=None, deg=(0, 0, 0), unit=None, opaque=False):
        self.coef = coef
        self.atoms = {k: Fraction(v) for k, v in (atoms or {}).items() if v != 0}
        self.deg = tuple(Fraction(d) for d in deg)
        self.unit = {k: Fraction(v) for k, v in (unit or {}).items() if v != 0}
        self.opaque = opaque

    @staticmethod
    def atom(name, deg=(0, 0, 0), unit=None):
        return Mono(1.0, {name: 1}, deg, unit)

    def _comb(self, other, sign):
        atoms = dict(self.atoms)
        for k, v in other.atoms.items():
            atoms[k] = atoms.get(k, 0) + sign * v
        unit = dict(self.unit)
        for k, v in other.unit.items():
            unit[k] = unit.get(k, 0) + sign * v
        deg = tuple(a + sign * b for a, b in zip(self.deg, other.deg))
        return atoms, deg, unit

    def __mul__(self, other):
        atoms, deg, unit = self._comb(other, 1)
        return Mono(self.coef * other.coef if None not in (self.coef, other.coef) else None, atoms, deg, unit,
                    self.opaque or other.opaque)

    def __truediv__(self, other):
        atoms, deg, unit = self._comb(other, -1)
        c = None
        if None not in (self.coef, other.coef) and other.coef != 0:
            c = self.coef / other.coef
        return Mono(c, atoms, deg, unit, self.opaque or other.opaque)

    def __pow__(self, p):
        p = Fraction(p).limit_denominator(64)
        c = None
        if self.coef is not None:
            try:
                c = float(self.coef) ** float(p)
                if isinstance(c, complex):
                    c = None
            except Exception:
                c = None
        return Mono(c, {k: v * p for k, v in self.atoms.items()}, tuple(d * p for d in self.deg),
                    {k: v * p for k, v in self.unit.items()}, self.opaque)

    def key(self):
        return tuple(sorted((k, str(v)) for k, v in self.atoms.items()))

    def same_atoms(self, other):
        return self.key() == other.key()

    def wrap(self, fn):
        """Opaque wrapper atom for a linear, degree-preserving reduction (mean, sum, diff, ...)."""
        inner = '*'.join(f'{k}^{v}' if v != 1 else k for k, v in sorted(self.atoms.items())) or '1'
        return Mono(self.coef, {f'{fn}({inner})': 1}, self.deg, self.unit, self.opaque)

    def text(self):
        parts = []
        if self.coef is None:
            parts.append('?')
        elif self.coef != 1:
            parts.append(f'{self.coef:.6g}')
        for k, v in sorted(self.atoms.items()):
            parts.append(k if v == 1 else f'{k}^{v}')
        return ' * '.join(parts) or '1'

    def __repr__(self):
        return f'Mono<{self.text()} deg={tuple(str(d) for d in self.deg)}>'

    def __eq__(self, other):
        return (isinstance(other, Mono) and self.coef == other.coef and self.atoms == other.atoms
                and self.deg == other.deg and self.unit == other.unit)

    def __hash__(self):
        return hash((self.coef, self.key()))


def num(c):
    return Mono(float(c))


def is_pow10(c):
    """Return k if c == 10**k for integer k != 0, else None."""
    import math
    if c is None or c <= 0:
        return None
    k = math.log10(c)
    if abs(k - round(k)) < 1e-12 and round(k) != 0:
        return int(round(k))
    return None


UNIT_LABELS = {
    # label token -> unit vector (dims) ; scale under key '10'
    'm': {'m': 1}, 's': {'s': 1}, 'ang': {'ang': 1}, 'hz': {'s': -1}, 'mol': {'mol': 1},
    'l': {'m': 3, '10': -3}, 'S': {'A': 2, 's': 3, 'kg': -1, 'm': -2}, 'eV': {'eV': 1}, 'K': {'K': 1},
    'J': {'kg': 1, 'm': 2, 's': -2}, 'C': {'A': 1, 's': 1},
}


def parse_unit_label(label):
    """'m^2 s^-1' -> unit vector, or None when a token is unknown."""
    out = {}
    for tok in label.split():
        base, _, p = tok.partition('^')
        if base not in UNIT_LABELS:
            return None
        try:
            pw = Fraction(p) if p else Fraction(1)
        except ValueError:
            return None
        for k, v in UNIT_LABELS[base].items():
            out[k] = out.get(k, 0) + Fraction(v) * pw
    return {k: v for k, v in out.items() if v != 0}
