"""The assembled library model (see model_*.py)."""

from __future__ import annotations

import ast

from .interp import AV, TOP, const, cval, has_const, join
from .kinds import Mono
from .model_base import ModelBase
from .model_libs import TRUSTED_BASE, LibsModel
from .model_npcalls import NpCalls
from .model_numpy import NumpyModel
from .model_pandas import PandasModel


class Model(LibsModel, PandasModel, NpCalls, NumpyModel, ModelBase):
    def binop(self, interp, st, op, l, r, node):
        out = super().binop(interp, st, op, l, r, node)
        # digitize(diff, [0.5, -0.5]) - 1  ->  offsets in {-1, 0, +1}: two-sided single-step image correction
        if l.imgcorr_raw is not None and isinstance(op, ast.Sub) and has_const(r) and cval(r) == 1:
            out = out.w(imgcorr=l.imgcorr_raw)
        return out

    def attr(self, interp, st, base, attr, node):
        if base.ty == 'ext':
            q = f'{base.qual}.{attr}'
            m = self.ext_constant(q)
            if m is not None:
                return AV(ty='float', mono=m, deps=frozenset({f'const:{attr}'}), gname=q)
            return AV(ty='ext', qual=q)
        return super().attr(interp, st, base, attr, node)


def make_interp(project):
    from .interp import Interp

    model = Model()
    it = Interp(project, model)
    # constants imported by name (from scipy.constants import angstrom)
    orig_qual_value = it.qual_value

    def qual_value(qual, st):
        m = model.ext_constant(qual)
        if m is not None:
            return AV(ty='float', mono=m, deps=frozenset({f'const:{qual.split(".")[-1]}'}), gname=qual)
        return orig_qual_value(qual, st)

    it.qual_value = qual_value
    return it


__all__ = ['Model', 'make_interp', 'TRUSTED_BASE']
