"""Layer 0: source model of /repo/src/gemdat (parsed with `ast`, never imported)."""

from __future__ import annotations

import ast
import hashlib
import os
from dataclasses import dataclass, field

PKG = 'gemdat'


class AnalysisError(Exception):
    """The analysis cannot decide (vanished anchor, unmodelled construct): exit code 2."""


@dataclass
class FunctionInfo:
    qualname: str
    name: str
    node: ast.AST
    module: 'ModuleInfo'
    cls: 'ClassInfo | None' = None
    parent: 'FunctionInfo | None' = None
    decorators: list = field(default_factory=list)  # resolved dotted names ('property', 'gemdat.caching.weak_lru_cache')

    @property
    def is_property(self):
        return 'property' in self.decorators

    @property
    def is_classmethod(self):
        return 'classmethod' in self.decorators

    @property
    def is_staticmethod(self):
        return 'staticmethod' in self.decorators

    @property
    def is_cached(self):
        return any(d.endswith('weak_lru_cache') for d in self.decorators)

    @property
    def is_generator(self):
        g = getattr(self, '_is_gen', None)
        if g is None:
            g = False
            stack = list(self.node.body)
            while stack:
                n = stack.pop()
                if isinstance(n, (ast.Yield, ast.YieldFrom)):
                    g = True
                    break
                if isinstance(n, (ast.FunctionDef, ast.AsyncFunctionDef, ast.Lambda, ast.ClassDef)):
                    continue
                stack.extend(ast.iter_child_nodes(n))
            try:
                object.__setattr__(self, '_is_gen', g)
            except Exception:
                pass
        return g

    @property
    def is_plot_backend(self):
        return any(d.endswith('plot_backend') for d in self.decorators)

    @property
    def file(self):
        return self.module.relpath

    def loc(self, node=None):
        n = node if node is not None else self.node
        return f'{self.module.relpath}:{getattr(n, "lineno", 0)}'

    def params(self):
        a = self.node.args
        return [x.arg for x in a.posonlyargs + a.args + a.kwonlyargs]

    def __repr__(self):
        return f'<fn {self.qualname}>'


@dataclass
class ClassInfo:
    qualname: str
    name: str
    node: ast.ClassDef
    module: 'ModuleInfo'
    bases: list = field(default_factory=list)  # resolved dotted names
    methods: dict = field(default_factory=dict)
    decorators: list = field(default_factory=list)
    class_attrs: dict = field(default_factory=dict)  # name -> value node
    fields: list = field(default_factory=list)  # dataclass fields: (name, annotation node, default node|None)

    @property
    def is_dataclass(self):
        # typing.NamedTuple classes get the same field-by-field constructor
        return any(d.split('.')[-1] == 'dataclass' for d in self.decorators) or self.is_namedtuple

    @property
    def is_namedtuple(self):
        return any(b.split('.')[-1] == 'NamedTuple' for b in self.bases)

    def __repr__(self):
        return f'<class {self.qualname}>'


@dataclass
class ModuleInfo:
    name: str
    path: str
    relpath: str
    source: str
    tree: ast.Module
    imports: dict = field(default_factory=dict)  # local name -> dotted qualified name
    functions: dict = field(default_factory=dict)
    classes: dict = field(default_factory=dict)
    assigns: dict = field(default_factory=dict)  # module-level NAME = value node

    def __repr__(self):
        return f'<module {self.name}>'


def _dotted(node):
    parts = []
    while isinstance(node, ast.Attribute):
        parts.append(node.attr)
        node = node.value
    if isinstance(node, ast.Name):
        parts.append(node.id)
        return '.'.join(reversed(parts))
    if isinstance(node, ast.Call):  # decorator factory: weak_lru_cache()
        return _dotted(node.func)
    return None


class Project:
    """All modules of the package, with import resolution and function/class tables."""

    def __init__(self, root='/repo', overrides=None):
        self.root = root
        self.src = os.path.join(root, 'src', PKG)
        self.overrides = overrides or {}
        self.modules: dict[str, ModuleInfo] = {}
        self.functions: dict[str, FunctionInfo] = {}
        self.classes: dict[str, ClassInfo] = {}
        self._load()

    # ------------------------------------------------------------------ loading
    def _load(self):
        if not os.path.isdir(self.src):
            raise AnalysisError(f'source directory {self.src} not found')
        for dirpath, dirnames, filenames in sorted(os.walk(self.src)):
            dirnames.sort()
            for fn in sorted(filenames):
                if not fn.endswith('.py'):
                    continue
                path = os.path.join(dirpath, fn)
                rel = os.path.relpath(path, self.root)
                if rel in self.overrides:
                    src = self.overrides[rel]
                else:
                    with open(path, encoding='utf-8') as f:
                        src = f.read()
                modname = self._modname(path)
                try:
                    tree = ast.parse(src, filename=rel)
                except SyntaxError as e:
                    raise AnalysisError(f'{rel} does not parse: {e}') from e
                self.modules[modname] = ModuleInfo(modname, path, rel, src, tree)
        for m in self.modules.values():
            self._index_module(m)

    def _modname(self, path):
        rel = os.path.relpath(path, os.path.join(self.root, 'src'))
        parts = rel[:-3].split(os.sep)
        if parts[-1] == '__init__':
            parts = parts[:-1]
        return '.'.join(parts)

    def digest(self):
        h = hashlib.sha256()
        for name in sorted(self.modules):
            h.update(name.encode())
            h.update(self.modules[name].source.encode())
        return h.hexdigest()[:16]

    def _index_module(self, m: ModuleInfo):
        is_pkg = m.path.endswith('__init__.py')

        def handle_import(stmt):
            if isinstance(stmt, ast.Import):
                for a in stmt.names:
                    m.imports[a.asname or a.name.split('.')[0]] = a.name if a.asname else a.name.split('.')[0]
            elif isinstance(stmt, ast.ImportFrom):
                base = self.resolve_from(m.name, is_pkg, stmt.module, stmt.level)
                for a in stmt.names:
                    m.imports[a.asname or a.name] = f'{base}.{a.name}' if base else a.name

        def scan(body):
            for stmt in body:
                if isinstance(stmt, (ast.Import, ast.ImportFrom)):
                    handle_import(stmt)
                elif isinstance(stmt, ast.If):  # TYPE_CHECKING blocks
                    scan(stmt.body)
                    scan(stmt.orelse)
                elif isinstance(stmt, ast.Try):
                    scan(stmt.body)
                elif isinstance(stmt, (ast.FunctionDef, ast.AsyncFunctionDef)):
                    self._index_function(m, stmt, None, None)
                elif isinstance(stmt, ast.ClassDef):
                    self._index_class(m, stmt)
                elif isinstance(stmt, ast.Assign):
                    for t in stmt.targets:
                        if isinstance(t, ast.Name):
                            m.assigns[t.id] = stmt.value
                elif isinstance(stmt, ast.AnnAssign) and isinstance(stmt.target, ast.Name) and stmt.value:
                    m.assigns[stmt.target.id] = stmt.value

        scan(m.tree.body)

    def resolve_from(self, modname, is_pkg, module, level):
        if level == 0:
            return module or ''
        parts = modname.split('.')
        if not is_pkg:
            parts = parts[:-1]
        if level > 1:
            parts = parts[: len(parts) - (level - 1)]
        if module:
            parts = parts + module.split('.')
        return '.'.join(parts)

    def _decorators(self, m, node):
        out = []
        for d in node.decorator_list:
            name = _dotted(d)
            if name is None:
                out.append('<expr>')
                continue
            head, _, rest = name.partition('.')
            q = m.imports.get(head)
            if q:
                name = q + ('.' + rest if rest else '')
            out.append(name)
        return out

    def _index_function(self, m, node, cls, parent):
        if cls is not None:
            qn = f'{cls.qualname}.{node.name}'
        elif parent is not None:
            qn = f'{parent.qualname}.<locals>.{node.name}'
        else:
            qn = f'{m.name}.{node.name}'
        fi = FunctionInfo(qn, node.name, node, m, cls, parent, self._decorators(m, node))
        if cls is not None and parent is None:
            cls.methods[node.name] = fi
        elif parent is None:
            m.functions[node.name] = fi
        self.functions[qn] = fi
        for sub in ast.walk(node):
            if sub is node:
                continue
        # nested defs (direct children of any block in this function, not deeper functions)
        for sub in self._nested_defs(node):
            self._index_function(m, sub, None, fi)
        return fi

    def _nested_defs(self, fnode):
        out = []

        def walk(body):
            for s in body:
                if isinstance(s, (ast.FunctionDef, ast.AsyncFunctionDef)):
                    out.append(s)
                    continue
                if isinstance(s, ast.ClassDef):
                    continue
                for fld in ('body', 'orelse', 'finalbody'):
                    b = getattr(s, fld, None)
                    if isinstance(b, list):
                        walk(b)
                if isinstance(s, ast.Try):
                    for h in s.handlers:
                        walk(h.body)

        walk(fnode.body)
        return out

    def _index_class(self, m, node):
        qn = f'{m.name}.{node.name}'
        ci = ClassInfo(qn, node.name, node, m)
        ci.decorators = self._decorators(m, node)
        for b in node.bases:
            name = _dotted(b)
            if name is None and isinstance(b, ast.Subscript):
                name = _dotted(b.value)
            if name:
                head, _, rest = name.partition('.')
                q = m.imports.get(head)
                if q:
                    name = q + ('.' + rest if rest else '')
                elif head in m.classes:
                    name = m.classes[head].qualname
                ci.bases.append(name)
        m.classes[node.name] = ci
        self.classes[qn] = ci
        for s in node.body:
            if isinstance(s, (ast.FunctionDef, ast.AsyncFunctionDef)):
                self._index_function(m, s, ci, None)
            elif isinstance(s, ast.Assign):
                for t in s.targets:
                    if isinstance(t, ast.Name):
                        ci.class_attrs[t.id] = s.value
            elif isinstance(s, ast.AnnAssign) and isinstance(s.target, ast.Name):
                ci.fields.append((s.target.id, s.annotation, s.value))
                if s.value is not None:
                    ci.class_attrs[s.target.id] = s.value

    # ------------------------------------------------------------------ lookup
    def canonical(self, qual, _depth=0):
        """Follow re-exports: 'gemdat.Trajectory' -> 'gemdat.trajectory.Trajectory'."""
        if qual is None or _depth > 6:
            return qual
        if qual in self.functions or qual in self.classes or qual in self.modules:
            return qual
        mod, _, name = qual.rpartition('.')
        if mod in self.modules:
            m = self.modules[mod]
            if name in m.imports:
                return self.canonical(m.imports[name], _depth + 1)
            if f'{mod}.{name}' in self.modules:
                return f'{mod}.{name}'
        # `from trajectory import Trajectory` under TYPE_CHECKING in metrics.py
        if not qual.startswith(PKG + '.') and (PKG + '.' + qual) != qual:
            alt = f'{PKG}.{qual}'
            amod = alt.rpartition('.')[0]
            if alt in self.functions or alt in self.classes or alt in self.modules:
                return alt
            if amod in self.modules and qual.split('.')[0] not in _KNOWN_TOPLEVEL:
                return self.canonical(alt, _depth + 1)
        return qual

    def module_of(self, relpath_or_name):
        if relpath_or_name in self.modules:
            return self.modules[relpath_or_name]
        for m in self.modules.values():
            if m.relpath == relpath_or_name or m.relpath.endswith('/' + relpath_or_name):
                return m
        raise AnalysisError(f'module {relpath_or_name} not found (anchor vanished)')

    def fn(self, qualname) -> FunctionInfo:
        f = self.functions.get(qualname)
        if f is None:
            raise AnalysisError(f'function {qualname} not found (anchor vanished)')
        return f

    def cls(self, qualname) -> ClassInfo:
        c = self.classes.get(qualname)
        if c is None:
            raise AnalysisError(f'class {qualname} not found (anchor vanished)')
        return c

    def mro(self, ci: ClassInfo):
        """In-package linearisation (single inheritance in this package) + external base names."""
        out, ext = [], []
        seen = set()
        todo = [ci]
        while todo:
            c = todo.pop(0)
            if c.qualname in seen:
                continue
            seen.add(c.qualname)
            out.append(c)
            for b in c.bases:
                cb = self.canonical(b)
                if cb in self.classes:
                    todo.append(self.classes[cb])
                else:
                    ext.append(cb)
        return out, ext

    def find_method(self, ci: ClassInfo, name):
        inpkg, ext = self.mro(ci)
        for c in inpkg:
            if name in c.methods:
                return c.methods[name]
        return None

    def core_functions(self):
        """Functions outside gemdat.plots (analysis code)."""
        return [f for q, f in self.functions.items() if not f.module.name.startswith('gemdat.plots')]


_KNOWN_TOPLEVEL = {
    'numpy', 'pandas', 'pymatgen', 'scipy', 'networkx', 'MDAnalysis', 'skimage', 'rich', 'typing',
    'collections', 'itertools', 'functools', 'weakref', 'pathlib', 'math', 'warnings', 'dataclasses',
    'hashlib', 'json', 'pickle', 're', 'xml', 'importlib', 'uncertainties', 'matplotlib', 'plotly',
    'mypy_extensions', 'types', 'abc', 'os', 'sys', '__future__',
}


def norm_text(node):
    """Line-independent text of a node (keys of findings)."""
    try:
        return ast.unparse(node)
    except Exception:
        return ast.dump(node)
