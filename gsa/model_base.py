"""Library model, part 1: Python-level semantics (annotations, builtins, containers, branches)."""

from __future__ import annotations

import ast

from .interp import AV, TOP, const, cval, has_const, join, join_all
from .kinds import Mono, num
from .source import norm_text

TRAJ = 'gemdat.trajectory.Trajectory'
# physical meaning of conventional parameter names (documented in the package docstrings)
PARAM_UNITS = {'temperature': {'K': 1}, 'resolution': {'ang': 1}, 'max_dist': {'ang': 1}, 'radius': {'ang': 1}}
PARAM_DEG = {'resolution': (1, 0, 0), 'max_dist': (1, 0, 0), 'radius': (1, 0, 0), 'z_ion': (0, 0, 1)}


def deps_union(*avs):
    out = frozenset()
    for a in avs:
        if a is not None and a.deps:
            out |= a.deps
    return out


class ModelBase:
    interp = None

    ASSUME_JUMPS_DESTINATION_CLEAN = True

    def on_attr_assign(self, interp, base, attr, v):
        # stated assumption (DESIGN C05.R1): the destination column of Jumps.data never holds NOSITE
        if (self.ASSUME_JUMPS_DESTINATION_CLEAN and base.ty == 'obj' and base.cls == 'gemdat.jumps.Jumps' and attr == 'data'
                and v is not None and v.cols and 'destination site' in v.cols):
            c = v.cols['destination site']
            if c.idx is not None:
                cols = dict(v.cols)
                cols['destination site'] = c.w(idx=('SITE', False), assumed_clean=True)
                v = v.w(cols=cols)
        if base.ty == 'obj' and base.cls and v is not None:
            ci = interp.p.classes.get(base.cls)
            if ci is not None:
                return self.owned(v, ci, attr)
        return v

    def global_constant(self, v, module, name):
        # the package-wide 'no site' marker
        if name == 'NOSITE':
            return v.w(idx=('SITE', True), nosite_marker=True)
        return v

    # ------------------------------------------------------------------ helpers
    def deps_of(self, args, kwargs):
        out = frozenset()

        def rec(a, depth):
            nonlocal out
            if a is None or depth > 3:
                return
            if a.deps:
                out |= a.deps
            if a.elts:
                for e in a.elts:
                    rec(e, depth + 1)
            if a.kw:
                for e in a.kw.values():
                    rec(e, depth + 1)
            if a.elem is not None:
                rec(a.elem, depth + 1)

        for a in list(args) + list(kwargs.values()):
            rec(a, 0)
        return out

    def arg(self, args, kwargs, i, name, default=None):
        if name in kwargs:
            return kwargs[name]
        if i is not None and i < len(args):
            return args[i]
        return default

    # ------------------------------------------------------------------ annotations
    ANN_EXT = {
        'Lattice': lambda m: AV(ty='Lattice', frame='LAT'),
        'Structure': lambda m: AV(ty='Structure'),
        'SymmetrizedStructure': lambda m: AV(ty='Structure', symmetrized=True),
        'PeriodicSite': lambda m: AV(ty='PeriodicSite'),
        'DataFrame': lambda m: AV(ty='DataFrame'),
        'ndarray': lambda m: AV(ty='ndarray'),
        'Graph': lambda m: AV(ty='Graph'),
        'DiGraph': lambda m: AV(ty='Graph', directed=True),
        'Path': lambda m: AV(ty='Path'),
        'VolumetricData': lambda m: AV(ty='VolumetricData'),
        'Unit': lambda m: AV(ty='Unit'),
        'SpaceGroup': lambda m: AV(ty='SpaceGroup'),
        'SpacegroupOperations': lambda m: AV(ty='SpaceGroup'),
        'Species': lambda m: AV(ty='Species', species_obj=True),
        'Element': lambda m: AV(ty='Species', species_obj=True),
        'RegionProperties': lambda m: AV(ty='RegionProperties'),
        'FloatWithUnit': lambda m: AV(ty='FloatWithUnit'),
    }

    def from_annotation(self, interp, st, ann, module, name=None, fn=None):
        if ann is None:
            return TOP
        if isinstance(ann, ast.Constant) and isinstance(ann.value, str):
            try:
                ann = ast.parse(ann.value, mode='eval').body
            except SyntaxError:
                return TOP
        if isinstance(ann, ast.Constant) and ann.value is None:
            return const(None)
        if isinstance(ann, ast.BinOp) and isinstance(ann.op, ast.BitOr):
            parts = [self.from_annotation(interp, st, x, module, name, fn) for x in (ann.left, ann.right)]
            nn = [p for p in parts if p.ty != 'None']
            has_none = len(nn) != len(parts)
            if len(nn) == 1:
                return nn[0].w(maybe_none=True if has_none else None)
            tys = {p.ty for p in nn}
            if len(tys) == 1 and None not in tys:
                return nn[0].w(maybe_none=True if has_none else None)
            return AV(union=tuple(sorted(str(p.ty) for p in nn)), maybe_none=True if has_none else None,
                      anno=norm_text(ann), alts=tuple(nn))
        if isinstance(ann, ast.Subscript):
            head = norm_text(ann.value).split('.')[-1]
            if head == 'Optional':
                return self.from_annotation(interp, st, ann.slice, module, name, fn).w(maybe_none=True)
            if head in ('list', 'List', 'Sequence', 'Collection', 'Iterable'):
                el = ann.slice.elts[0] if isinstance(ann.slice, ast.Tuple) else ann.slice
                return AV(ty='list', elem=self.from_annotation(interp, st, el, module), anno=norm_text(ann))
            if head in ('dict', 'Dict', 'Counter'):
                vals = ann.slice.elts[1] if isinstance(ann.slice, ast.Tuple) and len(ann.slice.elts) == 2 else None
                return AV(ty='dict', elem=self.from_annotation(interp, st, vals, module) if vals is not None else None,
                          anno=norm_text(ann))
            if head in ('tuple', 'Tuple'):
                if isinstance(ann.slice, ast.Tuple):
                    return AV(ty='tuple', elts=[self.from_annotation(interp, st, e, module) for e in ann.slice.elts])
                return AV(ty='tuple')
            if head == 'Callable':
                return AV(ty='callable')
            if head == 'Literal':
                vals = ann.slice.elts if isinstance(ann.slice, ast.Tuple) else [ann.slice]
                try:
                    return AV(ty='str', valset=frozenset(ast.literal_eval(v) for v in vals))
                except Exception:
                    return AV(ty='str')
            return TOP
        if isinstance(ann, (ast.Name, ast.Attribute)):
            txt = norm_text(ann)
            last = txt.split('.')[-1]
            if last in ('int', 'float', 'str', 'bool'):
                a = AV(ty=last)
                if name and last in ('int', 'float'):
                    a = a.w(mono=Mono.atom(f'param:{name}', PARAM_DEG.get(name, (0, 0, 0)), PARAM_UNITS.get(name)))
                return a
            if last in ('dict', 'list', 'tuple', 'set'):
                return AV(ty=last)
            # alias defined in the module (e.g. _PATHFINDING_METHODS = Literal[...])
            if isinstance(ann, ast.Name) and ann.id in module.assigns:
                return self.from_annotation(interp, st, module.assigns[ann.id], module, name, fn)
            q = None
            if isinstance(ann, ast.Name):
                if ann.id in module.classes:
                    q = module.classes[ann.id].qualname
                elif ann.id in module.imports:
                    q = interp.p.canonical(module.imports[ann.id])
            else:
                head = txt.split('.')[0]
                if head in module.imports:
                    q = interp.p.canonical(module.imports[head] + txt[len(head):])
            if q in interp.p.classes:
                return self.symbolic_instance(interp, st, interp.p.classes[q])
            if last in self.ANN_EXT:
                return self.ANN_EXT[last](self)
            if last in ('Collection', 'Sequence', 'Iterable'):
                return AV(ty='list')
            if last == 'Callable':
                return AV(ty='callable')
            return AV(anno=txt)
        return TOP

    def symbolic_instance(self, interp, st, ci):
        return interp.new_obj(st, ci, symbolic=True)

    def populate_symbolic(self, interp, st, base, ci):
        """Fill attributes of a symbolic instance by running __init__ on annotation-derived arguments."""
        init = interp.p.find_method(ci, '__init__')
        if init is not None and init.cls is not None:
            if sum(1 for f, _ in interp.stack if f is init) >= 1:
                return
            try:
                interp.call_function(init, [], {}, st, self_av=base, node=None, symbolic_missing=True)
            except RecursionError:
                pass
        elif any(c.is_dataclass for c in interp.p.mro(ci)[0]):
            self.dataclass_init(interp, st, base, ci, [], {}, None, symbolic=True)

    def dataclass_init(self, interp, st, obj, ci, args, kwargs, node, symbolic=False):
        heap = st.heap[obj.oid]
        fields = []
        for c in reversed(interp.p.mro(ci)[0]):
            if c.is_dataclass:
                fields += [(f, c) for f in c.fields]
        pos = list(args)
        initvars = {}
        for (fname, ann, default), c in fields:
            txt = norm_text(ann)
            is_initvar = txt.startswith('InitVar')
            no_init = default is not None and 'init=False' in norm_text(default)
            if no_init:
                continue
            if pos:
                v = pos.pop(0)
            elif fname in kwargs:
                v = kwargs[fname]
            elif symbolic and not is_initvar:
                v = self.from_annotation(interp, st, ann, c.module, name=fname)
                if default is not None and isinstance(default, ast.Constant) and default.value is None:
                    v = v.w(maybe_none=True)
            elif default is not None and not norm_text(default).startswith('field('):
                v = interp.eval_in_module(default, c.module, st)
            elif default is not None:
                v = TOP
            else:
                v = self.from_annotation(interp, st, ann, c.module, name=fname)
            if is_initvar:
                initvars[fname] = v
            else:
                heap[fname] = self.owned(v, ci, fname)
        post = interp.p.find_method(ci, '__post_init__')
        if post is not None:
            interp.call_function(post, [], dict(initvars), st, self_av=obj, node=node)

    def owned(self, v, ci, attr):
        """A value stored in an attribute becomes that object's storage (provenance for aliasing)."""
        if v is None:
            return v
        if v.ty in ('ndarray', 'DataFrame', 'list', 'dict'):
            return v.w(store=f'attr:{ci.name}.{attr}', fresh=None)
        return v

    def ext_base_init(self, interp, st, obj, ci, args, kwargs, node):
        """Class without its own __init__: external base (stubbed per base) or plain object."""
        _, ext = interp.p.mro(ci)
        heap = st.heap[obj.oid]
        for k, v in kwargs.items():
            if k != '**':
                heap[k] = v

    # ------------------------------------------------------------------ builtins
    BUILTINS = {'len', 'range', 'enumerate', 'zip', 'list', 'tuple', 'set', 'dict', 'int', 'float', 'str', 'bool',
                'isinstance', 'hasattr', 'getattr', 'max', 'min', 'sum', 'abs', 'sorted', 'print', 'open', 'type',
                'super', 'slice', 'any', 'all', 'round', 'reversed', 'iter', 'next', 'id', 'repr', 'map', 'filter',
                'divmod', 'callable', 'frozenset', 'vars', 'setattr', 'pow'}
    EXC = {'ValueError', 'AttributeError', 'IndexError', 'KeyError', 'TypeError', 'Exception', 'IOError', 'OSError',
           'NotImplementedError', 'RuntimeError', 'AssertionError', 'BaseException', 'StopIteration',
           'UserWarning', 'DeprecationWarning', 'FileNotFoundError', 'ImportError', 'ModuleNotFoundError',
           'ZeroDivisionError', 'Warning', 'RuntimeWarning'}

    def builtin(self, interp, name):
        if name in self.BUILTINS:
            return AV(ty='builtin', name=name)
        if name in self.EXC:
            return AV(ty='ext', qual=f'builtins.{name}')
        if name in ('True', 'False', 'None'):
            return const({'True': True, 'False': False, 'None': None}[name])
        if name == '__file__':
            return AV(ty='str')
        if name == '__name__':
            return AV(ty='str')
        return None

    def call_builtin(self, interp, st, name, args, kwargs, node, frame):
        d = self.deps_of(args, kwargs)
        a0 = args[0] if args else None
        # projections that forget part of a value: iterating a dict yields its keys only; len / bool / type forget the content
        if a0 is not None and ((name in ('sorted', 'list', 'tuple', 'set', 'frozenset', 'iter') and a0.ty == 'dict') or name in ('len', 'bool', 'type')):
            suffix = '#keys' if name not in ('len', 'bool', 'type') else f'#{name}'
            d = frozenset((x + suffix) if x.startswith('param:') and '#' not in x else x for x in d)
        if name == 'len':
            return self.len_of(interp, st, a0, node).w(deps=d)
        if name == 'range':
            r = AV(ty='range', elem=AV(ty='int', deps=d), deps=d)
            if len(args) == 1 and args[0].ty == 'int':
                r = r.w(stop=args[0])
            if all(has_const(a) for a in args) and args:
                try:
                    rr = range(*[cval(a) for a in args])
                    if len(rr) <= 32:
                        r = r.w(elts=[const(i) for i in rr])
                except Exception:
                    pass
            return r
        if name == 'next' and a0 is not None:
            # next(it[, default]): the first item
            dflt = args[1] if len(args) > 1 else None
            if a0.elts is not None and a0.ty in ('generator', 'list', 'tuple') and a0.elem is None:
                if a0.elts:
                    return a0.elts[0]
                if dflt is not None:
                    return dflt
            el = self.iter_item(interp, st, a0, node, None)
            return join(el, dflt) if dflt is not None else (el if el is not None else AV(deps=d))
        if name == 'id' and a0 is not None:
            return AV(ty='int', id_of=a0, deps=d)
        if name == 'enumerate':
            return AV(ty='enumerate', inner=a0, deps=d)
        if name == 'map' and len(args) >= 2 and not kwargs:
            # map(f, xs, ...): f applied item by item (lazily; the items are the same)
            from .interp import known_items
            cols = [known_items(x) for x in args[1:]]
            if all(c is not None for c in cols) and len({len(c) for c in cols}) == 1:
                elts = [interp.call_value(a0, list(row), {}, frame, st, node) for row in zip(*cols)]
                return AV(ty='generator', elts=elts, deps=d, fresh=True)
            if len(args) > 2:
                # several iterables advance in step, like zip
                zi = self.iter_item(interp, st, AV(ty='zip', inners=list(args[1:])), node, None)
                items = list(zi.elts)
            else:
                items = [self.iter_item(interp, st, x, node, None) for x in args[1:]]
            el = interp.call_value(a0, items, {}, frame, st, node)
            return AV(ty='generator', elem=el, deps=d | ((el.deps or frozenset()) if el is not None else frozenset()), fresh=True,
                      maybe_empty=any(self.maybe_empty_iter(x) for x in args[1:]) or None)
        if name == 'filter' and len(args) == 2:
            el = self.iter_item(interp, st, args[1], node, None)
            if a0 is not None and a0.ty != 'None':
                interp.call_value(a0, [el], {}, frame, st, node)
            return AV(ty='generator', elem=el, deps=d, fresh=True, maybe_empty=True)
        if name == 'zip':
            if len(args) == 1 and args[0].star and args[0].elem is not None and args[0].elem.elts is not None:
                # zip(*pairs): transpose a sequence of fixed-size tuples
                src = args[0].src
                return AV(ty='tuple', deps=d, unzip=True, elts=[
                    AV(ty='tuple', elem=e, deps=e.deps, maybe_empty=src.maybe_empty if src is not None else None)
                    for e in args[0].elem.elts], maybe_empty=src.maybe_empty if src is not None else None)
            return AV(ty='zip', inners=list(args), deps=d)
        if name in ('list', 'tuple'):
            if a0 is None:
                return AV(ty=name, elts=[], fresh=True)
            if a0.elts is not None:
                return AV(ty=name, elts=list(a0.elts), deps=d, fresh=True, elem=a0.elem)
            if a0.ty == 'ndarray' and a0.rows is not None:
                return AV(ty=name, elts=list(a0.rows), deps=d, fresh=True)  # the rows of a 2-D array whose rows are known
            if a0.ty == 'dict' and a0.kw and not a0.open_kw and a0.keyelem is None:
                return AV(ty=name, elts=[const(k) for k in a0.kw], deps=d, fresh=True)  # the keys, in insertion order
            el = self.iter_item(interp, st, a0, None, None)
            out = AV(ty=name, elem=el, deps=d, fresh=True, maybe_empty=a0.maybe_empty, of=a0 if a0.ty in ('ndarray', 'set', 'dict', 'range') else None,
                     pipeline=a0.pipeline)
            if a0.voxel and a0.selected_by is not None:
                out = out.w(voxel=True, selected_by=a0.selected_by, maybe_empty=None)
            if a0.ty == 'ndarray':
                out = out.w(geo=a0.geo, idx=a0.idx, axes=a0.axes, mono=a0.mono)
            return out
        if name in ('set', 'frozenset'):
            if a0 is None:
                return AV(ty='set', fresh=True, empty_init=True)
            return AV(ty='set', elem=self.iter_item(interp, st, a0, None, None), deps=d, fresh=True, of=a0)
        if name == 'dict':
            if a0 is not None and a0.ty == 'dict':
                return a0.w(fresh=True, store=None, deps=d)
            if a0 is not None and a0.ty == 'zip' and len(a0.inners) == 2 and a0.inners[0].ty == 'dict' and a0.inners[0].kw and not a0.inners[0].open_kw \
                    and a0.inners[0].keyelem is None:
                # zip(mapping, values): iterating a dict yields its keys in insertion order
                a0 = a0.w(inners=[AV(ty='tuple', elts=[const(k) for k in a0.inners[0].kw]), a0.inners[1]])
            if a0 is not None and a0.ty == 'zip' and len(a0.inners) == 2 and a0.inners[0].elts is not None and a0.inners[1].elts is not None \
                    and len(a0.inners[0].elts) == len(a0.inners[1].elts) and all(has_const(k) and isinstance(cval(k), str) for k in a0.inners[0].elts):
                # dict(zip(names, values)) with known names: one entry per name
                return AV(ty='dict', kw={cval(k): v for k, v in zip(a0.inners[0].elts, a0.inners[1].elts)}, deps=d, fresh=True)
            if a0 is not None and a0.ty == 'zip':
                ins = a0.inners
                return AV(ty='dict', keyelem=self.iter_item(interp, st, ins[0], None, None) if ins else None,
                          elem=self.iter_item(interp, st, ins[1], None, None) if len(ins) > 1 else None,
                          deps=d, fresh=True)
            if a0 is not None and a0.ty in ('list', 'tuple', 'generator', 'set'):
                # dict(pairs): a sequence of (key, value) tuples
                pr = self.iter_item(interp, st, a0, None, None)
                if pr is not None and pr.ty == 'tuple' and pr.elts is not None and len(pr.elts) == 2:
                    return AV(ty='dict', keyelem=pr.elts[0], elem=pr.elts[1], deps=d, fresh=True, maybe_empty=a0.maybe_empty, overwrite=True, genfn=a0.genfn)
                return AV(ty='dict', deps=d, fresh=True, open_kw=True)
            return AV(ty='dict', kw=dict(kwargs), deps=d, fresh=True)
        if name in ('int', 'float'):
            if a0 is None:
                return const(0 if name == 'int' else 0.0)
            if has_const(a0):
                try:
                    return const(int(cval(a0)) if name == 'int' else float(cval(a0)))
                except Exception:
                    pass
            keep = a0.only('mono', 'geo', 'idx', 'axis', 'sym', 'deps', 'taint', 'mono_unknown', 'minwidth', 'pair_width', 'pair_pos', 'pair_src', 'pair_seq')
            return keep.w(ty=name, cast=name)
        if name == 'str':
            if a0 is not None and a0.ty == 'str':
                return a0
            if a0 is not None and has_const(a0):
                return const(str(cval(a0)))
            return AV(ty='str', deps=d, strof=a0.ty if a0 is not None else None)
        if name == 'bool':
            # truth value of a comparison / reduction keeps what was compared / reduced
            return AV(ty='bool', deps=d, cmp=a0.cmp if a0 is not None else None, red=a0.red if a0 is not None else None)
        if name == 'isinstance':
            return self.isinstance_(interp, st, args, node).w(deps=d)
        if name == 'hasattr':
            return AV(ty='bool', deps=d)
        if name == 'getattr':
            if len(args) >= 2 and has_const(args[1]):
                return interp.get_attr(args[0], cval(args[1]), frame, st, node)
            return TOP
        if name in ('max', 'min'):
            if len(args) == 1:
                el = self.iter_item(interp, st, a0, None, None)
                interp.emit('minmax', node, which=name, arg=a0)
                out = el.w(deps=d, minmax=(name, [a0]))
                if name == 'min' and (el.pair_width is not None or el.minwidth is not None):
                    out = out.w(minwidth=el.pair_width or el.minwidth, pair_width=None)
                return out
            out = join_all(args).w(deps=d, const=None, minmax=(name, list(args)))
            if name == 'min':
                w = next((a.pair_width or a.minwidth for a in args if a.pair_width is not None or a.minwidth is not None), None)
                out = out.w(minwidth=w, pair_width=None)
            return out
        if name == 'sum':
            el = self.iter_item(interp, st, a0, None, None)
            m = el.mono.wrap('sum') if el.mono is not None else None
            return el.only('ty', 'geo', 'mono').w(deps=d, mono=m, const=None)
        if name == 'abs':
            return a0.w(const=None, bin=None, cmp=None, abs_of=a0) if a0 is not None else TOP
        if name == 'sorted':
            el = self.iter_item(interp, st, a0, None, None)
            return AV(ty='list', elem=el, deps=d, fresh=True, elts=None)
        if name == 'print':
            return const(None)
        if name == 'open':
            mode = self.arg(args, kwargs, 1, 'mode')
            return AV(ty='file', path=a0, mode=cval(mode) if has_const(mode) else 'r', deps=d)
        if name == 'type':
            if a0 is not None and a0.ty == 'obj':
                return AV(ty='class', cls=a0.cls)
            return AV(ty='type')
        if name == 'super':
            fr = frame
            fi = fr.fn
            while fi is not None and fi.cls is None:
                fi = fi.parent
            return AV(ty='super', cls=fi.cls.qualname if fi is not None else None, selfav=frame.self_av)
        if name == 'slice':
            # slice(stop) / slice(start, stop[, step])
            if len(args) == 1:
                return AV(ty='slice', lo=None, hi=args[0], step=None, deps=d)
            nn = lambda v: None if (v is not None and v.ty == 'None') else v
            return AV(ty='slice', lo=nn(args[0]) if args else None, hi=nn(args[1]) if len(args) > 1 else None,
                      step=nn(args[2]) if len(args) > 2 else None, deps=d)
        if name in ('any', 'all'):
            return AV(ty='bool', deps=d)
        if name == 'round':
            return a0.w(const=None) if a0 is not None else TOP
        if name in ('reversed', 'iter'):
            return a0 if a0 is not None else TOP
        if name == 'callable':
            return AV(ty='bool')
        return AV(deps=d)

    def len_of(self, interp, st, a, node):
        if a is None:
            return AV(ty='int')
        if a.elts is not None and a.ty in ('tuple', 'list'):
            return const(len(a.elts))
        if has_const(a) and isinstance(cval(a), (str, tuple, list)):
            return const(len(cval(a)))
        name = None
        if a.ty == 'obj' and a.cls == TRAJ:
            name = 'n_frames'
        elif a.ty == 'Structure':
            name = 'n_sites'
        elif a.ty == 'ndarray' and a.axes:
            name = f'n_{a.axes[0]}'
        elif a.lenname:
            name = a.lenname
        elif a.ty in ('list', 'tuple') and a.elem is not None and a.elem.ty == 'Species':
            name = 'n_atoms'
        out = AV(ty='int', lenof=a.only('ty', 'axes', 'idx', 'geo', 'cols', 'maybe_empty', 'symlen', 'store', 'prov'))
        if name:
            out = out.w(mono=Mono.atom(name))
        if a.symlen is not None:
            out = out.w(sym=a.symlen)
        return out

    def isinstance_(self, interp, st, args, node):
        v, t = args[0], args[1]
        names = []
        for x in (t.elts if t.elts is not None else [t]):
            if x.ty == 'builtin':
                names.append(x.name)
            elif x.ty == 'class':
                names.append(x.cls)
            elif x.ty == 'ext':
                names.append(x.qual)
            else:
                names.append(None)
        interp.emit('isinstance', node, value=v, types=names)
        res = None
        if None not in names:
            tyv = v.ty
            builtin_names = ('str', 'int', 'float', 'dict', 'list', 'tuple', 'bool', 'set')
            if tyv in ('set', 'ndarray', 'Structure', 'Lattice', 'DataFrame', 'Species', 'obj') and not v.union and all(n in builtin_names for n in names):
                res = tyv in names
            elif tyv in ('str', 'int', 'float', 'bool', 'dict', 'list', 'tuple') and not v.maybe_none and not v.union:
                pyname = {'builtins.' + n for n in names} | set(names)
                # bool is an int; ints are not floats
                if tyv in pyname or f'builtins.{tyv}' in pyname:
                    res = True
                elif all(n in ('str', 'int', 'float', 'dict', 'list', 'tuple', 'bool') for n in names):
                    res = False
        out = AV(ty='bool', isinst=(v, tuple(names)))
        if res is not None:
            out = out.w(const=('c', res))
        return out

    # ------------------------------------------------------------------ sequences
    def make_seq(self, interp, ty, elts, node):
        c = None
        if all(has_const(e) for e in elts):
            try:
                vals = [cval(e) for e in elts]
                c = ('c', tuple(vals) if ty == 'tuple' else list(vals))
            except Exception:
                c = None
        return AV(ty=ty, elts=elts, const=c if ty == 'tuple' else None, deps=deps_union(*elts), fresh=True,
                  litconst=c)

    def make_comp(self, interp, ty, elt, first_iter, node, maybe_empty):
        out = AV(ty='list' if ty == 'list' else 'generator', elem=elt, deps=elt.deps, fresh=True,
                 comp_over=first_iter.only('ty', 'axes', 'idx', 'geo', 'lenof', 'symlen', 'elts', 'const', 'stop') if first_iter is not None else None,
                 maybe_empty=True if (maybe_empty or (first_iter is not None and first_iter.maybe_empty)) else None)
        if first_iter is not None and first_iter.symlen is not None and not maybe_empty:
            out = out.w(symlen=first_iter.symlen)
        return out

    def unpack(self, interp, st, v, n, target, stmt):
        if v.ty == 'obj' and v.oid in st.heap and v.cls in interp.p.classes and interp.p.classes[v.cls].is_namedtuple:
            # a NamedTuple instance unpacks into its fields, in declaration order
            names = [f[0] for f in interp.p.classes[v.cls].fields]
            if len(names) == n and all(k in st.heap[v.oid] for k in names):
                return [st.heap[v.oid][k] for k in names]
        if v.elts is not None and len(v.elts) == n:
            parts = list(v.elts)
            if n == 3 and v.ty == 'tuple' and not v.unzip:
                # component k of a 3-tuple (dims, lengths, voxel): remember which axis it belongs to
                parts = [p if (p.axis is not None or p.ty not in ('int', 'float', None)) else p.w(axis=k) for k, p in enumerate(parts)]
            return parts
        if v.elts is not None and len(v.elts) != n and not any(isinstance(e, ast.Starred) for e in target.elts):
            interp.emit('unpack_mismatch', target, have=len(v.elts), want=n)
        r = self.unpack_ext(interp, st, v, n, target, stmt)
        if r is not None:
            return r
        el = self.iter_item(interp, st, v, None, None)
        return [el] * n

    def unpack_ext(self, interp, st, v, n, target, stmt):
        return None

    def iter_item(self, interp, st, it, node, stmt):
        if it is None:
            return TOP
        ty = it.ty
        if it.argwhere_of is not None and ty in ('list', 'ndarray', 'tuple'):
            # a row of np.argwhere(mask): the index tuple of one element the mask selects
            return AV(ty='ndarray' if ty == 'ndarray' else 'list', dtype='int', voxel=True, selected_by=it.argwhere_of, deps=it.deps,
                      elem=AV(ty='int'))
        if ty in ('list', 'tuple', 'set', 'generator', 'range'):
            if it.elts:
                return join_all(it.elts)
            if it.elem is not None:
                return it.elem
            return AV(deps=it.deps)
        if ty == 'enumerate':
            return AV(ty='tuple', elts=[AV(ty='int', idx=self.enum_index_kind(it.inner)),
                                        self.iter_item(interp, st, it.inner, node, stmt)])
        if ty == 'zip':
            elts = []
            for x in it.inners:
                if x.ty == 'count':
                    # itertools.count() zipped with sequences numbers their items, like enumerate
                    others = [y for y in it.inners if y.ty != 'count']
                    zero = x.start is not None and has_const(x.start) and cval(x.start) == 0
                    elts.append(AV(ty='int', idx=self.enum_index_kind(AV(ty='zip', inners=others)) if (zero and others) else None))
                    continue
                el = self.iter_item(interp, st, x, node, stmt)
                sh = x.shifted
                # zip(e[:-1], e[1:]): consecutive pairs of one sequence
                if sh is not None and el is not None and (sh[0], sh[3]) in ((0, 1), (1, 0)):
                    el = el.w(pair_pos=sh[0], pair_src=sh[1], pair_seq=x.shifted_of)
                if el is not None and x.ty == 'ndarray' and x.axes and x.axes[0] == 'frame' and x.shifted is None:
                    # zip over the frame axis of several arrays: the k-th items belong to the same frame
                    el = el.w(frame_idx=f'zip@{getattr(node, "lineno", 0)}')
                if el is not None and x.sx is not None:
                    # the k-th item of every zipped sequence: which sequence, and which zip keeps them in step
                    el = el.w(zip_src=x.sx, zip_key=f'zip@{getattr(node, "lineno", None) or id(it)}')
                elts.append(el)
            return AV(ty='tuple', elts=elts)
        if ty == 'dict':
            if it.keyelem is not None:
                return it.keyelem
            if it.kw:
                return AV(ty='str', valset=frozenset(it.kw))
            return AV(ty='str')
        if ty == 'dictitems':
            d = it.of
            k = d.keyelem if d.keyelem is not None else AV(ty='str')
            v = d.elem if d.elem is not None else (join_all(d.kw.values()) if d.kw else TOP)
            if d.deps and v is not None:
                v = v.w(deps=(v.deps or frozenset()) | d.deps)  # what is taken out of a container depends on the container
            if d.accum and v is not None:
                v = v.w(summed=True)  # an entry of a dict filled by d[k] += x: the sum of the x with that key
            return AV(ty='tuple', elts=[k, v])
        if ty == 'dictvalues':
            d = it.of
            v = d.elem if d.elem is not None else (join_all(d.kw.values()) if d.kw else TOP)
            if d.deps and v is not None:
                v = v.w(deps=(v.deps or frozenset()) | d.deps)
            return v
        if ty == 'str':
            return AV(ty='str')
        if ty == 'star':
            return it.elem
        r = self.iter_item_ext(interp, st, it, node, stmt)
        return r if r is not None else AV(deps=it.deps)

    def iter_item_ext(self, interp, st, it, node, stmt):
        return None

    def enum_index_kind(self, inner):
        if inner is None:
            return None
        if inner.ty == 'Structure':
            return ('SITE', False)
        if inner.ty == 'list' and inner.elem is not None and inner.elem.ty == 'Species':
            return ('ATOM',)
        ax0 = None
        if inner.ty == 'zip' and inner.inners and inner.inners[0].ty == 'ndarray' and inner.inners[0].axes:
            ax0 = inner.inners[0].axes[0]
        elif inner.ty == 'ndarray' and inner.axes:
            ax0 = inner.axes[0]
        if ax0 is not None:
            if ax0.endswith('~'):
                return ('SUBPOS', ax0[:-1])  # position inside a filtered selection, not the index along the original axis
            return {'atom': ('ATOM',), 'frame': ('FRAME', 'enum'), 'site': ('SITE', False)}.get(ax0)
        return None

    def maybe_empty_iter(self, it):
        if it is None:
            return True
        if it.elts is not None and len(it.elts) > 0:
            return False
        return True

    def enter_context(self, interp, st, v, node):
        return v

    # ------------------------------------------------------------------ truthiness / refinement
    def truth(self, v):
        if v is None:
            return None
        if has_const(v):
            try:
                return bool(cval(v))
            except Exception:
                return None
        if v.ty == 'None':
            return False
        if v.truthy:
            return True
        return None

    def refine(self, interp, test, frame, st, branch):
        """Refine the environment on the `branch` edge of `test` (best effort, never unsound)."""
        if isinstance(test, ast.BoolOp):
            if isinstance(test.op, ast.And) and branch:
                for v in test.values:
                    self.refine(interp, v, frame, st, True)
            elif isinstance(test.op, ast.Or) and not branch:
                for v in test.values:
                    self.refine(interp, v, frame, st, False)
            return
        if isinstance(test, ast.UnaryOp) and isinstance(test.op, ast.Not):
            self.refine(interp, test.operand, frame, st, not branch)
            return
        if isinstance(test, ast.Name):
            v = st.env.get(test.id)
            if v is not None:
                if branch:
                    st.env[test.id] = v.w(maybe_none=None, truthy=True, maybe_empty=None)
                else:
                    st.env[test.id] = v.w(falsy=True)
            # a name that stands for a condition (`ok = x != -1; if ok:`): refine on the condition itself
            d = self._cond_def(frame, test)
            if d is not None:
                self.refine(interp, d, frame, st, branch)
            return
        # `if traj.coords_are_displacement:` - the storage mode flag of a trajectory object
        if isinstance(test, ast.Attribute):
            tv = interp.last.get(id(test))
            if tv is not None and tv.modeflag_of is not None and tv.modeflag_of in st.heap:
                h = st.heap[tv.modeflag_of]
                h['#mode'] = const('disp' if branch else 'pos')
                c = h.get('coords')
                if c is not None and c.geo == ('RAW',):
                    h['coords'] = c.w(geo=('FDIFF', 'MI') if branch else ('FRAC', 'N'))
                elif c is not None and c.geo is None and c.geo_conflict:
                    # storage that is positions on some paths and displacements on others: the flag tells which
                    want = 'FDIFF' if branch else 'FRAC'
                    pick = [g for g in c.geo_conflict if g[0] == want]
                    if len(pick) >= 1 and all(g[0] in ('FDIFF', 'FRAC', 'RAW') for g in c.geo_conflict):
                        g = pick[0]
                        for other in pick[1:]:
                            from .interp import geo_join
                            g = geo_join(g, other) or g
                        h['coords'] = c.w(geo=g, geo_conflict=None, axes=c.axes if c.axes is not None else ('frame', 'atom', 'xyz'))
                return
        # `if len(x):` / `if x.size:`  ==  non-emptiness
        tgt = None
        if isinstance(test, ast.Call) and isinstance(test.func, ast.Name) and test.func.id == 'len' and test.args and isinstance(test.args[0], ast.Name):
            tgt = test.args[0].id
        elif isinstance(test, ast.Attribute) and test.attr == 'size' and isinstance(test.value, ast.Name):
            tgt = test.value.id
        if tgt is not None:
            v = st.env.get(tgt)
            if v is not None and branch:
                st.env[tgt] = v.w(maybe_empty=None, nonempty=True)
            return
        if isinstance(test, ast.Compare) and len(test.ops) > 1 and branch:
            # a chained comparison that holds: every link holds
            operands = [test.left] + list(test.comparators)
            for k_, op_ in enumerate(test.ops):
                link = ast.Compare(left=operands[k_], ops=[op_], comparators=[operands[k_ + 1]])
                ast.copy_location(link, test)
                self.refine(interp, link, frame, st, True)
            return
        if isinstance(test, ast.Compare) and len(test.ops) == 1:
            op = test.ops[0]
            left, right = test.left, test.comparators[0]
            if isinstance(op, (ast.Eq, ast.NotEq)) and not isinstance(left, (ast.Subscript, ast.Name, ast.Attribute, ast.Call)) and isinstance(right, (ast.Subscript, ast.Name)):
                left, right = right, left  # constant on the left: `-1 != x`
            elif isinstance(op, (ast.Eq, ast.NotEq)) and isinstance(left, ast.Name) and isinstance(right, ast.Subscript):
                lv0 = interp.cur(left)
                if lv0 is not None and (lv0.nosite_marker or lv0.gname == 'gemdat.transitions.NOSITE'):
                    left, right = right, left  # `NOSITE != row['col']`
            rv = interp.last.get(id(right)) or interp.cur(right)
            lv = interp.last.get(id(left)) or interp.cur(left)
            # x is None / x is not None
            if isinstance(op, (ast.Is, ast.IsNot)) and rv is not None and rv.ty == 'None' and isinstance(left, ast.Name):
                v = st.env.get(left.id)
                if v is not None:
                    is_none = branch == isinstance(op, ast.Is)
                    st.env[left.id] = const(None) if is_none else v.w(maybe_none=None)
                return
            # name == 'literal' / name in (...) on a finite value set
            if isinstance(left, ast.Name) and rv is not None and lv is not None:
                v = st.env.get(left.id)
                vs = None
                if v is not None:
                    vs = v.valset if v.valset is not None else (frozenset([cval(v)]) if has_const(v) and isinstance(cval(v), str) else None)
                if vs is not None:
                    sel = None
                    if isinstance(op, (ast.Eq, ast.NotEq)) and has_const(rv):
                        sel = frozenset([cval(rv)])
                        pos = isinstance(op, ast.Eq)
                    elif isinstance(op, (ast.In, ast.NotIn)) and has_const(rv) and isinstance(cval(rv), (tuple, list)):
                        sel = frozenset(cval(rv))
                        pos = isinstance(op, ast.In)
                    if sel is not None:
                        keep = (vs & sel) if (pos == branch) else (vs - sel)
                        if len(keep) == 1:
                            st.env[left.id] = v.w(valset=None, const=('c', next(iter(keep))))
                        else:
                            st.env[left.id] = v.w(valset=keep, const=None)
                        return
            self.refine_ext(interp, test, frame, st, branch, op, left, right, lv, rv)
            return
        if isinstance(test, ast.Call):
            fv = interp.cur(test.func)
            if fv is not None and fv.ty == 'builtin' and fv.name == 'isinstance' and isinstance(test.args[0], ast.Name):
                tv = interp.cur(test)
                v = st.env.get(test.args[0].id)
                if tv is not None and tv.isinst and v is not None:
                    names = tv.isinst[1]
                    keep = v.only('deps', 'origin', 'is_param')
                    if v.alts and len(names) == 1 and names[0] is not None:
                        def matches(a):
                            return a.ty == names[0] or a.cls == names[0] or (a.ty == 'ndarray' and str(names[0]).endswith('ndarray'))
                        sel = [a for a in v.alts if matches(a)] if branch else [a for a in v.alts if not matches(a)]
                        if len(sel) == 1 and len(sel) != len(v.alts):
                            st.env[test.args[0].id] = sel[0].w(maybe_none=(v.maybe_none if not branch else None), **keep.f)
                            return
                        if sel and len(sel) != len(v.alts):
                            st.env[test.args[0].id] = v.w(alts=tuple(sel), union=tuple(sorted(str(a.ty) for a in sel)))
                            return
                    if branch and len(names) == 1 and names[0] in ('str', 'int', 'float', 'dict', 'list', 'tuple'):
                        alt = [a for a in (v.alts or ()) if a.ty == names[0]]
                        new = alt[0] if alt else AV(ty=names[0])
                        st.env[test.args[0].id] = new.w(**keep.f)
                    elif not branch and v.union and len(names) == 1 and names[0] in v.union:
                        rest = tuple(u for u in v.union if u != names[0])
                        alts = tuple(a for a in (v.alts or ()) if a.ty != names[0])
                        if len(rest) == 1:
                            new = alts[0] if len(alts) == 1 else AV(ty=rest[0])
                            st.env[test.args[0].id] = new.w(maybe_none=v.maybe_none, **keep.f)
                        else:
                            st.env[test.args[0].id] = v.w(union=rest, alts=alts)
                    elif branch and len(names) == 1 and names[0] in interp.p.classes and v.ty != 'obj':
                        st.env[test.args[0].id] = self.symbolic_instance(interp, st, interp.p.classes[names[0]])
            return

    def refine_ext(self, interp, test, frame, st, branch, op, left, right, lv, rv):
        return

    def _cond_def(self, frame, name_node):
        """The defining condition of a once-assigned local used as a test, when none of its operands is rebound in between."""
        fn = frame.fn if frame is not None else None
        if fn is None:
            return None
        cache = getattr(self, '_cond_defs', None)
        if cache is None:
            cache = self._cond_defs = {}
        info = cache.get(id(fn.node))
        if info is None:
            counts, values, stores = {}, {}, []
            stack = list(fn.node.body)
            while stack:
                n = stack.pop()
                if isinstance(n, (ast.FunctionDef, ast.AsyncFunctionDef, ast.Lambda, ast.ClassDef)):
                    continue
                if isinstance(n, ast.Name) and isinstance(n.ctx, (ast.Store, ast.Del)):
                    counts[n.id] = counts.get(n.id, 0) + 1
                    stores.append((n.id, n.lineno))
                if isinstance(n, ast.Assign) and len(n.targets) == 1 and isinstance(n.targets[0], ast.Name):
                    values[n.targets[0].id] = n
                stack.extend(ast.iter_child_nodes(n))
            info = cache[id(fn.node)] = (counts, values, stores)
        counts, values, stores = info
        a = values.get(name_node.id)
        if a is None or counts.get(name_node.id, 0) != 1 or not isinstance(a.value, (ast.Compare, ast.BoolOp, ast.UnaryOp)):
            return None
        if a.lineno >= name_node.lineno:
            return None
        used = {x.id for x in ast.walk(a.value) if isinstance(x, ast.Name)}
        if any(nm in used and a.lineno < ln < name_node.lineno for nm, ln in stores):
            return None
        return a.value

    # ------------------------------------------------------------------ operators (python level)
    def boolop(self, interp, st, op, vals, node):
        if isinstance(op, ast.Or):
            # `x or default`
            for v in vals:
                t = self.truth(v)
                if t is True:
                    return v
            return join_all(vals).w(const=None)
        return join_all(vals).w(const=None)

    def call_pkg_override(self, interp, st, fi, func, args, kwargs, node):
        return None

    def call_plot(self, interp, st, name, args, kwargs, node):
        # @plot_backend dispatch: evaluate the same-named plot function of both backends
        out = None
        for sub in ('matplotlib', 'plotly'):
            m = interp.p.modules.get(f'gemdat.plots.{sub}')
            if m is None:
                continue
            q = m.imports.get(name)
            if q is None:
                continue
            q = interp.p.canonical(q)
            fi = interp.p.functions.get(q)
            if fi is not None:
                interp.emit('call', node, callee=fi.qualname, args=args, kwargs=kwargs, bound=None)
                r = interp.call_function(fi, args, kwargs, st, node=node)
                out = join(out, r)
        return out if out is not None else TOP

    def super_attr(self, interp, st, base, attr, node):
        ci = interp.p.classes.get(base.cls)
        if ci is not None:
            inpkg, ext = interp.p.mro(ci)
            for c in inpkg[1:]:
                if attr in c.methods:
                    return AV(ty='func', fn=c.methods[attr], bound=base.selfav)
            return AV(ty='extmethod', recv=base.selfav.w(via_super=True) if base.selfav is not None else TOP,
                      name=attr, ext_bases=tuple(ext))
        return TOP

    def class_attr_ext(self, interp, st, ci, base, attr, node):
        _, ext = interp.p.mro(ci)
        if ext:
            return AV(ty='extmethod', recv=base, name=attr, ext_bases=tuple(ext), on_class=True)
        return None
