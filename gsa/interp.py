"""Layers 2-3: whole-program abstract interpreter over the AST (flow-sensitive, with a small heap).

Abstract values (`AV`) are bags of facets (see DESIGN section 4); every transfer function for
library calls lives in apimodel.py.  The interpreter itself only knows Python: names, attributes,
calls into package functions (evaluated in the caller's context, no summaries needed at this size),
constructors, properties, decorators of the package (`weak_lru_cache`, `plot_backend`), loops by
fixpoint, branches with constant pruning and facet refinement.
"""

from __future__ import annotations

import ast
import hashlib
import itertools

from .source import AnalysisError, ClassInfo, FunctionInfo, Project, norm_text

UNION = ('deps', 'prov', 'taint', 'retains', 'origin')


class AV:
    """Abstract value: facet name -> facet value; a missing facet means 'unknown' (top)."""

    __slots__ = ('f',)

    def __init__(self, **f):
        self.f = {k: v for k, v in f.items() if v is not None}

    def __getattr__(self, k):
        if k == 'f':
            raise AttributeError(k)
        return self.f.get(k)

    def w(self, **kw):
        d = dict(self.f)
        for k, v in kw.items():
            if v is None:
                d.pop(k, None)
            else:
                d[k] = v
        a = AV()
        a.f = d
        return a

    def only(self, *keys):
        a = AV()
        a.f = {k: v for k, v in self.f.items() if k in keys}
        return a

    def __eq__(self, other):
        if self is other:
            return True
        if not isinstance(other, AV):
            return False
        try:
            return self.f == other.f
        except RecursionError:
            return False

    __hash__ = object.__hash__

    def __repr__(self):
        items = []
        for k, v in self.f.items():
            if k in ('deps', 'node', 'fn', 'clsinfo', 'sx'):
                continue
            if k == 'elts':
                v = f'[{len(v)}]'
            items.append(f'{k}={v!r}')
        return 'AV(' + ', '.join(items) + ')'


TOP = AV()
_SX_NODES = (ast.BinOp, ast.Compare, ast.Call, ast.Subscript, ast.UnaryOp, ast.Attribute, ast.IfExp, ast.Tuple, ast.List)
_SX_TYS = frozenset([None, 'ndarray', 'float', 'int', 'Series', 'DataFrame', 'list', 'tuple', 'bool', 'Row', 'FloatWithUnit', 'Lattice', 'Structure',
                     'dict', 'str', 'set'])
_SX_PARSE = {}
SX_LONG = {}  # digest -> abbreviated definition text


def known_items(it, limit=6):
    """The items an iteration yields when the iterable is a short sequence of known elements, else None."""
    if it is None:
        return None
    if it.ty in ('tuple', 'list') and it.elts is not None and 0 < len(it.elts) <= limit and not it.maybe_empty and it.elem is None:
        return list(it.elts)
    if it.ty == 'range' and it.elts is not None and 0 < len(it.elts) <= limit:
        return list(it.elts)  # range(3) and the like: a short run of known integers
    if it.ty == 'ndarray' and it.axes and it.axes[0] == 'xyz' and it.litconst is None and it.colvals is None and it.rows is None:
        # iterating over the three lattice directions: item k belongs to axis k
        base = it.only('geo', 'mono', 'store', 'dtype', 'taint', 'origin', 'deps', 'idx').w(ty='ndarray' if len(it.axes) > 1 else 'float',
                                                                                         axes=tuple(it.axes[1:]), view_of=it.store)
        return [base.w(axis=k) for k in range(3)]
    if it.ty == 'enumerate' and it.inner is not None:
        inner = known_items(it.inner, limit)
        if inner is None:
            return None
        return [AV(ty='tuple', elts=[const(k), e]) for k, e in enumerate(inner)]
    if it.ty == 'zip' and it.inners:
        cols = [known_items(x, limit) for x in it.inners]
        if any(c is None for c in cols) or len({len(c) for c in cols}) != 1:
            return None
        return [AV(ty='tuple', elts=list(row)) for row in zip(*cols)]
    return None


def _strip_sx(item):
    """Items produced by an iteration do not stand for the expression that built the container's elements."""
    if item is None:
        return item
    if item.elts is not None and any(e is not None and e.sx is not None for e in item.elts):
        item = item.w(elts=[e.w(sx=None) if e is not None and e.sx is not None else e for e in item.elts])
    return item.w(sx=None) if item.sx is not None else item


def _running_min(s):
    """`if x < best: best = x` (or `best > x`): (name of best, node of x) else None."""
    if s.orelse or len(s.body) != 1 or not isinstance(s.body[0], ast.Assign) or len(s.body[0].targets) != 1:
        return None
    t, asg = s.test, s.body[0]
    if not (isinstance(t, ast.Compare) and len(t.ops) == 1 and isinstance(asg.targets[0], ast.Name)):
        return None
    best = asg.targets[0].id
    l, r, op = t.left, t.comparators[0], t.ops[0]
    small, big = (l, r) if isinstance(op, (ast.Lt, ast.LtE)) else ((r, l) if isinstance(op, (ast.Gt, ast.GtE)) else (None, None))
    if small is None or not (isinstance(big, ast.Name) and big.id == best):
        return None
    if ast.dump(asg.value) != ast.dump(small):
        return None
    return best, small


def _sx_leaves(node):
    """Name loads and attribute chains on names (self.x.y) inside `node`, outermost first; the node itself is excluded."""
    out = []

    def rec(n, top):
        if isinstance(n, ast.Name):
            if isinstance(n.ctx, ast.Load) and not top:
                out.append(n)
            elif isinstance(n.ctx, ast.Load) and top:
                pass
            return
        if isinstance(n, ast.Attribute) and isinstance(n.ctx, ast.Load) and not top:
            b = n
            while isinstance(b, ast.Attribute):
                b = b.value
            if isinstance(b, ast.Name):
                out.append(n)
                # the chain below may be substituted as well when the outer one is not
                rec(n.value, False)
                return
        for c in ast.iter_child_nodes(n):
            rec(c, False)
    rec(node, True)
    if isinstance(node, ast.Name):
        return []
    return out


def const(v):
    ty = type(v).__name__
    if v is None:
        ty = 'None'
    return AV(ty=ty, const=('c', v))


def has_const(av):
    return av is not None and av.const is not None


def cval(av):
    return av.const[1]


def join(a, b):
    if a is b:
        return a
    if a is None:
        return b
    if b is None:
        return a
    fa, fb = a.f, b.f
    # Optional values: None joined with x is "x, maybe None"
    if fa.get('ty') == 'None' and fb.get('ty') != 'None':
        return b.w(maybe_none=True, const=None)
    if fb.get('ty') == 'None' and fa.get('ty') != 'None':
        return a.w(maybe_none=True, const=None)
    # an empty container literal joined with a filled one: the filled one, possibly empty
    if fa.get('ty') == fb.get('ty') and fa.get('ty') in ('list', 'set', 'dict'):
        if fa.get('elts') == [] and fb.get('elts') != [] and not fa.get('kw'):
            return b.w(maybe_empty=True, const=None, litconst=None)
        if fb.get('elts') == [] and fa.get('elts') != [] and not fb.get('kw'):
            return a.w(maybe_empty=True, const=None, litconst=None)
    if fa.get('ty') == fb.get('ty') == 'ext' and fa.get('qual') != fb.get('qual'):
        # one of several library callables (f = np.degrees if flag else np.asarray): remember the alternatives
        alts = tuple(sorted(set((fa.get('ext_alts') or ((fa.get('qual'),) if fa.get('qual') else ())) +
                                (fb.get('ext_alts') or ((fb.get('qual'),) if fb.get('qual') else ())))))
        return AV(ty='ext', ext_alts=alts)
    if fa.get('ty') == fb.get('ty') == 'ndarray':
        # np.array([]) joined with a computed array: the computed one, possibly empty
        if fa.get('litconst') == ('c', []) and fb.get('litconst') != ('c', []):
            return b.w(maybe_empty=True)
        if fb.get('litconst') == ('c', []) and fa.get('litconst') != ('c', []):
            return a.w(maybe_empty=True)
    if fa.get('ty') == fb.get('ty') == 'dict':
        # an empty dict / Counter() joined with a filled one: the filled one, possibly empty
        if fa.get('empty_init') and not fb.get('empty_init'):
            return b.w(maybe_empty=True)
        if fb.get('empty_init') and not fa.get('empty_init'):
            return a.w(maybe_empty=True)
    if fa.get('ty') == fb.get('ty') == 'set':
        if fa.get('empty_init') and not fb.get('empty_init'):
            return b.w(maybe_empty=True)
        if fb.get('empty_init') and not fa.get('empty_init'):
            return a.w(maybe_empty=True)
    out = {}
    for k in set(fa) | set(fb):
        va, vb = fa.get(k), fb.get(k)
        if k in UNION:
            out[k] = (va or frozenset()) | (vb or frozenset())
        elif k in ('minwidth', 'pair_width'):
            out[k] = va if va is not None else vb
        elif k == 'maybe_none' or k == 'maybe_empty':
            if va or vb:
                out[k] = True
        elif va is None or vb is None:
            if k == 'valset':
                pass
            continue
        elif k == 'elts':
            if len(va) == len(vb):
                out[k] = [join(x, y) for x, y in zip(va, vb)]
        elif k in ('kw', 'cols'):
            out[k] = {n: join(va.get(n), vb.get(n)) for n in list(va) + [x for x in vb if x not in va]}
        elif k == 'elem':
            out[k] = join(va, vb)
        elif k == 'valset':
            out[k] = va | vb
        else:
            try:
                same = va == vb
            except Exception:
                same = va is vb
            if same is True:
                out[k] = va
            elif k == 'const':
                # two different constants: keep the finite set
                try:
                    out['valset'] = frozenset([va[1], vb[1]]) | (fa.get('valset') or frozenset()) | (fb.get('valset') or frozenset())
                except TypeError:
                    pass
            elif k == 'idx':
                members = frozenset((va[1] if va[0] == 'JOIN' else frozenset([va])) | (vb[1] if vb[0] == 'JOIN' else frozenset([vb])))
                out['idx'] = ('JOIN', members)
            elif k == 'oid':
                out['oid'] = min(va, vb)
                out['oids'] = frozenset([va, vb]) | (fa.get('oids') or frozenset()) | (fb.get('oids') or frozenset())
            elif k == 'geo':
                g = geo_join(va, vb)
                if g is not None:
                    out['geo'] = g
                else:
                    out['geo_conflict'] = frozenset([va, vb]) | (fa.get('geo_conflict') or frozenset()) | (fb.get('geo_conflict') or frozenset())
    if 'const' in out and 'valset' in out:
        out.pop('valset')
    r = AV()
    r.f = out
    return r


_FRAC_ORDER = {'W': 0, 'C': 1, 'N': 2}
_FDIFF_ORDER = {'MI': 0, 'CW': 1, 'W1': 2, 'W2': 3, 'CUM': 4, 'ANY': 5}


def geo_join(a, b):
    """Least upper bound of two geometry kinds where one exists (weaker wrapping / reduction claim)."""
    if a[0] == b[0] == 'FRAC':
        return a if _FRAC_ORDER.get(a[1], 9) >= _FRAC_ORDER.get(b[1], 9) else b
    if a[0] == b[0] == 'FDIFF':
        if a[1] in ('W1', 'W2', 'CUM') or b[1] in ('W1', 'W2', 'CUM'):
            if a[:2] == b[:2]:
                return a if len(a) <= len(b) else b
            return ('FDIFF', 'ANY')
        if a[1] == 'MEAN' or b[1] == 'MEAN':
            return ('FDIFF', 'ANY')
        return a if _FDIFF_ORDER.get(a[1], 9) >= _FDIFF_ORDER.get(b[1], 9) else b
    if a[0] == b[0] == 'CART' and a[1] == b[1]:
        return ('CART', a[1], 'pos' if a[2] == b[2] == 'pos' else 'vec')
    return None


def join_all(vals):
    out = None
    for v in vals:
        out = join(out, v)
    return out if out is not None else TOP


class State:
    __slots__ = ('env', 'heap')

    def __init__(self, env=None, heap=None):
        self.env = env if env is not None else {}
        self.heap = heap if heap is not None else {}

    def copy(self):
        return State(dict(self.env), {k: dict(v) for k, v in self.heap.items()})


def join_heap(ha, hb):
    if ha is hb:
        return ha
    heap = {}
    for o in set(ha) | set(hb):
        da, db = ha.get(o), hb.get(o)
        if da is None:
            heap[o] = dict(db)
        elif db is None:
            heap[o] = dict(da)
        else:
            heap[o] = {k: join(da.get(k), db.get(k)) for k in set(da) | set(db)}
    return heap


def join_state(a, b):
    if a is None:
        return b
    if b is None:
        return a
    env = {}
    for k in set(a.env) | set(b.env):
        va, vb = a.env.get(k), b.env.get(k)
        env[k] = join(va, vb) if (va is not None and vb is not None) else (va or vb).w(maybe_unbound=True)
    return State(env, join_heap(a.heap, b.heap))


def state_sig(st):
    def s(av):
        return repr(av)
    return (tuple(sorted((k, s(v)) for k, v in st.env.items())),
            tuple(sorted(((str(o), tuple(sorted((k, s(v)) for k, v in d.items()))) for o, d in st.heap.items()))))


class Frame:
    def __init__(self, fn: FunctionInfo | None, module, st: State, closure=None):
        self.fn = fn
        self.module = module
        self.st = st
        self.returns = []  # (AV, heap)
        self.yields = []  # values produced by `yield` (generator functions)
        self.loops = []
        self.closure = closure  # enclosing Frame for nested functions
        self.self_av = None


class Interp:
    MAX_DEPTH = 14
    MAX_STEPS = 400000

    def __init__(self, project: Project, model):
        self.p = project
        self.model = model
        model.interp = self
        self.values = {}  # id(node) -> AV joined over all evaluations
        self.last = {}  # id(node) -> AV of the most recent evaluation
        self._sx_cache = {}
        self.cur_stmt = None
        self._sx_names = {}
        self.node_fn = {}  # id(node) -> FunctionInfo in which it was evaluated
        self.events = []
        self.stack = []  # (FunctionInfo, call node)
        self.steps = 0
        self._oid = itertools.count(1)
        self.notes = []  # unmodelled constructs met
        self.evaluated = set()  # qualnames evaluated
        self._modconst = {}

    # ------------------------------------------------------------------ events / notes
    def emit(self, tag, node, **payload):
        self.events.append(dict(tag=tag, node=node, where=self.stack[-1][0] if self.stack else None,
                                ctx=[f.qualname for f, _ in self.stack], **payload))

    def note(self, what, node=None):
        fn = self.stack[-1][0] if self.stack else None
        self.notes.append((what, fn.qualname if fn else None, getattr(node, 'lineno', None)))

    def new_obj(self, st, cls: ClassInfo | str, symbolic=False, **facets):
        oid = next(self._oid)
        st.heap[oid] = {}
        q = cls.qualname if isinstance(cls, ClassInfo) else cls
        return AV(ty='obj', cls=q, oid=oid, symbolic=symbolic or None, **facets)

    # ------------------------------------------------------------------ entry points
    def run_entry(self, qualname, args=None, self_av=None, st=None):
        """Evaluate a function with symbolic (annotation-derived) arguments. Returns (AV, State)."""
        fi = self.p.fn(qualname)
        st = st or State()
        args = dict(args or {})
        if fi.is_plot_backend:
            args.setdefault('module', AV(ty='plotmodule'))
        if fi.cls is not None and not fi.is_staticmethod and self_av is None:
            if fi.is_classmethod:
                self_av = AV(ty='class', cls=fi.cls.qualname)
            else:
                self_av = self.model.symbolic_instance(self, st, fi.cls)
        self.entry_self = self_av
        ret = self.call_function(fi, [], args, st, self_av=self_av, node=None, symbolic_missing=True)
        return ret, st

    # ------------------------------------------------------------------ calls
    def call_function(self, fi: FunctionInfo, args, kwargs, st: State, self_av=None, node=None,
                      symbolic_missing=False, closure=None):
        self.steps += 1
        if self.steps > self.MAX_STEPS:
            raise AnalysisError('abstract interpretation budget exceeded')
        if len(self.stack) >= self.MAX_DEPTH or sum(1 for f, _ in self.stack if f is fi) >= 2:
            self.note(f'depth/recursion cut at {fi.qualname}', node)
            return self.model.from_annotation(self, st, fi.node.returns, fi.module)
        a = fi.node.args
        env = {}
        params = [x for x in a.posonlyargs + a.args]
        defaults = [None] * (len(params) - len(a.defaults)) + list(a.defaults)
        pos = list(args)
        bound_self = False
        if fi.cls is not None and not fi.is_staticmethod and params and fi.parent is None:
            if self_av is None and pos and not fi.is_classmethod and not symbolic_missing:
                self_av = pos.pop(0)  # Class.method(obj, ...): the unbound form, obj is self
            env[params[0].arg] = self_av if self_av is not None else TOP
            params = params[1:]
            defaults = defaults[1:]
            bound_self = True
        kwargs = dict(kwargs)
        # a **mapping argument at the call site: distribute unknown keywords later
        star_kw = kwargs.pop('**', None)
        for prm, dflt in zip(params, defaults):
            if pos:
                env[prm.arg] = pos.pop(0)
            elif prm.arg in kwargs:
                env[prm.arg] = kwargs.pop(prm.arg)
            elif star_kw is not None and star_kw.kw and prm.arg in star_kw.kw:
                env[prm.arg] = star_kw.kw[prm.arg]
            elif dflt is not None:
                env[prm.arg] = self._default(fi, prm, dflt, st, symbolic_missing)
            else:
                env[prm.arg] = self._param_from_annotation(fi, prm, st)
        if a.vararg:
            env[a.vararg.arg] = AV(ty='tuple', elts=list(pos))
        for prm, dflt in zip(a.kwonlyargs, a.kw_defaults):
            if prm.arg in kwargs:
                env[prm.arg] = kwargs.pop(prm.arg)
            elif star_kw is not None and star_kw.kw and prm.arg in star_kw.kw:
                env[prm.arg] = star_kw.kw[prm.arg]
            elif dflt is not None:
                env[prm.arg] = self._default(fi, prm, dflt, st, symbolic_missing)
            else:
                env[prm.arg] = self._param_from_annotation(fi, prm, st)
        if a.kwarg:
            kw = dict(kwargs)
            if star_kw is not None and star_kw.kw:
                for k, v in star_kw.kw.items():
                    kw.setdefault(k, v)
            env[a.kwarg.arg] = AV(ty='dict', kw=kw, open_kw=True if (star_kw is not None or symbolic_missing) else None)
        # tag parameters with their origin (dependency facet)
        for k, v in list(env.items()):
            if v is not None:
                env[k] = v.w(deps=(v.deps or frozenset()) | {f'param:{fi.name}.{k}'},
                             origin=(v.origin or frozenset()) | {f'{fi.name}.{k}'})
        fst = State(env, st.heap)
        frame = Frame(fi, fi.module, fst, closure=closure)
        frame.self_av = self_av
        self.stack.append((fi, node))
        self.evaluated.add(fi.qualname)
        try:
            end = self.exec_block(fi.node.body, frame, fst)
        finally:
            self.stack.pop()
        rets = list(frame.returns)
        if end is not None:
            rets.append((const(None), end.heap))
        if fi.is_generator:
            # a generator function: the call yields the joined element; the body is treated as run to completion
            heap = None
            for _, h in rets:
                heap = h if heap is None else join_heap(heap, h)
            if heap is not None:
                st.heap = heap
            el = join_all(frame.yields) if frame.yields else None
            # a stage of a generator pipeline: remember the stages the items went through (their yield guards filter the items)
            upstream = next((v.pipeline for v in list(env.values()) if v is not None and v.ty in ('generator', 'list') and v.pipeline), ())
            if not upstream and getattr(frame, 'iter_pipelines', None):
                upstream = frame.iter_pipelines[0]  # the generator iterates another pipeline it built itself
            return AV(ty='generator', elem=el, maybe_empty=True, fresh=True, deps=el.deps if el is not None else None, genfn=fi.qualname,
                      pipeline=tuple(upstream) + (('yield', fi.qualname),))
        if not rets:
            return AV(ty='NoReturn')
        val = join_all(v for v, _ in rets)
        heap = None
        for _, h in rets:
            heap = h if heap is None else join_heap(heap, h)
        st.heap = heap
        if fi.is_cached:
            val = val.w(prov=(val.prov or frozenset()) | {f'cached:{fi.qualname}'})
        return val

    def _default(self, fi, prm, dflt, st, symbolic):
        dv = self.eval_in_module(dflt, fi.module, st).w(is_default=True)
        if symbolic and prm.annotation is None and has_const(dv) and isinstance(cval(dv), (int, float)) and not isinstance(cval(dv), bool):
            # an unannotated numeric parameter of an entry point stands for any number, not for its default
            name = 'int' if isinstance(cval(dv), int) else 'float'
            av = self.model.from_annotation(self, st, ast.Name(id=name, ctx=ast.Load()), fi.module, name=prm.arg, fn=fi)
            return av.w(is_param=f'{fi.qualname}:{prm.arg}', default=dv)
        if not symbolic or prm.annotation is None:
            return dv
        # entry point analysed for every caller: the parameter is any value of its annotated type
        av = self._param_from_annotation(fi, prm, st)
        if av.ty is None and not av.union and av.anno is None:
            return dv
        if dv.ty == 'None':
            av = av.w(maybe_none=True)
        if dv.ty == 'func':
            return dv
        return av.w(default=dv)

    def _param_from_annotation(self, fi, prm, st):
        av = self.model.from_annotation(self, st, prm.annotation, fi.module, name=prm.arg, fn=fi)
        return av.w(is_param=f'{fi.qualname}:{prm.arg}')

    def eval_in_module(self, node, module, st):
        fr = Frame(None, module, State({}, st.heap))
        return self.eval(node, fr, fr.st)

    def module_global(self, module, name, st):
        """Value of a module-level name: import, function, class, or simple assignment."""
        if name in module.functions:
            return AV(ty='func', fn=module.functions[name])
        if name in module.classes:
            return AV(ty='class', cls=module.classes[name].qualname)
        if name in module.assigns:
            key = (module.name, name)
            if key in self._modconst:
                return self._modconst[key]
            self._modconst[key] = TOP
            v = self.eval_in_module(module.assigns[name], module, st)
            v = v.w(deps=(v.deps or frozenset()) | {f'global:{module.name}.{name}'}, gname=f'{module.name}.{name}')
            v = self.model.global_constant(v, module, name)
            self._modconst[key] = v
            return v
        if name in module.imports:
            return self.qual_value(module.imports[name], st)
        return None

    def qual_value(self, qual, st):
        q = self.p.canonical(qual)
        if q in self.p.functions:
            return AV(ty='func', fn=self.p.functions[q])
        if q in self.p.classes:
            return AV(ty='class', cls=q)
        if q in self.p.modules:
            return AV(ty='module', mod=q)
        # attribute of a package module (constant)?
        mod, _, name = q.rpartition('.')
        if mod in self.p.modules:
            v = self.module_global(self.p.modules[mod], name, st)
            if v is not None:
                return v
        return AV(ty='ext', qual=q)

    # ------------------------------------------------------------------ statements
    def exec_block(self, stmts, frame, st):
        for s in stmts:
            if st is None:
                return None
            st = self.exec_stmt(s, frame, st)
        return st

    def exec_stmt(self, s, frame, st):
        self.steps += 1
        if self.steps > self.MAX_STEPS:
            raise AnalysisError('abstract interpretation budget exceeded')
        m = getattr(self, 'x_' + type(s).__name__, None)
        if m is None:
            self.note(f'unmodelled statement {type(s).__name__}', s)
            return st
        return m(s, frame, st)

    def x_Expr(self, s, frame, st):
        self.eval(s.value, frame, st)
        return st

    def x_Pass(self, s, frame, st):
        return st

    def x_Global(self, s, frame, st):
        return st

    x_Nonlocal = x_Global

    def x_Import(self, s, frame, st):
        for a in s.names:
            if a.asname:
                st.env[a.asname] = self.qual_value(a.name, st)
            else:
                head = a.name.split('.')[0]
                st.env[head] = self.qual_value(head, st)
        return st

    def x_ImportFrom(self, s, frame, st):
        is_pkg = frame.module.path.endswith('__init__.py')
        base = self.p.resolve_from(frame.module.name, is_pkg, s.module, s.level)
        for a in s.names:
            st.env[a.asname or a.name] = self.qual_value(f'{base}.{a.name}' if base else a.name, st)
        return st

    def x_FunctionDef(self, s, frame, st):
        qn = None
        if frame.fn is not None:
            qn = f'{frame.fn.qualname}.<locals>.{s.name}'
        fi = self.p.functions.get(qn)
        if fi is None:
            fi = FunctionInfo(qn or s.name, s.name, s, frame.module, None, frame.fn, [])
        fv = AV(ty='func', fn=fi, closure=frame)
        if frame.fn is not None and s.decorator_list:
            # decorators of a nested function: functools.lru_cache / functools.wraps are applied (others leave the function as it is)
            for d in reversed(s.decorator_list):
                dv = self.eval(d, frame, st)
                if dv is not None and (dv.ty == 'decorator' or (dv.ty == 'ext' and (dv.qual or '').startswith('functools.'))):
                    fv = self.call_value(dv, [fv], {}, frame, st, d if isinstance(d, ast.Call) else ast.copy_location(ast.Call(func=d, args=[], keywords=[]), d))
        st.env[s.name] = fv
        return st

    def x_ClassDef(self, s, frame, st):
        st.env[s.name] = TOP
        return st

    def x_Return(self, s, frame, st):
        v = self.eval(s.value, frame, st) if s.value is not None else const(None)
        frame.returns.append((v, st.heap))
        self.values_store(s, v, frame)
        return None

    def x_Raise(self, s, frame, st):
        if s.exc is not None:
            self.eval(s.exc, frame, st)
        return None

    def x_Assert(self, s, frame, st):
        self.eval(s.test, frame, st)
        t, _ = self.refine(s.test, frame, st)
        if s.msg is not None and t is not None:
            pass
        return t if t is not None else None

    def x_Delete(self, s, frame, st):
        for t in s.targets:
            if isinstance(t, ast.Subscript):
                base = self.eval(t.value, frame, st)
                idx = self.eval(t.slice, frame, st)
                self.model.on_store(self, st, frame, 'del', t, base, idx, None)
            elif isinstance(t, ast.Name):
                st.env.pop(t.id, None)
        return st

    def x_Assign(self, s, frame, st):
        v = self.eval(s.value, frame, st)
        for t in s.targets:
            self.assign(t, v, frame, st, s)
        return st

    def x_AnnAssign(self, s, frame, st):
        if s.value is not None:
            v = self.eval(s.value, frame, st)
            self.assign(s.target, v, frame, st, s)
        return st

    def x_AugAssign(self, s, frame, st):
        self.cur_stmt = s
        cur = self.eval(s.target, frame, st)
        r = self.eval(s.value, frame, st)
        v = self.model.binop(self, st, s.op, cur, r, s)
        if isinstance(s.target, ast.Subscript):
            # the object written in place is the container, not the selected element
            self.model.on_store(self, st, frame, 'aug', s.target, self.last.get(id(s.target.value), cur),
                                self.last.get(id(s.target.slice)), v, stmt=s)
        elif isinstance(s.target, ast.Attribute):
            self.model.on_store(self, st, frame, 'aug', s.target, cur, None, v, stmt=s)
        else:
            self.model.on_store(self, st, frame, 'aug', s.target, cur, None, v, stmt=s)
        if isinstance(s.target, ast.Name):
            st.env[s.target.id] = v
            self.values_store(s.target, v, frame)
        elif isinstance(s.target, ast.Subscript):
            # element update of a container: keep container, join element facets where meaningful
            base = self.eval(s.target.value, frame, st)
            idx = self.eval(s.target.slice, frame, st)
            self.model.store_subscript(self, st, frame, s.target, base, idx, v, aug=True)
        elif isinstance(s.target, ast.Attribute):
            self.assign(s.target, v, frame, st, s)
        return st

    def assign(self, t, v, frame, st, stmt=None):
        if isinstance(t, ast.Name):
            st.env[t.id] = v
            self.values_store(t, v, frame)
        elif isinstance(t, (ast.Tuple, ast.List)):
            parts = self.model.unpack(self, st, v, len(t.elts), t, stmt)
            for e, pv in zip(t.elts, parts):
                if isinstance(e, ast.Starred):
                    self.assign(e.value, TOP, frame, st, stmt)
                else:
                    self.assign(e, pv, frame, st, stmt)
        elif isinstance(t, ast.Attribute):
            base = self.eval(t.value, frame, st)
            self.model.on_store(self, st, frame, 'attr', t, base, None, v, stmt=stmt)
            v = self.model.on_attr_assign(self, base, t.attr, v)
            if v.sx is not None:
                # the defining expression is meaningful only inside the function that made the assignment
                v = v.w(sx_fn=frame.fn.qualname if (frame is not None and frame.fn is not None) else None)
            if base.ty == 'obj' and base.oid in st.heap:
                st.heap[base.oid][t.attr] = v
            self.values_store(t, v, frame)
        elif isinstance(t, ast.Subscript):
            base = self.eval(t.value, frame, st)
            idx = self.eval(t.slice, frame, st)
            self.model.on_store(self, st, frame, 'sub', t, base, idx, v, stmt=stmt)
            self.model.store_subscript(self, st, frame, t, base, idx, v, aug=False)
        elif isinstance(t, ast.Starred):
            self.assign(t.value, TOP, frame, st, stmt)

    def x_If(self, s, frame, st):
        tv = self.eval(s.test, frame, st)
        t_st, f_st = self.refine(s.test, frame, st)
        a = self.exec_block(s.body, frame, t_st) if t_st is not None else None
        b = self.exec_block(s.orelse, frame, f_st) if f_st is not None else None
        out = join_state(a, b)
        mm = _running_min(s)
        if mm is not None and out is not None and mm[0] in out.env:
            # `if x < best: best = x` is best = min(best, x)
            xv, bv = self.last.get(id(mm[1])), st.env.get(mm[0])
            w = next((v.pair_width or v.minwidth for v in (xv, bv) if v is not None and (v.pair_width is not None or v.minwidth is not None)), None)
            if w is not None:
                out.env[mm[0]] = out.env[mm[0]].w(minwidth=w, pair_width=None)
        if a is not None and b is not None:
            # a scalar bound differently on the two branches stands for the conditional expression (alias-resilient text)
            tsx = self.sx(s.test)
            for k, va in a.env.items():
                vb = b.env.get(k)
                if vb is None or va.sx is None or vb.sx is None or va.sx == vb.sx or va.ty not in ('float', 'int', None) or vb.ty not in ('float', 'int', None):
                    continue
                txt = f'({va.sx}) if ({tsx}) else ({vb.sx})'
                if len(txt) < 600 and k in out.env:
                    out.env[k] = out.env[k].w(sx=txt)
        return out

    def x_While(self, s, frame, st):
        frame.loops.append({'breaks': [], 'continues': []})
        head = st
        exit_st = None
        self.fix_loops = getattr(self, 'fix_loops', 0) + 1
        for it in range(6):
            self.eval(s.test, frame, head)
            t_st, f_st = self.refine(s.test, frame, head)
            exit_st = join_state(exit_st, f_st)
            if t_st is None:
                break
            end = self.exec_block(s.body, frame, t_st)
            ctx = frame.loops[-1]
            nxt = end
            for c in ctx['continues']:
                nxt = join_state(nxt, c)
            ctx['continues'] = []
            if nxt is None:
                break
            new_head = join_state(head, nxt)
            if state_sig(new_head) == state_sig(head):
                break
            head = new_head
        self.fix_loops -= 1
        ctx = frame.loops.pop()
        out = exit_st
        if s.orelse and out is not None:
            out = self.exec_block(s.orelse, frame, out)
        for b in ctx['breaks']:
            out = join_state(out, b)
        return out

    def x_For(self, s, frame, st):
        it = self.eval(s.iter, frame, st)
        if it is not None and it.pipeline:
            frame.iter_pipelines = getattr(frame, 'iter_pipelines', []) + [it.pipeline]
        items = known_items(it)
        if items is not None and not s.orelse:
            # a short sequence of known elements (per-axis tuples, enumerate / zip of them): the body runs once per element
            frame.loops.append({'breaks': [], 'continues': []})
            cur = st
            for item in items:
                if cur is None:
                    break
                body_st = cur.copy()
                self.assign(s.target, item, frame, body_st, s)
                end = self.exec_block(s.body, frame, body_st)
                ctx = frame.loops[-1]
                for c in ctx['continues']:
                    end = join_state(end, c)
                ctx['continues'] = []
                cur = end
            ctx = frame.loops.pop()
            out = cur
            for b in ctx['breaks']:
                out = join_state(out, b)
            return out
        frame.loops.append({'breaks': [], 'continues': []})
        head = st  # state at loop head (before binding the target)
        skip = st.copy()  # zero iterations
        self.fix_loops = getattr(self, 'fix_loops', 0) + 1
        for i in range(6):
            body_st = head.copy()
            item = _strip_sx(self.model.iter_item(self, body_st, it, s.iter, s))
            self.assign(s.target, item, frame, body_st, s)
            end = self.exec_block(s.body, frame, body_st)
            ctx = frame.loops[-1]
            nxt = end
            for c in ctx['continues']:
                nxt = join_state(nxt, c)
            ctx['continues'] = []
            if nxt is None:
                break
            new_head = join_state(head, nxt)
            if state_sig(new_head) == state_sig(head):
                head = new_head
                break
            head = new_head
        self.fix_loops -= 1
        ctx = frame.loops.pop()
        out = join_state(skip, head) if self.model.maybe_empty_iter(it) else head
        if s.orelse and out is not None:
            out = self.exec_block(s.orelse, frame, out)
        for b in ctx['breaks']:
            out = join_state(out, b)
        return out

    x_AsyncFor = x_For

    def x_Break(self, s, frame, st):
        if frame.loops:
            frame.loops[-1]['breaks'].append(st)
        return None

    def x_Continue(self, s, frame, st):
        if frame.loops:
            frame.loops[-1]['continues'].append(st)
        return None

    def x_With(self, s, frame, st):
        for it in s.items:
            v = self.eval(it.context_expr, frame, st)
            if it.optional_vars is not None:
                self.assign(it.optional_vars, self.model.enter_context(self, st, v, it.context_expr), frame, st, s)
        return self.exec_block(s.body, frame, st)

    x_AsyncWith = x_With

    def x_Try(self, s, frame, st):
        pre = st.copy()
        end = self.exec_block(s.body, frame, st)
        # a handler may start from any intermediate state: approximate by join(pre, end)
        hstart = join_state(pre, end.copy() if end is not None else None)
        if end is not None and s.orelse:
            end = self.exec_block(s.orelse, frame, end)
        out = end
        for h in s.handlers:
            hst = hstart.copy()
            if h.type is not None:
                self.eval(h.type, frame, hst)
            if h.name:
                hst.env[h.name] = AV(ty='exception')
            out = join_state(out, self.exec_block(h.body, frame, hst))
        if s.finalbody and out is not None:
            out = self.exec_block(s.finalbody, frame, out)
        return out

    # ------------------------------------------------------------------ refinement on branches
    def refine(self, test, frame, st):
        """Return (true_state, false_state); a state is None when that edge is infeasible."""
        v = self.last.get(id(test))
        if v is None:
            v = self.eval(test, frame, st)
        truth = self.model.truth(v)
        if truth is True:
            return st, None
        if truth is False:
            return None, st
        t_st, f_st = st.copy(), st.copy()
        self.model.refine(self, test, frame, t_st, True)
        self.model.refine(self, test, frame, f_st, False)
        return t_st, f_st

    # ------------------------------------------------------------------ expressions
    def values_store(self, node, v, frame):
        k = id(node)
        old = self.values.get(k)
        self.values[k] = join(old, v) if old is not None else v
        self.last[k] = v
        if frame is not None and frame.fn is not None:
            self.node_fn[k] = frame.fn

    def eval(self, node, frame, st) -> AV:
        if node is None:
            return TOP
        m = getattr(self, 'e_' + type(node).__name__, None)
        if m is None:
            self.note(f'unmodelled expression {type(node).__name__}', node)
            v = TOP
        else:
            v = m(node, frame, st)
            if v is None:
                v = TOP
            if type(node) in _SX_NODES and v.const is None and v.ty in _SX_TYS:
                if isinstance(node, ast.Attribute) and v.sx is not None and self._self_property_sx(node, v, frame):
                    pass  # self.<property>: stands for the property's own expression over self
                elif not (isinstance(node, ast.Attribute) and v.sx is not None and self._is_data_attr(node, st)
                          and v.sx_fn is not None and frame is not None and frame.fn is not None and v.sx_fn == frame.fn.qualname):
                    v = v.w(sx=self.sx_build(node))
        self.values_store(node, v, frame)
        return v

    def _own_text(self, node):
        t = self._sx_cache.get(('own', id(node)))
        if t is None:
            t = self._sx_cache[('own', id(node))] = norm_text(node)
        return t

    def _self_property_sx(self, node, v, frame):
        """`self.<name>` where <name> is a property of the package whose returned expression mentions only `self` (and imported
        modules): inside a method of the same object that expression means the same thing."""
        if not (isinstance(node.value, ast.Name) and node.value.id == 'self' and frame is not None and frame.fn is not None and frame.fn.cls is not None):
            return False
        key = ('selfprop', frame.fn.cls.qualname, node.attr, v.sx)
        hit = self._sx_cache.get(key)
        if hit is None:
            hit = False
            fi = self.p.find_method(frame.fn.cls, node.attr)
            if fi is not None and fi.is_property and len(v.sx) < 200:
                try:
                    tree = ast.parse(v.sx, mode='eval')
                    names = {n.id for n in ast.walk(tree) if isinstance(n, ast.Name)}
                    hit = 'self' in names and all(n == 'self' or n in frame.module.imports for n in names)
                except SyntaxError:
                    hit = False
            self._sx_cache[key] = hit
        return hit

    def _is_data_attr(self, node, st):
        b = self.last.get(id(node.value))
        return b is not None and b.ty == 'obj' and b.oid in st.heap and node.attr in st.heap[b.oid]

    # ---- symbolic expression text: alias-resilient identity of values (names bound to an expression stand for that expression)
    def sx(self, node):
        if node is None:
            return None
        v = self.last.get(id(node))
        if v is not None and v.sx is not None:
            return v.sx
        return norm_text(node)

    def sx_build(self, node):
        subs = None
        names = self._sx_names.get(id(node))
        if names is None:
            names = self._sx_names[id(node)] = _sx_leaves(node)
        for ch in names:
            cv = self.last.get(id(ch))
            if cv is not None and cv.sx is not None:
                own = ch.id if isinstance(ch, ast.Name) else self._own_text(ch)
                if cv.sx != own:
                    if subs is None:
                        subs = {}
                    # long definitions are abbreviated by a digest: identity is kept, the outer structure stays readable
                    if len(cv.sx) <= 160:
                        subs[id(ch)] = cv.sx
                    else:
                        h = 'H' + hashlib.sha1(cv.sx.encode()).hexdigest()[:12]
                        SX_LONG[h] = cv.sx
                        subs[id(ch)] = h
        if not subs:
            t = self._sx_cache.get(id(node))
            if t is None:
                t = self._sx_cache[id(node)] = norm_text(node)
            return t
        key = (id(node), tuple(sorted(subs.items())))
        hit = self._sx_cache.get(key)
        if hit is not None:
            return hit

        def sub(n):
            if isinstance(n, (ast.Name, ast.Attribute)) and id(n) in subs:
                txt = subs[id(n)]
                tree = _SX_PARSE.get(txt)
                if tree is None:
                    try:
                        tree = ast.parse(txt, mode='eval').body
                    except SyntaxError:
                        tree = ast.Name(id='H' + hashlib.sha1(txt.encode()).hexdigest()[:10], ctx=ast.Load())
                    _SX_PARSE[txt] = tree
                return tree
            if isinstance(n, ast.AST):
                new = type(n)()
                for f, val in ast.iter_fields(n):
                    setattr(new, f, sub(val))
                return new
            if isinstance(n, list):
                return [sub(x) for x in n]
            return n
        try:
            out = ast.unparse(sub(node))
        except Exception:
            out = norm_text(node)
        if len(out) > 2000:
            out = 'H' + hashlib.sha1(out.encode()).hexdigest()[:12]
        self._sx_cache[key] = out
        return out

    def value_of(self, node):
        return self.values.get(id(node))

    def cur(self, node):
        """Value of the most recent evaluation of `node` (the joined value only when it was never evaluated in this run)."""
        v = self.last.get(id(node))
        return v if v is not None else self.values.get(id(node))

    def e_Constant(self, n, frame, st):
        return const(n.value)

    def e_JoinedStr(self, n, frame, st):
        for v in n.values:
            if isinstance(v, ast.FormattedValue):
                self.eval(v.value, frame, st)
        deps = frozenset()
        for v in n.values:
            if isinstance(v, ast.FormattedValue):
                d = self.values.get(id(v.value))
                if d is not None and d.deps:
                    deps |= d.deps
        return AV(ty='str', deps=deps)

    def e_FormattedValue(self, n, frame, st):
        return self.eval(n.value, frame, st)

    def lookup(self, name, frame, st):
        if name in st.env:
            return st.env[name]
        fr = frame.closure
        while fr is not None:
            if name in fr.st.env:
                return fr.st.env[name]
            fr = fr.closure
        v = self.module_global(frame.module, name, st)
        if v is not None:
            return v
        return self.model.builtin(self, name)

    def e_Name(self, n, frame, st):
        v = self.lookup(n.id, frame, st)
        if v is None:
            self.note(f'unresolved name {n.id}', n)
            return TOP
        return v

    def e_Attribute(self, n, frame, st):
        base = self.eval(n.value, frame, st)
        return self.get_attr(base, n.attr, frame, st, n)

    def get_attr(self, base, attr, frame, st, node):
        ty = base.ty
        if ty == 'ext':
            return self.model.attr(self, st, base, attr, node)
        if ty == 'module':
            return self.qual_value(f'{base.mod}.{attr}', st)
        if ty == 'obj':
            return self.obj_attr(base, attr, frame, st, node)
        if ty == 'class':
            ci = self.p.classes.get(base.cls)
            if ci is not None and ci.is_namedtuple and attr == '_make':
                return AV(ty='opcaller', kind='nt_make', cls=base.cls)  # NamedTuple._make(iterable): the record built from the items in order
            if ci is not None:
                fi = self.p.find_method(ci, attr)
                if fi is not None:
                    if fi.is_classmethod:
                        return AV(ty='func', fn=fi, bound=base)
                    return AV(ty='func', fn=fi)
                for c in self.p.mro(ci)[0]:
                    if attr in c.class_attrs:
                        return self.eval_in_module(c.class_attrs[attr], c.module, st)
                r = self.model.class_attr_ext(self, st, ci, base, attr, node)
                if r is not None:
                    return r
            return TOP
        if ty == 'super':
            return self.model.super_attr(self, st, base, attr, node)
        if attr == '__getitem__' and ty in ('list', 'tuple', 'dict', 'ndarray', 'Series', 'DataFrame', 'str') and isinstance(node, ast.Attribute):
            # seq.__getitem__ as a function: f(k) is seq[k]
            return AV(ty='opcaller', kind='getitem', recv=base, recv_node=node.value, deps=base.deps)
        return self.model.attr(self, st, base, attr, node)

    def obj_attr(self, base, attr, frame, st, node):
        ci = self.p.classes.get(base.cls)
        if base.oid is None:
            base = self.new_obj(st, base.cls or 'object', symbolic=True)
        heap = st.heap.setdefault(base.oid, {})
        if attr == '__class__':
            return AV(ty='class', cls=base.cls)
        if attr == '_asdict' and ci is not None and ci.is_namedtuple:
            return AV(ty='opcaller', kind='nt_asdict', recv=base)  # record._asdict(): field name -> value
        if attr == '__dict__':
            # the instance dictionary: used for private per-object caches
            return AV(ty='dict', open_kw=True, instance_dict_of=base.oid, deps=base.deps)
        if base.oids and not attr.startswith('#'):
            vals = [st.heap[o][attr] for o in base.oids if o in st.heap and attr in st.heap[o]]
            if len(vals) > 1:
                v = join_all(vals)
                self.emit('attr_read', node, obj=base, attr=attr, value=v)
                return v
        if attr in heap:
            self.emit('attr_read', node, obj=base, attr=attr, value=heap[attr])
            return heap[attr]
        if base.nt_fields and attr in base.nt_fields:
            return base.nt_fields[attr]  # immutable record built elsewhere (module-level table): its fields travel with the value
        if ci is None:
            return TOP
        fi = self.p.find_method(ci, attr)
        if fi is not None:
            if fi.is_property:
                self.emit('property_read', node, obj=base, prop=fi.qualname)
                if base.oids and len(base.oids) > 1:
                    # one of several objects: the property of each, joined
                    vals = [self.call_function(fi, [], {}, st, self_av=base.w(oid=o, oids=None), node=node) for o in sorted(base.oids) if o in st.heap]
                    if vals:
                        return join_all(vals)
                return self.call_function(fi, [], {}, st, self_av=base, node=node)
            if fi.is_staticmethod:
                return AV(ty='func', fn=fi)
            if fi.is_classmethod:
                return AV(ty='func', fn=fi, bound=AV(ty='class', cls=base.cls))
            return AV(ty='func', fn=fi, bound=base)
        # symbolic instance: populate lazily from __init__ / dataclass fields
        if base.symbolic and not heap.get('#init_done'):
            heap['#init_done'] = const(True)
            self.model.populate_symbolic(self, st, base, ci)
            if attr in st.heap[base.oid]:
                return st.heap[base.oid][attr]
        for c in self.p.mro(ci)[0]:
            if attr in c.class_attrs:
                return self.eval_in_module(c.class_attrs[attr], c.module, st)
        r = self.model.obj_attr_ext(self, st, base, ci, attr, node)
        if r is not None:
            self.emit('attr_read', node, obj=base, attr=attr, value=r)
            return r
        self.note(f'unknown attribute {base.cls}.{attr}', node)
        return TOP

    def e_Call(self, n, frame, st):
        func = self.eval(n.func, frame, st)
        args = []
        for a in n.args:
            if isinstance(a, ast.Starred):
                v = self.eval(a.value, frame, st)
                if v.elts is not None:
                    args.extend(v.elts)
                elif v.ty == 'obj' and v.cls in self.p.classes and self.p.classes[v.cls].is_namedtuple and v.oid in st.heap \
                        and all(f[0] in st.heap[v.oid] for f in self.p.classes[v.cls].fields):
                    args.extend(st.heap[v.oid][f[0]] for f in self.p.classes[v.cls].fields)  # f(*record): the fields in declaration order
                elif v.ty == 'dictvalues' and v.of is not None and v.of.kw and not v.of.open_kw and v.of.elem is not None and len(v.of.kw) <= 16:
                    args.extend(v.of.kw.values())  # f(*d.values()) of a dict with known entries (insertion order)
                else:
                    args.append(AV(star=True, elem=self.model.iter_item(self, st, v, a.value, None), src=v))
            else:
                args.append(self.eval(a, frame, st))
        kwargs = {}
        for k in n.keywords:
            v = self.eval(k.value, frame, st)
            if k.arg is None:
                prev = kwargs.get('**')
                if prev is not None:
                    # f(**a, **b): one combined mapping
                    kwm = dict(prev.kw or {})
                    kwm.update(v.kw or {})
                    unknown = (prev.ty == 'dict' and not prev.kw and prev.ty is not None and not prev.empty_init) or (v.ty == 'dict' and not v.kw and not v.empty_init) \
                        or prev.ty != 'dict' or v.ty != 'dict'
                    v = AV(ty='dict', kw=kwm, open_kw=True if (prev.open_kw or v.open_kw or unknown) else None,
                           deps=(prev.deps or frozenset()) | (v.deps or frozenset()))
                kwargs['**'] = v
            else:
                kwargs[k.arg] = v
        return self.call_value(func, args, kwargs, frame, st, n)

    def call_value(self, func, args, kwargs, frame, st, n):
        ty = func.ty
        if ty == 'func':
            fi = func.fn
            self.emit('call', n, callee=fi.qualname, args=args, kwargs=kwargs, bound=func.bound)
            if fi.is_plot_backend:
                kwargs = dict(kwargs)
                kwargs.setdefault('module', AV(ty='plotmodule'))
            r = self.model.call_pkg_override(self, st, fi, func, args, kwargs, n)
            if r is not None:
                return r
            return self.call_function(fi, args, kwargs, st, self_av=func.bound, node=n, closure=func.closure)
        if ty == 'class':
            return self.construct(func.cls, args, kwargs, frame, st, n)
        if ty == 'ext' and func.qual is None:
            if func.ext_alts:
                outs = []
                for q in func.ext_alts:
                    self.emit('extcall', n, callee=q, args=args, kwargs=kwargs)
                    outs.append(self.model.call_ext(self, st, q, args, kwargs, n, frame))
                return join_all(outs)
            self.note(f'call of unknown callee {norm_text(n.func)[:60]}', n)
            return AV(deps=self.model.deps_of(args, kwargs))
        if ty == 'ext':
            self.emit('extcall', n, callee=func.qual, args=args, kwargs=kwargs)
            return self.model.call_ext(self, st, func.qual, args, kwargs, n, frame)
        if ty == 'extmethod':
            self.emit('extmethod', n, recv=func.recv, name=func.name, args=args, kwargs=kwargs)
            return self.model.call_method(self, st, func.recv, func.name, args, kwargs, n, frame)
        if ty == 'partial':
            # functools.partial(f, *a, **k)(*b, **l) == f(*a, *b, **{**k, **l})
            kw = dict(func.pkwargs or {})
            kw.update(kwargs)
            return self.call_value(func.target, list(func.pargs or []) + list(args), kw, frame, st, n)
        if ty == 'decorator':
            q = func.qual or ''
            if q in ('functools.lru_cache', 'functools.cache') and len(args) == 1 and not kwargs and args[0].ty in ('func', 'lambda', 'partial', 'symfunc', 'lru_cached'):
                return AV(ty='lru_cached', target=args[0], deco_args=list(func.args or []), deps=args[0].deps)
            if q == 'functools.wraps' and len(args) == 1:
                return args[0]  # metadata only
            self.note(f'call of unknown callee {norm_text(n.func)[:60]}', n)
            return AV(deps=self.model.deps_of(args, kwargs))
        if ty == 'lru_cached':
            # the memo table is keyed on the arguments of this call
            self.emit('lru_call', n, target=func.target, args=list(args), kwargs=dict(kwargs), deco_args=func.deco_args)
            return self.call_value(func.target, args, kwargs, frame, st, n)
        if ty == 'weakref' and not args and not kwargs:
            return func.of if func.of is not None else TOP  # dereferencing a weak reference
        if ty == 'symfunc':
            self.emit('symfunc_call', n, name=func.name, args=list(args), kwargs=dict(kwargs))
            return AV(ty=None, symresult=func.name)
        if ty == 'opcaller' and func.kind == 'nt_asdict' and not args:
            flds = dict(st.heap.get(func.recv.oid, {})) if func.recv.oid in st.heap else dict(func.recv.nt_fields or {})
            return AV(ty='dict', kw=flds, fresh=True, deps=func.recv.deps)
        if ty == 'opcaller' and func.kind == 'nt_make' and len(args) == 1 and args[0].elts is not None:
            return self.construct(func.cls, list(args[0].elts), {}, frame, st, n)
        if ty == 'opcaller' and len(args) == 1:
            # operator.methodcaller / attrgetter / itemgetter applied to one object
            obj = args[0]
            if func.kind == 'getitem':
                syn = ast.Subscript(value=func.recv_node, slice=ast.Name(id='_item', ctx=ast.Load()), ctx=ast.Load())
                ast.copy_location(syn, n)
                ast.copy_location(syn.slice, n)
                return self.model.subscript(self, st, func.recv, obj, syn, frame)
            if func.kind in ('item', 'items') and obj.ty in ('Row', 'DataFrame', 'Series', 'ndarray') and isinstance(n, ast.Call) and n.args:
                # itemgetter(k, ...)(row): (row[k], ...)
                outs = []
                for key in ([func.key] if func.kind == 'item' else func.keys):
                    ksrc = ast.Constant(value=cval(key)) if has_const(key) else ast.Name(id='_key', ctx=ast.Load())
                    syn = ast.Subscript(value=n.args[0], slice=ksrc, ctx=ast.Load())
                    ast.copy_location(syn, n)
                    ast.copy_location(ksrc, n)
                    outs.append(self.model.subscript(self, st, obj, key, syn, frame))
                return outs[0] if func.kind == 'item' else AV(ty='tuple', elts=outs, fresh=True, deps=self.model.deps_of(outs, {}))
            if func.kind == 'items':
                return AV(ty='tuple', deps=self.model.deps_of(args, kwargs))
            if func.kind == 'attr':
                return self.get_attr(obj, func.name, frame, st, n)
            if func.kind == 'method':
                m = self.get_attr(obj, func.name, frame, st, n)
                return self.call_value(m, list(func.pargs or []), dict(func.pkwargs or {}), frame, st, n)
            key = func.key
            if obj.elts is not None and has_const(key) and isinstance(cval(key), int) and -len(obj.elts) <= cval(key) < len(obj.elts):
                return obj.elts[cval(key)]
            if obj.ty == 'dict' and obj.kw and has_const(key) and cval(key) in obj.kw:
                return obj.kw[cval(key)]
            return AV(deps=self.model.deps_of(args, kwargs))
        if ty == 'lambda':
            return self.call_lambda(func, args, kwargs, st, n)
        if ty == 'builtin':
            return self.model.call_builtin(self, st, func.name, args, kwargs, n, frame)
        if ty == 'plotfunc':
            self.emit('plotcall', n, name=func.name, args=args, kwargs=kwargs)
            return self.model.call_plot(self, st, func.name, args, kwargs, n)
        self.note(f'call of unknown callee {norm_text(n.func)[:60]}', n)
        return AV(deps=self.model.deps_of(args, kwargs))

    def call_lambda(self, func, args, kwargs, st, n):
        lam = func.node
        env = {}
        for p, a in zip(lam.args.args, args):
            env[p.arg] = a
        for p in lam.args.args[len(args):]:
            env[p.arg] = kwargs.get(p.arg, TOP)
        fr = Frame(func.frame.fn, func.frame.module, State(env, st.heap), closure=func.frame)
        return self.eval(lam.body, fr, fr.st)

    def construct(self, clsq, args, kwargs, frame, st, n):
        ci = self.p.classes.get(clsq)
        if ci is None:
            return self.model.call_ext(self, st, clsq, args, kwargs, n, frame)
        obj = self.new_obj(st, ci, site=norm_text(n)[:80] if n is not None else None)
        obj = obj.w(alloc=(self.stack[-1][0].qualname if self.stack else None), deps=self.model.deps_of(args, kwargs))
        self.emit('construct', n, cls=clsq, args=args, kwargs=kwargs, obj=obj)
        init = self.p.find_method(ci, '__init__')
        if init is not None:
            self.call_function(init, args, kwargs, st, self_av=obj, node=n)
        elif ci.is_dataclass or any(c.is_dataclass for c in self.p.mro(ci)[0]):
            self.model.dataclass_init(self, st, obj, ci, args, kwargs, n)
            if ci.is_namedtuple and obj.oid in st.heap:
                obj = obj.w(nt_fields=dict(st.heap[obj.oid]))
        else:
            self.model.ext_base_init(self, st, obj, ci, args, kwargs, n)
        return obj

    def e_Lambda(self, n, frame, st):
        return AV(ty='lambda', node=n, frame=frame)

    def e_IfExp(self, n, frame, st):
        self.eval(n.test, frame, st)
        t_st, f_st = self.refine(n.test, frame, st)
        a = self.eval(n.body, frame, t_st) if t_st is not None else None
        b = self.eval(n.orelse, frame, f_st) if f_st is not None else None
        return join(a, b) if (a is not None or b is not None) else TOP

    def e_NamedExpr(self, n, frame, st):
        v = self.eval(n.value, frame, st)
        self.assign(n.target, v, frame, st)
        return v

    def e_BoolOp(self, n, frame, st):
        # short-circuit: later operands are evaluated under the refinement of the earlier ones
        cur = st.copy()
        vals = []
        for v in n.values:
            vals.append(self.eval(v, frame, cur))
            self.model.refine(self, v, frame, cur, isinstance(n.op, ast.And))
        st.heap = cur.heap
        return self.model.boolop(self, st, n.op, vals, n)

    def e_UnaryOp(self, n, frame, st):
        v = self.eval(n.operand, frame, st)
        return self.model.unaryop(self, st, n.op, v, n)

    def e_BinOp(self, n, frame, st):
        l = self.eval(n.left, frame, st)
        r = self.eval(n.right, frame, st)
        return self.model.binop(self, st, n.op, l, r, n)

    def e_Compare(self, n, frame, st):
        l = self.eval(n.left, frame, st)
        rs = [self.eval(c, frame, st) for c in n.comparators]
        return self.model.compare(self, st, l, n.ops, rs, n)

    def e_Subscript(self, n, frame, st):
        base = self.eval(n.value, frame, st)
        idx = self.eval(n.slice, frame, st)
        return self.model.subscript(self, st, base, idx, n, frame)

    def e_Slice(self, n, frame, st):
        lo = self.eval(n.lower, frame, st) if n.lower is not None else None
        hi = self.eval(n.upper, frame, st) if n.upper is not None else None
        step = self.eval(n.step, frame, st) if n.step is not None else None
        return AV(ty='slice', lo=lo, hi=hi, step=step)

    def e_Tuple(self, n, frame, st):
        elts = []
        parts = []
        star_elem, open_seq = None, False
        for e in n.elts:
            if isinstance(e, ast.Starred):
                v = self.eval(e.value, frame, st)
                parts.append(('star', v))
                if v.elts is not None:
                    elts.extend(v.elts)
                else:
                    # an unpacked sequence of unknown length: the result is a homogeneous sequence of the joined elements
                    star_elem = join(star_elem, self.model.iter_item(self, st, v, e.value, None)) if star_elem is not None \
                        else self.model.iter_item(self, st, v, e.value, None)
                    open_seq = True
            else:
                elts.append(self.eval(e, frame, st))
                parts.append(('elt', elts[-1]))
        if open_seq:
            el = join_all(elts + ([star_elem] if star_elem is not None else []))
            return AV(ty='tuple' if isinstance(n, ast.Tuple) else 'list', elem=el, fresh=True, parts=parts,
                      deps=frozenset().union(*[x.deps or frozenset() for x in elts + ([star_elem] if star_elem is not None else [])]))
        return self.model.make_seq(self, 'tuple' if isinstance(n, ast.Tuple) else 'list', elts, n)

    e_List = e_Tuple

    def e_Set(self, n, frame, st):
        elts = [self.eval(e, frame, st) for e in n.elts]
        return AV(ty='set', elem=join_all(elts) if elts else None, deps=self.model.deps_of(elts, {}))

    def e_Dict(self, n, frame, st):
        kw = {}
        vals = []
        keys = []
        open_kw = None
        for k, v in zip(n.keys, n.values):
            vv = self.eval(v, frame, st)
            vals.append(vv)
            if k is None:
                open_kw = True
                continue
            kv = self.eval(k, frame, st)
            if has_const(kv) and isinstance(cval(kv), str):
                kw[cval(kv)] = vv
            else:
                open_kw = True
                keys.append(kv)
        return AV(ty='dict', kw=kw, elem=join_all(vals) if vals else None, open_kw=open_kw, keyelem=join_all(keys) if (keys and not kw) else None,
                  deps=self.model.deps_of(vals, {}), fresh=True, empty_init=True if not n.keys else None)

    def e_Starred(self, n, frame, st):
        return self.eval(n.value, frame, st)

    def _comp(self, n, frame, st, elt_nodes):
        self.fix_loops = getattr(self, 'fix_loops', 0) + 1
        try:
            return self._comp_inner(n, frame, st, elt_nodes)
        finally:
            self.fix_loops -= 1

    def _comp_inner(self, n, frame, st, elt_nodes):
        cst = st.copy()
        maybe_empty = False
        for g in n.generators:
            it = self.eval(g.iter, frame, cst)
            item = _strip_sx(self.model.iter_item(self, cst, it, g.iter, g))
            self.assign(g.target, item, frame, cst)
            for c in g.ifs:
                self.eval(c, frame, cst)
                t_st, _ = self.refine(c, frame, cst)
                if t_st is not None:
                    cst = t_st
                maybe_empty = True
        res = [self.eval(e, frame, cst) for e in elt_nodes]
        st.heap = cst.heap
        return res, cst, maybe_empty

    def _comp_unrolled(self, n, frame, st):
        """Elements of a one-generator comprehension over a short known sequence, evaluated one by one; None if not applicable."""
        if len(n.generators) != 1:
            return None
        g = n.generators[0]
        it = self.eval(g.iter, frame, st)
        items = known_items(it)
        if items is None:
            return None
        if g.ifs:
            # filters are followed only when every test is decided (constant) for every item
            keep = []
            for item in items:
                cst = st.copy()
                self.assign(g.target, item, frame, cst)
                verdicts = [self.eval(c, frame, cst) for c in g.ifs]
                if not all(has_const(v) and isinstance(cval(v), bool) for v in verdicts):
                    return None
                if all(cval(v) for v in verdicts):
                    keep.append(item)
            items = keep
        out = []
        for item in items:
            cst = st.copy()
            self.assign(g.target, item, frame, cst)
            out.append(self.eval(n.elt, frame, cst))
            st.heap = cst.heap
        return out

    def e_ListComp(self, n, frame, st):
        elts = self._comp_unrolled(n, frame, st)
        if elts is not None:
            return self.model.make_seq(self, 'list', elts, n).w(fresh=True, comp_over=self.values.get(id(n.generators[0].iter)))
        (elt,), cst, me = self._comp(n, frame, st, [n.elt])
        first_iter = self.values.get(id(n.generators[0].iter))
        return self._with_pipeline(self.model.make_comp(self, 'list', elt, first_iter, n, me), first_iter, n, frame)

    def _with_pipeline(self, out, first_iter, n, frame):
        """A comprehension over the items of a generator pipeline is one more stage (its `if` clauses filter the items)."""
        src = self.last.get(id(n.generators[0].iter)) or first_iter
        if src is not None and src.pipeline and len(n.generators) == 1:
            stage = (('ifs', frame.fn.qualname if (frame is not None and frame.fn is not None) else None, n),) if n.generators[0].ifs else ()
            out = out.w(pipeline=tuple(src.pipeline) + stage)  # elements derived from items that passed those filters
        return out

    def e_GeneratorExp(self, n, frame, st):
        elts = self._comp_unrolled(n, frame, st)
        if elts is not None:
            return self.model.make_seq(self, 'tuple', elts, n).w(ty='generator', fresh=True, comp_over=self.values.get(id(n.generators[0].iter)))
        (elt,), cst, me = self._comp(n, frame, st, [n.elt])
        first_iter = self.values.get(id(n.generators[0].iter))
        return self._with_pipeline(self.model.make_comp(self, 'generator', elt, first_iter, n, me), first_iter, n, frame)

    def e_SetComp(self, n, frame, st):
        (elt,), cst, me = self._comp(n, frame, st, [n.elt])
        return AV(ty='set', elem=elt, fresh=True, deps=elt.deps)

    def e_DictComp(self, n, frame, st):
        # {f(name): g(value) for name, value in literal_dict.items()}: unrolled over the known keys
        if len(n.generators) == 1 and not n.generators[0].ifs:
            g = n.generators[0]
            src = self.eval(g.iter, frame, st)
            d = src.of if (src is not None and src.ty == 'dictitems') else None
            if d is not None and d.kw and len(d.kw) <= 16 and not d.open_kw:
                kw, ok = {}, True
                for name, val in d.kw.items():
                    cst = st.copy()
                    self.assign(g.target, AV(ty='tuple', elts=[const(name), val]), frame, cst)
                    kv, vv = self.eval(n.key, frame, cst), self.eval(n.value, frame, cst)
                    st.heap = cst.heap
                    if not (has_const(kv) and isinstance(cval(kv), str)):
                        ok = False
                        break
                    kw[cval(kv)] = vv
                if ok:
                    return AV(ty='dict', kw=kw, fresh=True, deps=frozenset().union(*[v.deps or frozenset() for v in kw.values()]))
            items = known_items(src)
            if items is not None:
                # a short sequence of known items: one entry per item (constant string keys)
                kw, ok = {}, True
                for item in items:
                    cst = st.copy()
                    self.assign(g.target, item, frame, cst)
                    kv, vv = self.eval(n.key, frame, cst), self.eval(n.value, frame, cst)
                    st.heap = cst.heap
                    if not (has_const(kv) and isinstance(cval(kv), str)) or cval(kv) in kw:
                        ok = False
                        break
                    kw[cval(kv)] = vv
                if ok:
                    return AV(ty='dict', kw=kw, fresh=True, deps=frozenset().union(*[v.deps or frozenset() for v in kw.values()]))
        (k, v), cst, me = self._comp(n, frame, st, [n.key, n.value])
        src0 = self.values.get(id(n.generators[0].iter))
        if src0 is not None and src0.groupby_runs:
            # one entry per RUN of equal keys: a key that occurs in several runs keeps only its last run
            self.emit('groupby_overwrite', n, source=src0)
        return AV(ty='dict', elem=v, keyelem=k, fresh=True, overwrite=True, deps=(k.deps or frozenset()) | (v.deps or frozenset()))

    def e_Yield(self, n, frame, st):
        v = self.eval(n.value, frame, st) if n.value is not None else const(None)
        frame.yields.append(v)
        self.emit('yield', n, value=v)
        return TOP

    def e_YieldFrom(self, n, frame, st):
        v = self.eval(n.value, frame, st)
        item = self.model.iter_item(self, st, v, n.value, None)
        frame.yields.append(item if item is not None else TOP)
        return TOP

    def e_Await(self, n, frame, st):
        return self.eval(n.value, frame, st)
