"""Library model, part 5: pandas DataFrame / row model (column-wise kinds)."""

from __future__ import annotations

import ast

from .interp import AV, TOP, const, cval, has_const, join, join_all
from .model_base import deps_union
from .source import norm_text


class PandasModel:
    def pandas_attr(self, interp, st, base, attr, node):
        if attr in ('T', 'values'):
            return base
        if attr == 'columns':
            return AV(ty='list', elem=AV(ty='str'))
        if attr == 'index':
            return AV(ty='Series')
        if attr in ('loc', 'iloc'):
            return base.w(indexer=attr)
        return AV(ty='extmethod', recv=base, name=attr)

    def pandas_method(self, interp, st, recv, name, args, kwargs, node, frame, d):
        if name == 'copy':
            return recv.w(store='fresh', fresh=True, prov=None, deps=d)
        if name == 'rename':
            m = kwargs.get('columns')
            if m is not None and m.kw is not None and recv.cols is not None:
                cols = {}
                for k, v in recv.cols.items():
                    nk = m.kw.get(k)
                    cols[cval(nk) if (nk is not None and has_const(nk)) else k] = v
                return recv.w(cols=cols, store='fresh', deps=d, renamed=dict((k, cval(v)) for k, v in m.kw.items() if has_const(v)))
            return recv.w(store='fresh', deps=d)
        if name == 'sort_values':
            by = self.arg(args, kwargs, 0, 'by')
            keys = None
            if by is not None:
                if has_const(by) and isinstance(cval(by), str):
                    keys = (cval(by),)
                elif by.elts is not None and all(has_const(e) for e in by.elts):
                    keys = tuple(cval(e) for e in by.elts)
                elif has_const(by):
                    keys = tuple(cval(by))
            asc = kwargs.get('ascending')
            interp.emit('sort_values', node, frame=recv, keys=keys, ascending=cval(asc) if asc is not None and has_const(asc) else True)
            ii = kwargs.get('ignore_index')
            relabel = ii is not None and has_const(ii) and bool(cval(ii))
            # without ignore_index the rows keep their old labels: labels are no longer positions
            return recv.w(sorted_by=keys, sort_asc=cval(asc) if asc is not None and has_const(asc) else True, store='fresh', fresh=True, deps=d,
                          labels_permuted=None if relabel else True)
        if name == 'reset_index':
            recv = recv.w(labels_permuted=None)
            cols = dict(recv.cols) if recv.cols else None
            drop = kwargs.get('drop')
            if cols is not None and not (drop is not None and has_const(drop) and cval(drop)):
                cols = {'index': AV(ty='Series'), **cols}
            return recv.w(cols=cols, store='fresh', fresh=True, deps=d)
        if name == 'iterrows':
            return AV(ty='DataFrameIterrows', of=recv, deps=d)
        if name == 'groupby':
            by = args[0] if args else kwargs.get('by')
            return AV(ty='DataFrameGroupBy', of=recv, by=cval(by) if by is not None and has_const(by) else None, deps=d)
        if name in ('to_numpy',):
            out = AV(ty='ndarray', deps=d, store='fresh', fresh=True)
            if recv.cols:
                out = out.w(colvals=list(recv.cols.values()), colnames=list(recv.cols))
            if recv.ty == 'Series':
                out = recv.only('idx', 'at', 'geo', 'mono', 'taint').w(ty='ndarray', deps=d, store='fresh')
            return out
        if name in ('all', 'any'):
            return AV(ty='Series', dtype='bool', deps=d, red=(name, recv, kwargs.get('axis'), ()), cmp_src=recv.cmp)
        if name in ('sum', 'mean', 'min', 'max', 'std'):
            return recv.only('idx', 'geo', 'mono').w(ty='float', deps=d)
        if name in ('astype', 'dropna', 'drop_duplicates', 'head', 'tail', 'query'):
            return recv.w(store='fresh', deps=d)
        if name == 'drop':
            return recv.w(store='fresh', deps=d)
        if name == 'between':
            lo, hi = self.arg(args, kwargs, 0, 'left'), self.arg(args, kwargs, 1, 'right')
            inc = self.arg(args, kwargs, 2, 'inclusive')
            return AV(ty='Series', dtype='bool', deps=d, between=(recv, lo, hi, cval(inc) if inc is not None and has_const(inc) else ('both' if inc is None else None)))
        if name == 'isin':
            return AV(ty='Series', dtype='bool', deps=d)
        if name == 'itertuples':
            cols = list((recv.cols or {}).values())
            ix = kwargs.get('index')
            with_index = not (ix is not None and has_const(ix) and not cval(ix))
            if recv.cols is None:
                return AV(ty='generator', elem=AV(ty='tuple'), deps=d)
            elts = ([AV(ty='int', idx=('ROWPOS',))] if with_index else []) + [c.only('idx', 'at', 'geo', 'mono', 'taint', 'role').w(ty='int', col=n)
                                                                             for n, c in recv.cols.items()]
            return AV(ty='generator', elem=AV(ty='tuple', elts=elts), deps=d)
        if name == 'items':
            return AV(ty='generator', elem=AV(ty='tuple', elts=[AV(ty='str'), AV(ty='Series')]))
        if name == 'tolist':
            return AV(ty='list', elem=recv.only('idx', 'geo', 'mono'), deps=d)
        return AV(deps=d)

    def pandas_subscript(self, interp, st, base, idx, node, frame, d):
        ty = base.ty
        cols = base.cols
        if ty in ('DataFrame', 'Row'):
            if has_const(idx) and isinstance(cval(idx), str):
                c = cols.get(cval(idx)) if cols else None
                interp.emit('column_read', node, frame=base, col=cval(idx), known=c is not None, have=list(cols) if cols else None)
                out = (c if c is not None else AV()).w(ty='Series' if ty == 'DataFrame' else 'int', deps=d, col=cval(idx),
                                                       view_of=base.store, store=base.store if ty == 'DataFrame' else None,
                                                       row_sorted_by=base.frame_sorted_by, scan=base.scan if ty == 'Row' else None,
                                                       row_var=node.value.id if (ty == 'Row' and isinstance(node, ast.Subscript) and isinstance(node.value, ast.Name)) else None)
                return out
            if idx.ty == 'list' and idx.elts is not None and all(has_const(e) for e in idx.elts):
                names = [cval(e) for e in idx.elts]
                sub = {n: cols[n] for n in names if cols and n in cols}
                for n in names:
                    interp.emit('column_read', node, frame=base, col=n, known=bool(cols and n in cols), have=list(cols) if cols else None)
                return base.w(cols=sub if len(sub) == len(names) else None, store='fresh', deps=d, sorted_by=base.sorted_by)
            if idx.ty == 'slice':
                return base.w(deps=d, sliced=(idx.lo, idx.hi), view_of=base.store)
            if idx.ty in ('Series', 'ndarray') or idx.cmp is not None or idx.dtype == 'bool':
                # boolean row filter
                interp.emit('row_filter', node, frame=base, mask=idx)
                return base.w(store='fresh', fresh=True, deps=d, maybe_empty=True, filtered_by=idx)
            return base.w(deps=d)
        if ty == 'Series':
            return base.only('idx', 'geo', 'mono', 'taint').w(deps=d)
        return None

    def store_subscript_ext(self, interp, st, frame, target, base, idx, value, aug):
        if base.ty in ('DataFrame', 'Row') and has_const(idx) and isinstance(cval(idx), str):
            cols = dict(base.cols or {})
            v = value.only('idx', 'at', 'geo', 'mono', 'taint', 'inner', 'deps', 'role').w(ty='Series' if base.ty == 'DataFrame' else 'int')
            if base.ty == 'Row' and value.col is not None and isinstance(target.value, ast.Name):
                src = value.row_var
                if src is not None and src != target.value.id:
                    v = v.w(role=f'copied:{src}')
            cols[cval(idx)] = v
            interp.emit('column_write', target, frame=base, col=cval(idx), value=value, aug=aug)
            self.rebind(interp, st, frame, target.value, base.w(cols=cols))
        elif base.ty == 'Graph':
            pass
