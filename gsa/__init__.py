"""gsa - GEMDAT static analyser (pure standard library, nothing of GEMDAT is imported or run).

Layers: source model (source.py), control-flow graph with dominators (cfg.py), abstract
interpreter (interp.py) with the library model (apimodel.py), rule modules (rules/Cxx.py) and the
driver (driver.py).  See /verif/DESIGN.md.
"""
