"""Layer 1: statement-level control-flow graph with short-circuit tests, edge nodes and dominators.

Node kinds
  ('entry',) ('exit',) ('raise',)            function entry, normal exit (return / fall off), exceptional exit
  ('stmt', ast.stmt)                         simple statement
  ('test', ast.expr)                         atomic condition of if / while / assert (BoolOp and Not are decomposed)
  ('edge', ast.expr, bool)                   pseudo node on the true / false out-edge of an atomic test
  ('for', ast.For)                           loop header (evaluates iter, binds target)
  ('edge', ast.For, bool)                    True: another item (enter body), False: exhausted
  ('with', ast.With)                         context entry
  ('handler', ast.ExceptHandler)             start of an except clause
"""

from __future__ import annotations

import ast


class CFG:
    def __init__(self, fnode):
        self.fnode = fnode
        self.nodes = []  # id -> tuple
        self.succ = {}
        self.pred = {}
        self.owner = {}  # id(ast sub node) -> cfg node id
        self.entry = self._new(('entry',))
        self.exit = self._new(('exit',))
        self.raise_exit = self._new(('raise',))
        self._loop_stack = []
        self._try_stack = []  # list of lists of handler node ids
        last = self._block(fnode.body, [self.entry])
        for n in last:
            self._edge(n, self.exit)
        self._dom = None
        self._pdom = None

    # ------------------------------------------------------------ construction
    def _new(self, desc):
        i = len(self.nodes)
        self.nodes.append(desc)
        self.succ[i] = []
        self.pred[i] = []
        return i

    def _edge(self, a, b):
        if b not in self.succ[a]:
            self.succ[a].append(b)
            self.pred[b].append(a)

    def _own(self, astnode, nid, skip_bodies=False):
        for sub in ast.walk(astnode):
            self.owner.setdefault(id(sub), nid)

    def _exc_edges(self, nid):
        """A statement inside try bodies may raise into every enclosing handler; else function raise-exit."""
        for level in self._try_stack:
            for h in level:
                self._edge(nid, h)
        self._edge(nid, self.raise_exit)

    def _block(self, stmts, preds):
        for s in stmts:
            preds = self._stmt(s, preds)
        return preds

    def _cond(self, expr, preds):
        """Return (true_preds, false_preds) for a condition, decomposing and/or/not."""
        if isinstance(expr, ast.BoolOp):
            if isinstance(expr.op, ast.And):
                falses = []
                cur = preds
                for v in expr.values:
                    t, f = self._cond(v, cur)
                    falses += f
                    cur = t
                return cur, falses
            else:
                trues = []
                cur = preds
                for v in expr.values:
                    t, f = self._cond(v, cur)
                    trues += t
                    cur = f
                return trues, cur
        if isinstance(expr, ast.UnaryOp) and isinstance(expr.op, ast.Not):
            t, f = self._cond(expr.operand, preds)
            return f, t
        n = self._new(('test', expr))
        self._own(expr, n)
        for p in preds:
            self._edge(p, n)
        self._exc_edges(n)
        te = self._new(('edge', expr, True))
        fe = self._new(('edge', expr, False))
        self._edge(n, te)
        self._edge(n, fe)
        return [te], [fe]

    def _stmt(self, s, preds):
        if isinstance(s, ast.If):
            t, f = self._cond(s.test, preds)
            a = self._block(s.body, t)
            b = self._block(s.orelse, f)
            return a + b
        if isinstance(s, ast.While):
            head = self._new(('stmt', ast.Pass()))
            for p in preds:
                self._edge(p, head)
            t, f = self._cond(s.test, [head])
            self._loop_stack.append({'head': head, 'breaks': []})
            body_end = self._block(s.body, t)
            for n in body_end:
                self._edge(n, head)
            ctx = self._loop_stack.pop()
            out = self._block(s.orelse, f)
            return out + ctx['breaks']
        if isinstance(s, (ast.For, ast.AsyncFor)):
            head = self._new(('for', s))
            self._own(s.iter, head)
            self._own(s.target, head)
            for p in preds:
                self._edge(p, head)
            self._exc_edges(head)
            te = self._new(('edge', s, True))
            fe = self._new(('edge', s, False))
            self._edge(head, te)
            self._edge(head, fe)
            self._loop_stack.append({'head': head, 'breaks': []})
            body_end = self._block(s.body, [te])
            for n in body_end:
                self._edge(n, head)
            ctx = self._loop_stack.pop()
            out = self._block(s.orelse, [fe])
            return out + ctx['breaks']
        if isinstance(s, ast.Try):
            handlers = []
            for h in s.handlers:
                hn = self._new(('handler', h))
                if h.type is not None:
                    self._own(h.type, hn)
                handlers.append(hn)
            # the try entry itself may be left exceptionally before any statement completes
            self._try_stack.append(handlers)
            body_end = self._block(s.body, preds)
            self._try_stack.pop()
            for p in preds:  # exception raised by the very first statement before it had effect
                pass
            else_end = self._block(s.orelse, body_end)
            outs = list(else_end)
            for hn, h in zip(handlers, s.handlers):
                outs += self._block(h.body, [hn])
            if s.finalbody:
                outs = self._block(s.finalbody, outs)
            return outs
        if isinstance(s, (ast.With, ast.AsyncWith)):
            n = self._new(('with', s))
            for it in s.items:
                self._own(it.context_expr, n)
                if it.optional_vars is not None:
                    self._own(it.optional_vars, n)
            for p in preds:
                self._edge(p, n)
            self._exc_edges(n)
            return self._block(s.body, [n])
        if isinstance(s, ast.Assert):
            t, f = self._cond(s.test, preds)
            for n in f:
                self._exc_edges(n)
            return t
        # simple statements
        n = self._new(('stmt', s))
        if isinstance(s, (ast.FunctionDef, ast.AsyncFunctionDef, ast.ClassDef)):
            self.owner[id(s)] = n
            for d in s.decorator_list:
                self._own(d, n)
        else:
            self._own(s, n)
        for p in preds:
            self._edge(p, n)
        if isinstance(s, ast.Return):
            self._exc_edges(n)
            self._edge(n, self.exit)
            return []
        if isinstance(s, ast.Raise):
            self._exc_edges(n)
            return []
        if isinstance(s, ast.Break):
            if self._loop_stack:
                self._loop_stack[-1]['breaks'].append(n)
            return []
        if isinstance(s, ast.Continue):
            if self._loop_stack:
                self._edge(n, self._loop_stack[-1]['head'])
            return []
        if not isinstance(s, (ast.Pass, ast.Import, ast.ImportFrom, ast.Global, ast.Nonlocal,
                              ast.FunctionDef, ast.ClassDef)):
            self._exc_edges(n)
        return [n]

    # ------------------------------------------------------------ queries
    def node_of(self, astnode):
        return self.owner.get(id(astnode))

    def _compute_dom(self, entry, succ, pred):
        ids = set(self._reachable(entry, succ))
        dom = {n: set(ids) for n in ids}
        dom[entry] = {entry}
        changed = True
        order = list(ids)
        while changed:
            changed = False
            for n in order:
                if n == entry:
                    continue
                ps = [p for p in pred[n] if p in ids]
                new = set(ids)
                for p in ps:
                    new &= dom[p]
                new.add(n)
                if new != dom[n]:
                    dom[n] = new
                    changed = True
        return dom

    def _reachable(self, start, succ, blocked=()):
        seen = {start}
        todo = [start]
        while todo:
            n = todo.pop()
            for s in succ[n]:
                if s not in seen and s not in blocked:
                    seen.add(s)
                    todo.append(s)
        return seen

    def reachable(self, start=None, blocked=()):
        return self._reachable(self.entry if start is None else start, self.succ, blocked)

    @property
    def dom(self):
        if self._dom is None:
            self._dom = self._compute_dom(self.entry, self.succ, self.pred)
        return self._dom

    def dominators(self, nid):
        return self.dom.get(nid, set())

    def dominates(self, a, b):
        return a in self.dom.get(b, ())

    def guards(self, nid):
        """Atomic tests whose true/false edge dominates node `nid`: list of (expr, polarity)."""
        out = []
        for d in self.dominators(nid):
            desc = self.nodes[d]
            if desc[0] == 'edge' and isinstance(desc[1], ast.expr):
                out.append((desc[1], desc[2]))
        return out

    def loop_guards(self, nid):
        out = []
        for d in self.dominators(nid):
            desc = self.nodes[d]
            if desc[0] == 'edge' and isinstance(desc[1], (ast.For, ast.AsyncFor)):
                out.append((desc[1], desc[2]))
        return out

    def all_paths_pass(self, src, dst, blockers):
        """True iff every path src -> dst passes one of `blockers` (node ids); vacuous if dst unreachable."""
        blockers = set(blockers)
        if src in blockers or dst in blockers:
            return True
        return dst not in self._reachable(src, self.succ, blockers)

    def stmts(self):
        for i, d in enumerate(self.nodes):
            if d[0] == 'stmt':
                yield i, d[1]

    def returns(self):
        return [(i, d[1]) for i, d in enumerate(self.nodes) if d[0] == 'stmt' and isinstance(d[1], ast.Return)]

    def find(self, pred):
        """CFG node ids whose owning ast (statement / test / for-header) satisfies pred(desc)."""
        return [i for i, d in enumerate(self.nodes) if pred(d)]

    # ------------------------------------------------------------ loop-carried variables
    def _uses_defs(self, nid):
        d = self.nodes[nid]
        kind = d[0]
        uses, defs = set(), set()

        def collect(node, into_uses=True, into_defs=True):
            for x in ast.walk(node):
                if isinstance(x, ast.Name):
                    if isinstance(x.ctx, ast.Load) and into_uses:
                        uses.add(x.id)
                    elif isinstance(x.ctx, (ast.Store, ast.Del)) and into_defs:
                        defs.add(x.id)
        if kind == 'stmt':
            s = d[1]
            if isinstance(s, (ast.FunctionDef, ast.AsyncFunctionDef, ast.ClassDef)):
                defs.add(s.name)
            elif isinstance(s, ast.AugAssign):
                collect(s)
                if isinstance(s.target, ast.Name):
                    uses.add(s.target.id)
            else:
                collect(s)
        elif kind == 'test':
            collect(d[1])
        elif kind == 'for':
            collect(d[1].iter)
            collect(d[1].target)
        elif kind == 'with':
            for it in d[1].items:
                collect(it.context_expr)
                if it.optional_vars is not None:
                    collect(it.optional_vars)
        elif kind == 'handler':
            if d[1].name:
                defs.add(d[1].name)
        return uses, defs

    def carried_into(self, loop):
        """Names that an iteration of `loop` may read before writing them: their value comes from the previous iteration
        (or from before the loop). Only names that the loop also writes are returned."""
        head = next((i for i, d in enumerate(self.nodes) if d[0] == 'for' and d[1] is loop), None)
        if head is None:
            return None
        start = next((s for s in self.succ[head] if self.nodes[s][0] == 'edge' and self.nodes[s][2] is True), None)
        if start is None:
            return None
        # nodes of the loop body
        body = set()
        stack = [start]
        while stack:
            n = stack.pop()
            if n in body or n in (head, self.exit, self.raise_exit):
                continue
            body.add(n)
            stack.extend(self.succ[n])
        written = set()
        ud = {n: self._uses_defs(n) for n in body}
        for n in body:
            written |= ud[n][1]
        target = {x.id for x in ast.walk(loop.target) if isinstance(x, ast.Name)}
        out = set()
        for name in written - target:
            seen, stack = set(), [start]
            while stack:
                n = stack.pop()
                if n in seen or n not in body:
                    continue
                seen.add(n)
                u, df = ud[n]
                if name in u:
                    out.add(name)
                    break
                if name in df:
                    continue
                stack.extend(self.succ[n])
        return out
