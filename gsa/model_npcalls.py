"""Library model, part 3: numpy functions."""

from __future__ import annotations

import ast

from .interp import AV, TOP, const, cval, has_const, join, join_all
from .kinds import Mono, is_cart, is_fdiff, is_frac, is_fractional, num
from .model_base import deps_union
from .model_numpy import XYZ, axis_arg, closes_wrap, flip_axis, fresh, is_zero_fill, mono_of, norm_cmp, opnodes, removed_axes
from .source import norm_text

LINEAR_REDUCERS = {'sum', 'mean', 'average', 'nanmean', 'nansum', 'median'}
SPREAD_REDUCERS = {'std', 'nanstd'}
ORDER_REDUCERS = {'min', 'max', 'amin', 'amax', 'nanmin', 'nanmax'}


def as_array(av):
    """View a list / tuple literal of abstract values as an array value."""
    if av is None:
        return TOP
    if av.ty == 'ndarray':
        return av
    if av.ty in ('list', 'tuple', 'generator'):
        el = join_all(av.elts) if av.elts else av.elem
        out = AV(ty='ndarray', deps=av.deps, store='fresh', fresh=True, maybe_empty=av.maybe_empty, symlen=av.symlen)
        if el is not None:
            out = out.w(geo=el.geo, idx=el.idx, mono=mono_of(el), dtype=el.dtype, symimg=el.symimg, unwrapped_image=el.unwrapped_image,
                        bin=el.bin if av.elts is None else None)
            if el.axes is not None:
                out = out.w(axes=('item',) + tuple(el.axes))
            elif el.geo is not None and el.geo[0] in ('FRAC', 'FDIFF', 'CART', 'SYMIMG') and el.ty != 'ndarray':
                pass
        if av.elts is not None:
            out = out.w(litelts=av.elts)
            if av.litconst is not None:
                out = out.w(litconst=av.litconst)
        return out
    return av


_NP_CMP = {'equal': ast.Eq, 'not_equal': ast.NotEq, 'greater': ast.Gt, 'greater_equal': ast.GtE, 'less': ast.Lt, 'less_equal': ast.LtE}


def _not_last(m):
    """Position mask that is false exactly at the last position: np.arange(n) < n - 1 (or != n - 1, <= n - 2)."""
    if m is None or m.cmp is None:
        return False
    o, l, r = m.cmp[0], m.cmp[1], m.cmp[2]
    if l is None or r is None or l.arange is None or len(l.arange) != 1 or r.bin is None or r.bin[0] != '-':
        return False
    n, off = l.arange[0], r.bin[2]
    same_n = (n.sx is not None and n.sx == r.bin[3]) or (n.sx is None and r.bin[1] is not None and n.sym is not None and n.sym == r.bin[1].sym)
    if not same_n or not has_const(off):
        return False
    return (o in ('<', '!=') and cval(off) == 1) or (o == '<=' and cval(off) == 2)


def _change_mask(m, depth=0):
    """(frame offset `at`, may contain the wrap-around comparison) for a mask of frames where an array differs from its roll."""
    if m is None or depth > 4:
        return None
    if m.nolast:
        # the entry of the last frame was switched off after the mask was built: no wrap-around comparison is left
        inner = _change_mask(m.w(nolast=None), depth)
        return (inner[0], False) if (inner is not None and inner[0] == 0) else inner
    if m.cmp is not None and m.cmp[0] == '!=':
        o, l, r, lt, rt = m.cmp
        for x, y, xt in ((l, r, lt), (r, l, rt)):
            if y is not None and y.rolled is not None and y.rolled[1] == xt and y.rolled[0] in (-1, 1):
                if len(y.rolled) > 2 and y.axes is not None and len(y.axes) > 1 and y.rolled[2] != 'frame':
                    return None  # rolled along another axis (or flattened): not a comparison of consecutive frames
                return (0 if y.rolled[0] == -1 else 1, True)
        # x[1:] != x[:-1] (either order): element t compares frame t + 1 with frame t, no wrap-around comparison exists
        if l is not None and r is not None and l.shifted is not None and r.shifted is not None and l.shifted[1] == r.shifted[1]:
            a_, b_ = (l.shifted, r.shifted) if l.shifted[0] >= r.shifted[0] else (r.shifted, l.shifted)
            if a_[0] - b_[0] == 1 and b_[0] == 0 and a_[3] == 0 and b_[3] == 1 and (a_[2] in (None, 'frame')):
                return (0, False)
        return None
    if m.bin is not None and m.bin[0] in ('|', '&'):
        a, b = _change_mask(m.bin[1], depth + 1), _change_mask(m.bin[2], depth + 1)
        if m.bin[0] == '|':
            return (a[0], a[1] or b[1]) if (a is not None and b is not None and a[0] == b[0]) else None
        if a is not None and _not_last(m.bin[2]) and a[0] == 0:
            return (a[0], False)
        if b is not None and _not_last(m.bin[1]) and b[0] == 0:
            return (b[0], False)
        if a is not None and b is not None:
            return (a[0], a[1] and b[1]) if a[0] == b[0] else None
        return a if a is not None else b
    return None


class NpCalls:
    def np_call(self, interp, st, name, args, kwargs, node, frame):
        """numpy.<name>(...)"""
        if 'out' in kwargs and name not in ('add', 'subtract', 'multiply', 'divide', 'mod', 'power', 'maximum', 'minimum', 'remainder',
                                            'floor_divide', 'true_divide', 'matmul', 'fmod', 'dot', 'maximum.accumulate') \
                and name not in ('sqrt', 'square', 'abs', 'absolute', 'exp', 'log', 'log10', 'sin', 'cos', 'tan', 'arcsin', 'arccos',
                                 'arctan', 'sign', 'floor', 'ceil', 'round', 'around', 'rint', 'degrees', 'radians', 'deg2rad',
                                 'rad2deg', 'negative', 'isfinite', 'isnan', 'isinf', 'real', 'trunc', 'conj', 'nan_to_num'):
            interp.emit('store', node, kind='out=', base=kwargs['out'], index=None, value=None, stmt=None)
        m = getattr(self, 'np_' + name.replace('.', '_'), None)
        if m is not None:
            return m(interp, st, args, kwargs, node)
        d = self.deps_of(args, kwargs)
        if name in ('sum', 'mean', 'average', 'std', 'min', 'max', 'amin', 'amax', 'median', 'prod', 'any', 'all',
                    'nanmean', 'nansum', 'nanstd', 'nanmin', 'nanmax', 'var', 'argmin', 'argmax', 'cumsum', 'cumprod'):
            return self.np_reduce(interp, st, name, args, kwargs, node)
        if name in ('sqrt', 'square', 'abs', 'absolute', 'exp', 'log', 'log10', 'sin', 'cos', 'tan', 'arcsin', 'arccos',
                    'arctan', 'sign', 'floor', 'ceil', 'round', 'around', 'rint', 'degrees', 'radians', 'deg2rad',
                    'rad2deg', 'negative', 'isfinite', 'isnan', 'isinf', 'isposinf', 'isneginf', 'real', 'trunc', 'conj', 'nan_to_num'):
            return self.np_elementwise(interp, st, name, args, kwargs, node)
        if name in ('asarray', 'ascontiguousarray', 'asanyarray', 'squeeze', 'atleast_1d', 'atleast_2d', 'copy',
                    'flip', 'fliplr', 'flipud', 'ravel'):
            x = as_array(args[0]) if args else TOP
            if name == 'copy' or (args and args[0].ty != 'ndarray'):
                x = fresh(x)
            if name == 'ravel':
                x = x.w(axes=('flat',))
            if name in ('flip', 'fliplr', 'flipud'):
                ax = {'fliplr': 1, 'flipud': 0}.get(name)
                if name == 'flip':
                    ax = axis_arg(args, kwargs, 1)
                return flip_axis(x.w(deps=d, rows=None, colvals=None), ax)
            return x.w(deps=d)
        if name in _NP_CMP and len(args) >= 2:
            return self.compare(interp, st, as_array(args[0]), [_NP_CMP[name]()], [args[1]], node)
        if name in ('add', 'subtract', 'multiply', 'divide', 'mod', 'power', 'maximum', 'minimum', 'remainder',
                    'floor_divide', 'true_divide', 'matmul', 'fmod'):
            op = {'add': ast.Add(), 'subtract': ast.Sub(), 'multiply': ast.Mult(), 'divide': ast.Div(),
                  'true_divide': ast.Div(), 'mod': ast.Mod(), 'remainder': ast.Mod(), 'power': ast.Pow(),
                  'floor_divide': ast.FloorDiv(), 'matmul': ast.MatMult(), 'fmod': ast.Mod()}.get(name)
            if 'out' in kwargs:
                interp.emit('store', node, kind='out=', base=kwargs['out'], index=None, value=None, stmt=None)
            if op is not None and len(args) >= 2:
                a, b = as_array(args[0]), as_array(args[1])
                r = self.binop(interp, st, op, a, b, node)
                # np.mod(x, 1): text operands for idiom matching
                if name in ('mod', 'remainder'):
                    r = r.w(bin=('%', a, b, interp.sx(node.args[0]) if node is not None and node.args else None, None))
                return r.w(ty='ndarray' if a.ty == 'ndarray' or b.ty == 'ndarray' else r.ty)
            out_ = join_all([as_array(a) for a in args[:2]]).w(deps=d, const=None, store='fresh')
            if name in ('maximum', 'minimum') and len(args) >= 2:
                # a value bounded from below / above by the other operand
                out_ = out_.w(clamp=('lo' if name == 'maximum' else 'hi', as_array(args[0]), as_array(args[1])))
            return out_
        if name in ('zeros', 'ones', 'empty', 'full', 'zeros_like', 'ones_like', 'empty_like', 'full_like', 'eye',
                    'identity'):
            out = AV(ty='ndarray', store='fresh', fresh=True, deps=d, alloc=name)
            shape = args[0] if args else kwargs.get('shape')
            if name.endswith('_like') and args:
                out = out.w(axes=args[0].axes, like=args[0].only('axes', 'idx', 'geo'))
            elif shape is not None and shape.elts is not None:
                out = out.w(shape=list(shape.elts), axes=tuple(
                    (e.shape_of[0] if e.shape_of else f'd{i}') for i, e in enumerate(shape.elts)))
            elif shape is not None and shape.shapeof is not None:
                out = out.w(axes=shape.shapeof.axes, shape_from=shape.shapeof)
            elif shape is not None:
                out = out.w(shape=[shape])
                if shape.ty == 'int':
                    out = out.w(axes=(shape.shape_of[0] if shape.shape_of else 'd0',))
            fill = None
            if name in ('full', 'full_like'):
                fill = self.arg(args, kwargs, 1, 'fill_value')
            elif name in ('zeros', 'zeros_like', 'empty', 'empty_like'):
                fill = const(0)
            elif name.startswith('ones'):
                fill = const(1)
            if fill is not None:
                out = out.w(fill=fill, idx=fill.idx, mono=mono_of(fill) if name.startswith(('ones', 'full')) else None,
                            geo=fill.geo if name.startswith('full') else None, mono_unknown=fill.mono_unknown if name.startswith('full') else None)
                if fill.idx is not None:
                    out = out.w(idx=fill.idx)
            dt = kwargs.get('dtype')
            if dt is not None and dt.ty == 'builtin':
                out = out.w(dtype=dt.name)
            return out
        if name in ('float32', 'float64', 'int32', 'int64', 'intp', 'bool_', 'complex128'):
            if args:
                return args[0].w(deps=d)
            return AV(ty='dtype')
        interp.note(f'unmodelled numpy.{name}', node)
        return AV(ty='ndarray', deps=d)

    # ------------------------------------------------------------------ constructors
    def np_array(self, interp, st, args, kwargs, node):
        a0 = self.arg(args, kwargs, 0, 'object')
        if a0 is None:
            return AV(ty='ndarray')
        d = self.deps_of(args, kwargs)
        if a0.ty == 'ndarray':
            return fresh(a0).w(deps=d)
        if a0.ty == 'tuple' and a0.elts is not None and all(e.ty in ('int', 'float', 'bool') or e.shape_of for e in a0.elts):
            # np.array(self.dims), np.array((pad, pad, pad)), np.array(lattice.lengths)
            out = AV(ty='ndarray', deps=d, store='fresh', fresh=True, litelts=a0.elts, geo=a0.geo,
                     axes=(XYZ,) if len(a0.elts) == 3 else None, mono=join_all(a0.elts).mono, tuple_of=a0.tuple_of,
                     litconst=a0.litconst)
            return out
        out = as_array(a0).w(deps=d)
        if has_const(a0) and isinstance(cval(a0), (tuple, list)) and out.litconst is None:
            try:
                out = out.w(litconst=('c', [tuple(x) if isinstance(x, (list, tuple)) else x for x in cval(a0)]), ty='ndarray', store='fresh', fresh=True)
            except TypeError:
                pass
        if a0.ty not in ('list', 'tuple', 'generator', 'ndarray') and a0.ty is not None:
            out = a0.w(ty='ndarray', store='fresh', fresh=True, deps=d)
        if a0.tuple_of is not None:
            out = out.w(tuple_of=a0.tuple_of, axes=(XYZ,))
        if a0.geo is not None and out.geo is None:
            out = out.w(geo=a0.geo)
        if a0.boxof is not None:
            out = out.w(boxof=a0.boxof)
        dt = kwargs.get('dtype')
        if dt is not None:
            out = out.w(dtype=dt.name if dt.ty == 'builtin' else (dt.qual or '').split('.')[-1] or None)
        return out

    def np_arange(self, interp, st, args, kwargs, node):
        d = self.deps_of(args, kwargs)
        out = AV(ty='ndarray', deps=d, store='fresh', fresh=True, axes=('k',), arange=list(args), dtype='int' if all(
            a.ty == 'int' for a in args) else None, sorted=True)
        if len(args) == 1:
            out = out.w(symlen=args[0].sym if args[0].sym is not None else ('v', norm_text(node.args[0])), idx=(args[0].lenof.idx if args[0].lenof.idx is not None else self.enum_index_kind(args[0].lenof)) if args[0].lenof is not None else None,
                        arange_n=args[0])
        elif len(args) >= 2:
            out = out.w(symlen=('arange', norm_text(node)))
        ms = [mono_of(a) for a in args]
        if ms and all(m is not None for m in ms):
            nz = [m for m in ms if m.coef != 0]
            if nz and all(m.deg == nz[0].deg for m in nz):
                out = out.w(mono=Mono(1.0, {f'arange[{nz[-1].text()}]': 1}, nz[0].deg, nz[0].unit))
        return out

    def np_linspace(self, interp, st, args, kwargs, node):
        d = self.deps_of(args, kwargs)
        n = self.arg(args, kwargs, 2, 'num')
        out = AV(ty='ndarray', deps=d, store='fresh', fresh=True, axes=('k',), linspace=list(args[:2]), sorted=True,
                 lin_n=n, axis=n.axis if n is not None else None)
        if n is not None:
            out = out.w(symlen=n.sym if n.sym is not None else (('c', cval(n)) if has_const(n) else ('v', norm_text(node.args[2]) if len(node.args) > 2 else '?')))
        dt = kwargs.get('dtype')
        if dt is not None and dt.ty == 'builtin':
            out = out.w(dtype=dt.name)
        m0, m1 = (mono_of(a) for a in args[:2]) if len(args) >= 2 else (None, None)
        if m1 is not None:
            out = out.w(mono=Mono(1.0, {f'linspace[{m1.text()}]': 1}, m1.deg, m1.unit))
        return out

    def np_mgrid(self, interp, st, args, kwargs, node):
        return AV(ty='ndarray')

    def np_concatenate(self, interp, st, args, kwargs, node, fn='concatenate'):
        seq = args[0] if args else kwargs.get('arrays')
        d = self.deps_of(args, kwargs)
        if seq is None:
            return AV(ty='ndarray')
        items = seq.elts if seq.elts is not None else ([seq.elem] if seq.elem is not None else [])
        arrs = [as_array(i) for i in items]
        out = AV(ty='ndarray', deps=d, store='fresh', fresh=True)
        if arrs:
            j = join_all(arrs)
            out = out.w(geo=j.geo, idx=j.idx, mono=j.mono, dtype=j.dtype, at=j.at, maybe_empty=None, symimg=j.symimg, unwrapped_image=j.unwrapped_image,
                        bin=j.bin if seq.elts is None else None,
                        rollwrap=True if any(a.rollwrap for a in arrs) else None)
            ats = {a.at if a.at is not None else 0 for a in arrs if a.idx is not None and a.idx[0] == 'FRAME'}
            if len(ats) > 1:
                interp.emit('frame_offset_mix', node, offsets=sorted(map(str, ats)))
                out = out.w(at='mixed')
            if j.geo_conflict:
                interp.emit('kind_mix', node, kinds=j.geo_conflict, fn=fn)
            lcs = [a.litconst for a in arrs]
            if fn in ('vstack', 'concatenate') and lcs and all(l is not None for l in lcs) and seq.elts is not None:
                try:
                    out = out.w(litconst=('c', [tuple(x) if isinstance(x, (list, tuple)) else x for l in lcs for x in l[1]]))
                except TypeError:
                    pass
            if fn in ('vstack', 'stack', 'array'):
                if seq.elts is not None:
                    out = out.w(rows=list(items))
                elif seq.elem is not None and seq.elem.colvals is not None:
                    out = out.w(colvals=seq.elem.colvals)
                elif seq.elem is not None and seq.elem.rows is not None:
                    out = out.w(rows=seq.elem.rows)
            ax = j.axes
            if fn == 'stack':
                a = axis_arg(args, kwargs, 1)
                # component-wise values (coordinates / their squares) without an xyz axis are single components: stacking
                # them lines the components up along the new axis
                comp = j.geo is not None and j.geo[0] in ('CART', 'CARTSQ', 'FRAC', 'FDIFF') and ax is not None and XYZ not in ax and not j.geo_conflict
                newname = XYZ if comp else 'stacked'
                if a in (-1,) or (ax is not None and a == len(ax)):
                    if seq.elts is not None and (ax is None or len(ax) == 1):
                        out = out.w(colvals=list(items), rows=None)  # 1-D arrays side by side: the columns of a table
                    else:
                        out = out.w(rows=None)
                if ax is not None and a in (-1, len(ax)):
                    out = out.w(axes=tuple(ax) + (newname,))
                elif ax is not None and a in ('none', 0):
                    out = out.w(axes=(newname,) + tuple(ax))
            elif fn == 'vstack':
                if ax is not None and len(ax) == 1:
                    out = out.w(axes=('row',) + tuple(ax))
                else:
                    out = out.w(axes=ax)
            else:
                out = out.w(axes=ax)
            if seq.elts is None and (seq.maybe_empty or seq.ty == 'list'):
                pass
            if any(a.maybe_empty for a in arrs) and not all(a.maybe_empty for a in arrs):
                pass
            elif arrs and all(a.maybe_empty for a in arrs):
                out = out.w(maybe_empty=True)
        return out

    def np_vstack(self, interp, st, args, kwargs, node):
        return self.np_concatenate(interp, st, args, kwargs, node, fn='vstack')

    def np_putmask(self, interp, st, args, kwargs, node):
        """np.putmask(a, mask, values): in-place a[mask] = values"""
        if len(args) < 3:
            return const(None)
        base, mask, value = as_array(args[0]), args[1], args[2]
        interp.emit('store', node, kind='putmask', base=base, index=mask, value=value, stmt=None)
        tgt = node.args[0] if (node is not None and node.args) else None
        new = base
        if base.geo == ('FRAC', 'C') and closes_wrap(mask.cmp, interp.sx(tgt)) and is_zero_fill(value):
            new = base.w(geo=('FRAC', 'W'))
        if isinstance(tgt, ast.Name) and tgt.id in st.env:
            st.env[tgt.id] = new
        return const(None)

    np_place = np_putmask

    def np_add_at(self, interp, st, args, kwargs, node):
        """np.add.at(a, indices, b): unbuffered a[indices] += b (every occurrence of an index counts)"""
        if len(args) >= 2:
            base, val = as_array(args[0]), (args[2] if len(args) > 2 else const(1))
            interp.emit('store', node, kind='add_at', base=base, index=args[1], value=val, stmt=None)
            if base.alloc in ('zeros', 'zeros_like') and has_const(val) and cval(val) == 1 and node is not None and node.args and base.mono is None:
                # a zero array incremented once per occurrence of an index: the multiplicities of the index tuples
                self.rebind(interp, st, None, node.args[0],
                            base.w(mono=Mono.atom('count'), filled_at=args[1], counted_by_add_at=True, dtype='int'))
        return const(None)

    def np_reshape(self, interp, st, args, kwargs, node):
        a = as_array(args[0]) if args else TOP
        shp = self.arg(args, kwargs, 1, 'newshape') or kwargs.get('shape')
        if shp is None:
            return a.w(axes=None)
        sargs = list(shp.elts) if shp.elts is not None else [shp]
        return self.array_method(interp, st, a, 'reshape', sargs, {}, node)

    def np_isin(self, interp, st, args, kwargs, node):
        el = as_array(args[0]) if args else TOP
        test = self.arg(args, kwargs, 1, 'test_elements')
        if test is not None and (test.ty in ('set', 'dictkeys', 'dictvalues') or (test.ty == 'dict')):
            # numpy wraps a set into a 0-d object array: no element is ever "in" it
            interp.emit('isin_set', node, arg=test)
        return AV(ty='ndarray', dtype='bool', axes=el.axes, deps=self.deps_of(args, kwargs), store='fresh', isin=(el, test))

    np_in1d = np_isin

    def np_swapaxes(self, interp, st, args, kwargs, node):
        return self.swapaxes(as_array(args[0]), args[1], args[2]).w(deps=self.deps_of(args, kwargs)) if len(args) == 3 else as_array(args[0]).w(axes=None)

    def np_moveaxis(self, interp, st, args, kwargs, node):
        return self.moveaxis(as_array(args[0]), args[1], args[2]).w(deps=self.deps_of(args, kwargs)) if len(args) == 3 else as_array(args[0]).w(axes=None)

    def np_column_stack(self, interp, st, args, kwargs, node):
        # column_stack of 1-D arrays = vstack(...).T
        v = self.np_concatenate(interp, st, args, kwargs, node, fn='vstack')
        return self.array_attr(interp, st, v, 'T', node).w(transposed=None, store='fresh', fresh=True)

    def np_union1d(self, interp, st, args, kwargs, node):
        both = AV(ty='tuple', elts=[as_array(a) for a in args[:2]])
        cat = self.np_concatenate(interp, st, [both], {}, node)
        return self.np_unique(interp, st, [cat], {}, node)

    def np_intersect1d(self, interp, st, args, kwargs, node):
        u = self.np_unique(interp, st, [as_array(args[0])], {}, node)
        return u.w(maybe_empty=True, deps=self.deps_of(args, kwargs))

    np_setdiff1d = np_intersect1d

    def np_hstack(self, interp, st, args, kwargs, node):
        return self.np_concatenate(interp, st, args, kwargs, node, fn='hstack')

    def np_stack(self, interp, st, args, kwargs, node):
        return self.np_concatenate(interp, st, args, kwargs, node, fn='stack')

    def np_append(self, interp, st, args, kwargs, node):
        d = self.deps_of(args, kwargs)
        a, b = as_array(args[0]), as_array(args[1])
        g = a.geo if (b.geo is None or b.geo == a.geo) else None
        return AV(ty='ndarray', geo=g, axes=a.axes, deps=d, store='fresh', fresh=True, mono=a.mono)

    def np_insert(self, interp, st, args, kwargs, node):
        a = as_array(args[0])
        return fresh(a).w(deps=self.deps_of(args, kwargs))

    def np_tile(self, interp, st, args, kwargs, node):
        a = as_array(args[0])
        reps = self.arg(args, kwargs, 1, 'reps')
        return fresh(a).w(deps=self.deps_of(args, kwargs), tiled=reps, tile_of=args[0], axes=a.axes if (reps is not None and reps.shapeof is None) else (reps.shapeof.axes if reps is not None else None))

    def np_pad(self, interp, st, args, kwargs, node):
        return fresh(as_array(args[0])).w(deps=self.deps_of(args, kwargs), padded=True)

    def np_transpose(self, interp, st, args, kwargs, node):
        x = as_array(args[0])
        perm = self.arg(args, kwargs, 1, 'axes')
        out = self.transpose(x, perm.elts if (perm is not None and perm.elts is not None) else []).w(deps=self.deps_of(args, kwargs))
        if perm is None:
            out = out.w(transposed=None if x.transposed else True)
        return out

    def np_roll(self, interp, st, args, kwargs, node):
        x = as_array(args[0])
        sh = self.arg(args, kwargs, 1, 'shift')
        ax = axis_arg(args, kwargs, 2)
        axname = x.axes[ax] if (x.axes is not None and isinstance(ax, int) and -len(x.axes) <= ax < len(x.axes)) else \
            ('flat' if (x.axes is not None and len(x.axes) > 1) else None)
        return x.w(rolled=(cval(sh) if sh is not None and has_const(sh) else '?', interp.sx(node.args[0]) if node.args else None, axname),
                   deps=self.deps_of(args, kwargs), store='fresh')

    def np_triu_indices_from(self, interp, st, args, kwargs, node):
        k = self.arg(args, kwargs, 1, 'k', const(0))
        return AV(ty='tuple', triu=(args[0], cval(k) if has_const(k) else '?'), deps=self.deps_of(args, kwargs), fancy=True,
                  elts=[AV(ty='ndarray', dtype='int'), AV(ty='ndarray', dtype='int')])

    def np_indices(self, interp, st, args, kwargs, node):
        # np.indices(shape): one integer grid per axis, grid k holds the position along axis k
        sh = args[0] if args else None
        n = len(sh.elts) if (sh is not None and sh.elts is not None) else (len(sh.shapeof.axes) if (sh is not None and sh.shapeof is not None and sh.shapeof.axes is not None) else None)
        d = self.deps_of(args, kwargs)
        if n is None:
            return AV(ty='ndarray', dtype='int', deps=d, store='fresh')
        return AV(ty='tuple', deps=d, elts=[AV(ty='ndarray', dtype='int', indexgrid=k, store='fresh', deps=d) for k in range(n)], fresh=True)

    def np_eye(self, interp, st, args, kwargs, node):
        k = self.arg(args, kwargs, 2, 'k', const(0))
        return AV(ty='ndarray', deps=self.deps_of(args, kwargs), store='fresh', fresh=True,
                  eye=cval(k) if has_const(k) else '?', dtype='bool' if 'dtype' in kwargs and kwargs['dtype'].ty == 'builtin' and kwargs['dtype'].name == 'bool' else None)

    def np_identity(self, interp, st, args, kwargs, node):
        return self.np_eye(interp, st, args[:1], {k: v for k, v in kwargs.items() if k == 'dtype'}, node)

    def np_ravel_multi_index(self, interp, st, args, kwargs, node):
        # np.ravel_multi_index((i, j, k), dims): the row-major linear index
        multi = args[0] if args else None
        dims = self.arg(args, kwargs, 1, 'dims')
        d = self.deps_of(args, kwargs)
        out = AV(ty='ndarray', dtype='int', deps=d, store='fresh')
        order = kwargs.get('order')
        c_order = order is None or (has_const(order) and cval(order) == 'C')
        if multi is not None and multi.elts is not None and dims is not None and dims.elts is not None and len(multi.elts) == len(dims.elts) and c_order:
            out = out.w(ravel=(list(multi.elts), list(dims.elts[1:])), axes=multi.elts[0].axes if multi.elts[0] is not None else None)
        return out

    def np_ndenumerate(self, interp, st, args, kwargs, node):
        return AV(ty='ndenumerate', of=as_array(args[0]), deps=args[0].deps)

    # ------------------------------------------------------------------ elementwise
    def np_elementwise(self, interp, st, name, args, kwargs, node):
        x = as_array(args[0]) if args and args[0].ty in ('ndarray', 'list', 'tuple') else (args[0] if args else TOP)
        d = self.deps_of(args, kwargs)
        if 'out' in kwargs:
            interp.emit('store', node, kind='out=', base=kwargs['out'], index=None, value=None, stmt=None)
        if 'where' in kwargs:
            # masked ufunc: entries where the mask is false keep the content of `out` (uninitialised without it)
            o = kwargs.get('out')
            interp.emit('masked_ufunc', node, fn=name, mask=kwargs['where'], out=o, fill=o.fill if o is not None else None)
        g = x.geo
        m = mono_of(x)
        out = x.only('ty', 'axes', 'prov', 'mono_unknown').w(deps=d, store='fresh' if x.ty == 'ndarray' else None, fn=(name, x))
        if name == 'sqrt':
            return out.w(geo=('DIST',) if g == ('DIST2',) else None, mono=m ** 0.5 if m is not None else None)
        if name == 'square':
            if is_fractional(g):
                interp.emit('euclid_on_frac', node, what='square of fractional components', arg=x)
            ng = ('CARTSQ', g[1]) if is_cart(g) else (('DIST2',) if g == ('DIST',) else None)
            return out.w(geo=ng, mono=m ** 2 if m is not None else None)
        if name in ('abs', 'absolute', 'negative', 'real', 'conj', 'trunc'):
            if name in ('abs', 'absolute') and x.fft is not None and x.fft[0] in ('ifft', 'irfft'):
                interp.emit('abs_of_inverse_fft', node, arg=x)
            return out.w(geo=g, mono=m, idx=x.idx, fft=x.fft if name in ('real', 'conj') else None)
        if name in ('floor', 'ceil', 'round', 'around', 'rint'):
            o = out.w(mono=m, intpart_of=(interp.sx(node.args[0]) if node is not None and node.args else None, x))
            if is_fdiff(g) and name in ('round', 'around', 'rint'):
                o = o.w(imgcorr=('round', x))
            return o
        if name in ('exp', 'log', 'log10', 'sin', 'cos', 'tan', 'arcsin', 'arccos', 'arctan'):
            if m is not None and m.deg != (0, 0, 0):
                interp.emit('transcendental_of_dimensional', node, fn=name, mono=m)
            interp.emit('transcendental', node, fn=name, arg=x)
            nm = Mono(1.0, {f'{name}({m.text() if m is not None else "?"})': 1})
            return out.w(mono=nm, logof=x if name == 'log' else None, geo=None)
        if name == 'sign':
            return out.w(mono=num(1.0).wrap('sign'), signof=x)
        if name in ('degrees', 'radians', 'deg2rad', 'rad2deg'):
            return out.w(mono=m, angle=name)
        if name in ('isfinite', 'isnan', 'isinf', 'isposinf', 'isneginf'):
            kinds = {'isnan': ('nan',), 'isinf': ('posinf', 'neginf'), 'isposinf': ('posinf',), 'isneginf': ('neginf',),
                     'isfinite': ('finite',)}[name]
            return AV(ty=x.ty if x.ty == 'ndarray' else 'bool', dtype='bool', deps=d, axes=x.axes, store='fresh', nonfinite_test=frozenset(kinds))
        if name == 'nan_to_num':
            return out.w(geo=g, mono=m, sanitized=True, idx=x.idx, prob=x.prob, energy=x.energy)
        return out

    def np_where(self, interp, st, args, kwargs, node):
        d = self.deps_of(args, kwargs)
        if len(args) == 1:
            return self.np_nonzero(interp, st, args, kwargs, node)
        cond, a, b = args[0], args[1], args[2]
        out = join(a if a.ty == 'ndarray' else as_array(a), b if b.ty == 'ndarray' else as_array(b)).w(deps=d, const=None, store='fresh', ty='ndarray')
        if out.geo is None and a.geo is not None and b.geo is None and (has_const(b) or is_zero_fill(b)):
            out = out.w(geo=a.geo)
        if out.geo is None and b.geo is not None and a.geo is None and (has_const(a) or is_zero_fill(a)):
            out = out.w(geo=b.geo)
        out = out.w(axes=a.axes if a.axes is not None else (b.axes if b.axes is not None else cond.axes))
        # single-step image correction idiom: where(d > 0.5, d - 1, d) / where(d < -0.5, d + 1, d)
        if cond.cmp is not None and a.bin is not None and node is not None and len(node.args) == 3:
            cop, cl, cr, ctext, _ = cond.cmp
            bo, bl, br, btext, _ = a.bin
            dtext = interp.sx(node.args[2])
            if (ctext == btext == dtext and has_const(cr) and has_const(br) and cval(br) == 1 and bo in ('+', '-')
                    and abs(abs(cval(cr)) - 0.5) < 0.01 and cop in ('<', '>', '<=', '>=')):
                direction = bo
                ok_dir = (cop in ('>', '>=') and bo == '-' and cval(cr) > 0) or (cop in ('<', '<=') and bo == '+' and cval(cr) < 0)
                g = b.geo
                if ok_dir and g is not None and g[0] == 'FDIFF':
                    if g[1] == 'W2':
                        ng = ('FDIFF', 'W1', direction)
                    elif g[1] == 'W1' and len(g) > 2 and g[2] != direction:
                        ng = ('FDIFF', 'CW')
                    elif g[1] in ('MI', 'CW'):
                        ng = g
                    else:
                        ng = g
                    interp.emit('image_correction', node, how='single', diff=b, base=b, direction=direction)
                    out = out.w(geo=ng)
        # closer idiom: where(x >= 1, 0, x)
        if cond.cmp is not None and is_zero_fill(a) and b.geo == ('FRAC', 'C') and node is not None and len(node.args) == 3:
            if closes_wrap(cond.cmp, interp.sx(node.args[2])):
                out = out.w(geo=('FRAC', 'W'))
        # mirrored form: where(x < 1, x, 0) / where(x != 1, x, 0)
        if cond.cmp is not None and is_zero_fill(b) and a.geo == ('FRAC', 'C') and node is not None and len(node.args) == 3:
            nc = norm_cmp(cond.cmp)
            if nc is not None and nc[0] in ('<', '!=') and nc[3] == interp.sx(node.args[1]) and cval(nc[2]) == 1:
                out = out.w(geo=('FRAC', 'W'))
        if cond.cmp is not None:
            out = out.w(where_cond=cond.cmp)
            # where(arr != marker, arange(n), 0) / where(arr == marker, 0, arange(n)): position of each valid entry along the last axis
            for op_, pos_, zero_ in (('!=', a, b), ('==', b, a)):
                if cond.cmp[0] != op_ or pos_.arange_n is None:
                    continue
                # invalid entries get the first position (0: forward fill by running maximum) or the last position
                # (n - 1: backward fill by running minimum from the right)
                sentinel = None
                if has_const(zero_) and cval(zero_) == 0:
                    sentinel = 'first'
                elif zero_.bin is not None and zero_.bin[0] == '-' and has_const(zero_.bin[2]) and cval(zero_.bin[2]) == 1 and zero_.bin[1] is not None \
                        and zero_.bin[1].shape_of and zero_.bin[1].shape_of == pos_.arange_n.shape_of:
                    sentinel = 'last'
                if sentinel is None:
                    continue
                src, marker = cond.cmp[1], cond.cmp[2]
                stext = cond.cmp[3]
                if src.ty != 'ndarray':
                    src, marker, stext = cond.cmp[2], cond.cmp[1], cond.cmp[4]
                n = pos_.arange_n
                axis_name = n.shape_of[0] if n.shape_of else None
                if src.axes is not None and axis_name is not None and src.axes[-1] == axis_name and len(pos_.arange or []) == 1:
                    out = out.w(axes=src.axes, idxtable=dict(src=stext, marker=marker, axis=axis_name, store=src.store, flipped=src.flipped, sentinel=sentinel))
        # np.where(arr != fill, np.arange(n), 0): index-selection table (ffill)
        return out

    def np_select(self, interp, st, args, kwargs, node):
        # np.select([c0, c1, ...], [v0, v1, ...], default): the first condition that holds picks the value
        conds, choices = (args[0] if args else None), (args[1] if len(args) > 1 else None)
        default = self.arg(args, kwargs, 2, 'default', const(0))
        d = self.deps_of(args, kwargs)
        if conds is None or choices is None or conds.elts is None or choices.elts is None or len(conds.elts) != len(choices.elts):
            return AV(ty='ndarray', deps=d, store='fresh')
        vals = [as_array(v) if v.ty != 'ndarray' else v for v in list(choices.elts) + [default]]
        out = join_all(vals).w(deps=d, const=None, store='fresh', ty='ndarray', axes=default.axes if default.axes is not None else vals[0].axes)
        # two-sided single-step image correction: select([d > 0.5, d < -0.5], [d - 1, d + 1], default=d)
        dnode = next((k.value for k in node.keywords if k.arg == 'default'), None) if node is not None else None
        if dnode is None and node is not None and len(node.args) > 2:
            dnode = node.args[2]
        dtext = interp.sx(dnode) if dnode is not None else None
        g = default.geo
        dirs = []
        for c, ch in zip(conds.elts, choices.elts):
            if c.cmp is None or ch.bin is None:
                dirs = None
                break
            cop, cl, cr, ctext, _ = c.cmp
            bo, bl, br, btext, _ = ch.bin
            ok = (ctext == btext == dtext and has_const(cr) and has_const(br) and cval(br) == 1 and bo in ('+', '-') and abs(abs(cval(cr)) - 0.5) < 0.01
                  and ((cop in ('>', '>=') and bo == '-' and cval(cr) > 0) or (cop in ('<', '<=') and bo == '+' and cval(cr) < 0)))
            if not ok:
                dirs = None
                break
            dirs.append(bo)
        if dirs and g is not None and g[0] == 'FDIFF':
            for bo in dirs:
                interp.emit('image_correction', node, how='single', diff=default, base=default, direction=bo)
            if set(dirs) == {'+', '-'} and g[1] in ('W2', 'W1'):
                out = out.w(geo=('FDIFF', 'CW'))
            elif len(set(dirs)) == 1 and g[1] == 'W2':
                out = out.w(geo=('FDIFF', 'W1', dirs[0]))
            else:
                out = out.w(geo=g)
        return out

    def np_nonzero(self, interp, st, args, kwargs, node):
        mask = args[0]
        d = self.deps_of(args, kwargs)
        idx = None
        at = None
        nowrap = False
        if mask.cmp is not None:
            o, l, r, lt, rt = mask.cmp
            if o == '!=':
                # a != np.roll(a, shift=s)  ->  frame index of a change
                for x, y, xt in ((l, r, lt), (r, l, rt)):
                    if y.rolled is not None and y.rolled[1] == xt:
                        s = y.rolled[0]
                        if s == -1:
                            idx, at = ('FRAME', 'roll'), 0
                        elif s == 1:
                            idx, at = ('FRAME', 'roll'), 1
                        else:
                            idx = ('FRAME', 'roll?')
                # x[1:] != x[:-1]: element t compares frame t + 1 with frame t, no wrap-around comparison exists
                if idx is None and l.shifted is not None and r.shifted is not None and l.shifted[1] == r.shifted[1]:
                    a_, b_ = (l.shifted, r.shifted) if l.shifted[0] >= r.shifted[0] else (r.shifted, l.shifted)
                    if a_[0] - b_[0] == 1 and b_[0] == 0 and a_[3] == 0 and b_[3] == 1:
                        idx, at = ('FRAME', 'roll'), 0
                        nowrap = True
        if idx is None and mask.bin is not None and mask.bin[0] in ('|', '&'):
            # change masks combined: (a != roll(a)) | (b != roll(b)), optionally & (arange(n) < n - 1)
            cm = _change_mask(mask)
            if cm is not None:
                idx, at, nowrap = ('FRAME', 'roll'), cm[0], not cm[1]
        e = AV(ty='ndarray', dtype='int', idx=idx, at=at, maybe_empty=True, deps=d, store='fresh', axes=('k',),
               nonzero_of=mask, rollwrap=True if (idx == ('FRAME', 'roll') and not nowrap) else None)
        n = len(mask.axes) if mask.axes is not None else None
        if n is not None and n > 1:
            # one index array per axis of the mask: positions along the atom axis are atom indices; along the frame axis of a
            # change mask they are the frames of a change
            cm = _change_mask(mask) if (mask.bin is not None or mask.cmp is not None or mask.nolast) else None
            elts = []
            for k in range(n):
                axn = mask.axes[k]
                if axn == 'atom':
                    elts.append(e.w(idx=('ATOM',), at=None, rollwrap=None))
                elif axn == 'frame' and cm is not None:
                    elts.append(e.w(idx=('FRAME', 'roll'), at=cm[0], rollwrap=True if cm[1] else None))
                else:
                    elts.append(e.w(idx=None, at=None, rollwrap=None))
            return AV(ty='tuple', elts=elts, deps=d, nonzero_of=mask)
        return AV(ty='tuple', elts=[e], deps=d, nonzero_of=mask, open_tuple=True if n is None else None)

    def np_flatnonzero(self, interp, st, args, kwargs, node):
        t = self.np_nonzero(interp, st, args, kwargs, node)
        return t.elts[0].w(nonzero_of=args[0]) if t.elts else AV(ty='ndarray', dtype='int')

    def np_argwhere(self, interp, st, args, kwargs, node):
        mask = as_array(args[0])
        return AV(ty='ndarray', dtype='int', maybe_empty=True, deps=self.deps_of(args, kwargs), store='fresh',
                  argwhere_of=mask, axes=('k', 'dim'))

    def np_unique(self, interp, st, args, kwargs, node):
        x = as_array(args[0]) if args[0].ty != 'DataFrame' else args[0]
        d = self.deps_of(args, kwargs)
        u = x.only('geo', 'idx', 'at', 'mono', 'dtype', 'colvals', 'cols', 'taint', 'rollwrap').w(ty='ndarray', deps=d, store='fresh', fresh=True, sorted=True,
                                                             unique_of=x, axes=x.axes if 'axis' in kwargs else ('k',),
                                                             maybe_empty=x.maybe_empty, datadep_len=True)
        if x.ty == 'DataFrame' and x.cols:
            u = u.w(colvals=list(x.cols.values()), colnames=list(x.cols))
        rc = kwargs.get('return_counts')
        if rc is not None and has_const(rc) and cval(rc):
            counts = AV(ty='ndarray', dtype='int', deps=d, store='fresh', counts_of=x, mono=Mono.atom('count'))
            return AV(ty='tuple', elts=[u, counts], deps=d)
        return u

    def np_digitize(self, interp, st, args, kwargs, node):
        x = self.arg(args, kwargs, 0, 'x')
        bins = self.arg(args, kwargs, 1, 'bins')
        right = kwargs.get('right')
        d = self.deps_of(args, kwargs)
        xa = as_array(x)
        out = AV(ty='ndarray', dtype='int', deps=d, store='fresh', digit=(xa, bins, cval(right) if (right is not None and has_const(right)) else False),
                 axes=xa.axes, axis=xa.axis, idx=('BIN',))
        interp.emit('digitize', node, x=xa, bins=bins, right=out.digit[2])
        # two-sided single-step image correction written with digitize (shape analysis)
        lc = bins.litconst if bins is not None else None
        if lc is None and bins is not None and bins.elts is not None and all(has_const(e) for e in bins.elts):
            lc = ('c', [cval(e) for e in bins.elts])
        if lc is not None and is_fdiff(xa.geo):
            vals = list(lc[1])
            if len(vals) == 2 and abs(vals[0] - 0.5) < 0.01 and abs(vals[1] + 0.5) < 0.01:
                out = out.w(imgcorr_raw=('single', xa))
        return out

    def np_searchsorted(self, interp, st, args, kwargs, node):
        # np.searchsorted(edges, x, side='left') == np.digitize(x, edges, right=True); side='right' == right=False
        a, v = self.arg(args, kwargs, 0, 'a'), self.arg(args, kwargs, 1, 'v')
        side = kwargs.get('side') or (args[2] if len(args) > 2 else None)
        s = cval(side) if (side is not None and has_const(side)) else 'left'
        kw = {'right': const(s == 'left')}
        return self.np_digitize(interp, st, [v, a], kw, node)

    def np_histogram(self, interp, st, args, kwargs, node):
        d = self.deps_of(args, kwargs)
        x = as_array(args[0])
        bins = self.arg(args, kwargs, 1, 'bins')
        interp.emit('histogram', node, x=x, bins=bins)
        sl = ('-', bins.symlen, ('c', 1)) if (bins is not None and bins.symlen is not None) else None
        return AV(ty='tuple', elts=[AV(ty='ndarray', dtype='int', deps=d, mono=Mono.atom('count'), hist_of=x, symlen=sl, axes=('k',)),
                                    bins if bins is not None else AV(ty='ndarray')], deps=d)

    def np_histogramdd(self, interp, st, args, kwargs, node):
        d = self.deps_of(args, kwargs)
        x = as_array(args[0]) if args else TOP
        interp.emit('histogramdd', node, x=x, bins=self.arg(args, kwargs, 1, 'bins'), range=kwargs.get('range') or (args[2] if len(args) > 2 else None))
        return AV(ty='tuple', elts=[AV(ty='ndarray', deps=d, store='fresh', mono=Mono.atom('count'), hist_of=x), AV(ty='list', elem=AV(ty='ndarray'))], deps=d)

    def np_bincount(self, interp, st, args, kwargs, node):
        d = self.deps_of(args, kwargs)
        ml = kwargs.get('minlength')
        interp.emit('bincount', node, x=args[0], minlength=ml)
        interp.emit('index', node, base=AV(ty='ndarray', alloc='bincount'), index=args[0], items=[args[0]])
        return AV(ty='ndarray', dtype='int', deps=d, store='fresh', mono=Mono.atom('count'), bincount_of=args[0], minlength=ml,
                  axes=('k',))

    def np_sort(self, interp, st, args, kwargs, node):
        return fresh(as_array(args[0])).w(deps=self.deps_of(args, kwargs), sorted=True, appearance_order=None)

    def np_array_split(self, interp, st, args, kwargs, node):
        x = as_array(args[0])
        n = self.arg(args, kwargs, 1, 'indices_or_sections')
        return AV(ty='list', elem=x.w(view_of=x.store), deps=self.deps_of(args, kwargs), split_of=(x, n), fresh=True)

    def np_diff(self, interp, st, args, kwargs, node):
        x = as_array(args[0])
        m = mono_of(x)
        return x.only('ty', 'geo', 'axes').w(deps=self.deps_of(args, kwargs), store='fresh', mono=m.wrap('diff') if m is not None else None,
                                             diff_of=x, signed=True, diff_src=interp.sx(node.args[0]) if (node is not None and node.args) else None,
                                             diff_kw={k: self.arg(args, kwargs, i, k) for i, k in ((1, 'n'), (2, 'axis'), (3, 'prepend'), (4, 'append'))})

    def np_maximum_accumulate(self, interp, st, args, kwargs, node):
        if 'out' in kwargs:
            interp.emit('store', node, kind='out=', base=kwargs['out'], index=None, value=None, stmt=None)
        x = as_array(args[0])
        out = x.w(deps=self.deps_of(args, kwargs))
        if x.idxtable is not None:
            ax = axis_arg(args, kwargs, 1)
            if ax in ('none',):
                ax = 0
            along = x.axes[ax] if (x.axes is not None and isinstance(ax, int) and -len(x.axes) <= ax < len(x.axes)) else None
            # running maximum of the valid positions = position of the most recent valid entry
            ok_ = along == x.idxtable['axis'] and x.idxtable.get('sentinel', 'first') == 'first'
            out = out.w(runmax=True if ok_ else None, idxtable=x.idxtable if ok_ else None)
        if 'out' not in kwargs:
            out = out.w(store='fresh', fresh=True)
        else:
            tgt = next((k.value for k in node.keywords if k.arg == 'out'), None) if node is not None else None
            if isinstance(tgt, ast.Name) and tgt.id in st.env:
                st.env[tgt.id] = out
        return out

    def np_minimum_accumulate(self, interp, st, args, kwargs, node):
        if 'out' in kwargs:
            interp.emit('store', node, kind='out=', base=kwargs['out'], index=None, value=None, stmt=None)
        x = as_array(args[0])
        out = x.w(deps=self.deps_of(args, kwargs), runmax=None, idxtable=None, store='fresh', fresh=True)
        t = x.idxtable
        if t is not None and t.get('sentinel') == 'last' and 'out' not in kwargs:
            ax = axis_arg(args, kwargs, 1)
            if ax in ('none',):
                ax = 0
            along = x.axes[ax] if (x.axes is not None and isinstance(ax, int) and -len(x.axes) <= ax < len(x.axes)) else None
            # running minimum taken from the far end (the table is reversed along the axis): position of the next valid entry
            if along == t['axis'] and x.flipped and along in x.flipped:
                out = out.w(runmax=True, idxtable=dict(t, back=True))
        return out

    def np_expand_dims(self, interp, st, args, kwargs, node):
        # np.expand_dims(a, axis=k): the same data with a length-one axis inserted (like a[:, None])
        a = as_array(args[0])
        ax = axis_arg(args, kwargs, 1)
        out = a.w(deps=self.deps_of(args, kwargs), view_of=a.store)
        if a.axes is not None and isinstance(ax, int) and -len(a.axes) - 1 <= ax <= len(a.axes):
            k = ax if ax >= 0 else len(a.axes) + 1 + ax
            out = out.w(axes=tuple(a.axes[:k]) + ('one',) + tuple(a.axes[k:]))
        else:
            out = out.w(axes=None)
        return out

    def np_take(self, interp, st, args, kwargs, node):
        # np.take(a, indices, axis=k) == a[:, ..., indices] along axis k (a copy)
        a = as_array(args[0])
        ind = self.arg(args, kwargs, 1, 'indices')
        ax = axis_arg(args, kwargs, 2)
        out = a.only('ty', 'geo', 'idx', 'mono', 'dtype', 'taint', 'origin', 'mono_unknown').w(store='fresh', fresh=True, deps=self.deps_of(args, kwargs))
        if a.axes is not None and isinstance(ax, int) and -len(a.axes) <= ax < len(a.axes) and ind is not None:
            k = ax % len(a.axes)
            if ind.ty in ('int',) and ind.ty != 'ndarray':
                out = out.w(axes=tuple(x for j, x in enumerate(a.axes) if j != k))
            else:
                name = a.axes[k]
                out = out.w(axes=tuple((x if j != k else (x if x.endswith('~') else x + '~')) for j, x in enumerate(a.axes)))
        interp.emit('index', node, base=a, index=ind, items=[ind] if ind is not None else [])
        return out

    def np_take_along_axis(self, interp, st, args, kwargs, node):
        arr = as_array(args[0])
        idx = self.arg(args, kwargs, 1, 'indices')
        ax = axis_arg(args, kwargs, 2)
        out = arr.only('ty', 'geo', 'idx', 'mono', 'dtype', 'taint', 'axes', 'origin').w(store='fresh', fresh=True, deps=self.deps_of(args, kwargs))
        if idx is not None and idx.runmax and idx.idxtable is not None and node is not None and node.args:
            t = idx.idxtable
            along = arr.axes[ax] if (arr.axes is not None and isinstance(ax, int) and -len(arr.axes) <= ax < len(arr.axes)) else None
            back = bool(t.get('back'))
            if back and idx.flipped and t['axis'] in idx.flipped:
                pass  # the running minimum was not turned back: positions do not line up with the array
            elif t['src'] == interp.sx(node.args[0]) and along == t['axis']:
                out = out.w(filled=dict(marker=t['marker'], axis=t['axis'], store=t['store'], inflip=bool(t['flipped'] and t['axis'] in t['flipped']) != back),
                            flipped=arr.flipped)
        return out

    # ------------------------------------------------------------------ reductions / linear algebra
    def np_reduce(self, interp, st, name, args, kwargs, node, axis_pos=1):
        x = as_array(args[0])
        d = self.deps_of(args, kwargs)
        axis = axis_arg(args, kwargs, axis_pos)
        new_axes, removed = removed_axes(x, axis)
        cum = name in ('cumsum', 'cumprod')
        if cum:
            new_axes = x.axes
        kd = kwargs.get('keepdims')
        if kd is not None and not (has_const(kd) and not cval(kd)):
            # keepdims: the reduced axes stay as axes of length one
            if has_const(kd) and x.axes is not None and '?' not in removed:
                new_axes = tuple('new' if a in removed else a for a in x.axes)
            else:
                new_axes = None
        g = x.geo
        ng = g
        xyz_removed = XYZ in removed or '*all*' in removed and False
        all_removed = axis == 'none'
        if g is not None:
            if g[0] == 'CARTSQ':
                if XYZ in removed or all_removed:
                    ng = ('DIST2',) if name in LINEAR_REDUCERS or name in ('sum',) else None
                    if name in ('mean', 'average') and not all_removed:
                        ng = None
                        interp.emit('cartsq_mean_xyz', node, arg=x)
                elif '?' in removed:
                    ng = None
            elif g[0] == 'CART':
                if (XYZ in removed or all_removed) and not cum:
                    interp.emit('cart_component_reduce', node, arg=x, fn=name)
                    ng = None
                elif name in LINEAR_REDUCERS or cum:
                    ng = g
                elif name in SPREAD_REDUCERS:
                    ng = ('CART', g[1], 'vec')
            elif g[0] == 'FRAC':
                if (XYZ in removed or all_removed) and not cum and name not in ORDER_REDUCERS:
                    ng = None
                elif name in LINEAR_REDUCERS:
                    if g[1] in ('W', 'C'):
                        interp.emit('wrapped_reduce', node, arg=x, fn=name)
                    ng = ('FRAC', 'N')
                elif name in ORDER_REDUCERS:
                    ng = g
                else:
                    ng = None
            elif g[0] == 'FDIFF':
                if XYZ in removed and not cum:
                    ng = None
                elif cum:
                    # running sum of minimum-image steps along the frame axis = unwrapped displacement
                    fr_ax = (x.axes is None and axis == 0) or (x.axes is not None and isinstance(axis, int) and x.axes[axis] == 'frame')
                    ng = ('FDIFF', 'CUM') if (g[1] == 'MI' and fr_ax and name == 'cumsum') else ('FDIFF', 'ANY')
                    if g[1] == 'MI' and not fr_ax:
                        interp.emit('cumsum_wrong_axis', node, arg=x, axis=axis)
                elif name in LINEAR_REDUCERS:
                    ng = ('FDIFF', 'MEAN', g[1], tuple(sorted(removed)))
                else:
                    ng = None
            elif g[0] in ('DIST', 'DIST2', 'ENERGY'):
                ng = g
        m = mono_of(x)
        nm = None
        if m is not None:
            if name in ('argmin', 'argmax', 'any', 'all'):
                nm = None
            else:
                tag = name if name not in ('amin', 'amax') else name[1:]
                nm = m.wrap(f'{tag}[{",".join(sorted(removed))}]' if removed else tag)
        width = None
        if name in ('min', 'amin'):
            if x.diff_of is not None and node is not None:
                width = x.diff_src
            elif x.pair_width is not None:
                width = x.pair_width
        out = AV(ty='ndarray' if (new_axes is None or len(new_axes) > 0) else 'float', minwidth=width, geo=ng, axes=new_axes, deps=d,
                 store='fresh', mono=nm, red=(name, x, axis, tuple(sorted(removed))), idx=x.idx if name in ORDER_REDUCERS else None,
                 mono_unknown=x.mono_unknown)
        if name in ('any', 'all') and x.litconst is not None and axis in (1, -1):
            try:
                fn_ = all if name == 'all' else any
                out = out.w(litconst=('c', [bool(fn_(row)) for row in x.litconst[1]]))
            except TypeError:
                pass
        if name in ('any', 'all'):
            if x.idx is not None and x.idx[0] in ('FRAME', 'SITE', 'ATOM', 'ATOMFRAME', 'LOCALSITE', 'BIN') and x.dtype != 'bool' and x.cmp is None and x.nonzero_of is not None:
                # .any() of an array of positions tests whether some position is non-zero, not whether there are any: position 0 counts as 'none'
                interp.emit('index_truthiness', node, arg=x, fn=name)
            out = out.w(dtype='bool', ty='bool' if axis == 'none' else 'ndarray', idx=None, mono=None, geo=None)
        if name in ('argmin', 'argmax'):
            out = out.w(dtype='int')
        w = kwargs.get('weights')
        if w is not None:
            out = out.w(weights=w)
        interp.emit('reduce', node, fn=name, arg=x, axis=axis, removed=removed, weights=w)
        return out

    def np_linalg_norm(self, interp, st, args, kwargs, node):
        x = as_array(args[0])
        axis = axis_arg(args, kwargs, 2)
        new_axes, removed = removed_axes(x, axis)
        g = x.geo
        ng = None
        if g is not None and g[0] == 'LATMAT':
            # rows are the lattice vectors: row norms (axis=1 / -1) are the cell lengths a, b, c
            rows = (axis in (1, -1)) != bool(x.transposed)
            if axis in (0, 1, -1):
                if not rows:
                    interp.emit('latmat_colnorm', node, arg=x, axis=axis)
                lens = AV(ty='ndarray', geo=('DIST',), axes=(XYZ,), deps=self.deps_of(args, kwargs), store='fresh',
                          mono=Mono.atom('len', (1, 0, 0), {'ang': 1}), tuple_of='lattice.lengths' if rows else 'lattice.column_norms')
                return lens
        if is_fractional(g) or (g is not None and g[0] == 'SYMIMG'):
            interp.emit('euclid_on_frac', node, what='Euclidean norm of fractional coordinates', arg=x)
        elif is_cart(g):
            if g[2] == 'rawdiff':
                interp.emit('nonperiodic_distance', node, arg=x)
            if XYZ in removed or axis == 'none':
                ng = ('DIST',)
            else:
                interp.emit('norm_wrong_axis', node, arg=x, axis=axis)
        kd = kwargs.get('keepdims')
        if kd is not None and has_const(kd) and cval(kd) and x.axes is not None and isinstance(axis, int):
            new_axes = tuple('one' if i == axis % len(x.axes) else a for i, a in enumerate(x.axes))
        m = mono_of(x)
        return AV(ty='ndarray', geo=ng, axes=new_axes, deps=self.deps_of(args, kwargs), store='fresh', mono=m.wrap('norm') if m is not None else None,
                  norm_of=x, norm_removed=tuple(sorted(removed)))

    def np_linalg_det(self, interp, st, args, kwargs, node):
        x = as_array(args[0])
        d = self.deps_of(args, kwargs)
        if x.geo is not None and x.geo[0] == 'LATMAT':
            return AV(ty='float', deps=d, mono=Mono.atom('volume', (3, 0, 0), {'ang': 3}), signed_volume=True)
        return AV(ty='float', deps=d)

    def np_dot(self, interp, st, args, kwargs, node):
        a, b = as_array(args[0]), as_array(args[1])
        if 'out' in kwargs:
            interp.emit('store', node, kind='out=', base=kwargs['out'], index=None, value=None, stmt=None)
        g = self.geo_dot(interp, a, b, node)
        ma, mb = mono_of(a), mono_of(b)
        m = (ma * mb).wrap('sum[dot]') if (ma is not None and mb is not None) else None
        axes = a.axes if (g is not None and g[0] in ('CART', 'COV')) else None
        interp.emit('dot', node, a=a, b=b)
        if g is not None and g[0] == 'CART' and is_fractional(a.geo) and b.geo is not None and b.geo[0] == 'LATMAT':
            # fractional @ lattice matrix: the definition of the Cartesian conversion
            interp.emit('to_cart', node, lattice=AV(ty='Lattice', frame=b.geo[1], from_matrix=b), arg=a)
        return AV(ty='ndarray', geo=g, axes=axes, deps=self.deps_of(args, kwargs), store='fresh', mono=m, dot=(a, b))

    np_matmul = np_dot

    def np_einsum(self, interp, st, args, kwargs, node):
        spec = args[0]
        ops = [as_array(a) for a in args[1:]]
        d = self.deps_of(args, kwargs)
        out = AV(ty='ndarray', deps=d, store='fresh', einsum=(cval(spec) if has_const(spec) else None, ops))
        interp.emit('einsum', node, spec=out.einsum[0], ops=ops)
        if has_const(spec) and len(ops) == 2:
            s = cval(spec).replace(' ', '')
            ins, _, res = s.partition('->')
            i1, _, i2 = ins.partition(',')
            a, b = ops
            if a.geo is not None and a.geo[0] == 'COV' and is_fractional(b.geo):
                # contraction of the metric-transformed vector with the vector itself over the xyz index
                contracted = set(i1) & set(i2) - set(res)
                if contracted and len(res) == len(set(i1) | set(i2)) - len(contracted):
                    inner = a.geo[1]
                    same = b.geo == inner
                    out = out.w(geo=('DIST2',), axes=None, mono=Mono.atom('len', (1, 0, 0), {'ang': 1}) ** 2,
                                metric_len=same)
            elif is_cart(a.geo) and b.geo is None:
                out = out.w(geo=('CART', 'XFORM', a.geo[2]))
            elif is_fractional(a.geo) and is_fractional(b.geo):
                interp.emit('euclid_on_frac', node, what='einsum product of fractional components', arg=a)
        return out

    # ------------------------------------------------------------------ fft
    def np_fft_fft(self, interp, st, args, kwargs, node, nm='fft'):
        x = as_array(args[0])
        axis = axis_arg(args, kwargs, 2)
        if axis == 'none':
            axis = -1
        g = x.geo
        along_xyz = (x.axes is not None and isinstance(axis, int) and x.axes[axis] == XYZ) or (x.axes is None and axis in (-1, 2) and g is not None and g[0] in ('CART', 'CARTSQ'))
        if along_xyz and g is not None:
            interp.emit('fft_over_xyz', node, arg=x)
            g = None
        m = mono_of(x)
        return x.only('ty', 'axes').w(geo=g, deps=self.deps_of(args, kwargs), store='fresh', mono=m.wrap('fft') if m is not None else None,
                                      fft=(nm, x))

    def np_fft_ifft(self, interp, st, args, kwargs, node):
        return self.np_fft_fft(interp, st, args, kwargs, node, 'ifft')

    def np_fft_rfft(self, interp, st, args, kwargs, node):
        return self.np_fft_fft(interp, st, args, kwargs, node, 'rfft')

    def np_fft_irfft(self, interp, st, args, kwargs, node):
        return self.np_fft_fft(interp, st, args, kwargs, node, 'irfft')
