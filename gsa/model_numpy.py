"""Library model, part 2: numpy arrays, operators, indexing, in-place stores."""

from __future__ import annotations

import ast
import operator

from .interp import AV, TOP, const, cval, has_const, join, join_all
from .kinds import Mono, is_cart, is_fdiff, is_frac, is_fractional, is_pow10, num, wrapped
from .model_base import deps_union
from .source import norm_text

XYZ = 'xyz'

OPN = {ast.Add: '+', ast.Sub: '-', ast.Mult: '*', ast.Div: '/', ast.FloorDiv: '//', ast.Mod: '%', ast.Pow: '**',
       ast.MatMult: '@', ast.BitAnd: '&', ast.BitOr: '|', ast.BitXor: '^', ast.LShift: '<<', ast.RShift: '>>'}
PYOP = {'+': operator.add, '-': operator.sub, '*': operator.mul, '/': operator.truediv, '//': operator.floordiv,
        '%': operator.mod, '**': operator.pow, '&': operator.and_, '|': operator.or_}
CMPN = {ast.Eq: '==', ast.NotEq: '!=', ast.Lt: '<', ast.LtE: '<=', ast.Gt: '>', ast.GtE: '>=', ast.Is: 'is',
        ast.IsNot: 'is not', ast.In: 'in', ast.NotIn: 'not in'}
PYCMP = {'==': operator.eq, '!=': operator.ne, '<': operator.lt, '<=': operator.le, '>': operator.gt,
         '>=': operator.ge}

ARRAYISH = ('ndarray', 'list', 'tuple')


def arr(**kw):
    kw.setdefault('ty', 'ndarray')
    return AV(**kw)


def fresh(av):
    return av.w(store='fresh', prov=None, fresh=True)


def mono_of(av):
    if av is None:
        return None
    if av.mono is not None:
        return av.mono
    if av.mono_unknown:
        return None  # computed from something outside the model: never fall back to the geometric kind
    if has_const(av) and isinstance(cval(av), (int, float)) and not isinstance(cval(av), bool):
        return num(cval(av))
    g = av.geo
    if g is not None:
        if g[0] in ('FRAC', 'FDIFF', 'SYMIMG'):
            return Mono.atom('frac')
        if g[0] in ('DIST', 'CART'):
            return Mono.atom('len', (1, 0, 0), {'ang': 1})
        if g[0] in ('DIST2', 'CARTSQ'):
            return Mono.atom('len', (1, 0, 0), {'ang': 1}) ** 2
    return None


def axis_arg(args, kwargs, pos=1):
    a = kwargs.get('axis')
    if a is None and pos is not None and len(args) > pos:
        a = args[pos]
    if a is None:
        return 'none'
    if has_const(a):
        return cval(a)
    return 'unknown'


def removed_axes(x, axis):
    """(new_axes, removed names) for a reduction of x over `axis` (const int / tuple / 'none' / 'unknown')."""
    axes = x.axes
    if axis == 'none' or axis is None:
        return (), set(axes) if axes else {'*all*'}
    if axis == 'unknown':
        return None, {'?'}
    idxs = axis if isinstance(axis, tuple) else (axis,)
    if axes is None:
        rem = set()
        for i in idxs:
            rem.add(XYZ if i in (-1, 2) else f'ax{i}')
        return None, rem
    n = len(axes)
    rem = set()
    keep = list(axes)
    for i in idxs:
        if not isinstance(i, int) or not -n <= i < n:
            return None, {'?'}
        rem.add(axes[i])
        keep[i % n] = None
    return tuple(a for a in keep if a is not None), rem


def _offset(av, text, base_text):
    """av == <base_text> + c  ->  c ; else None"""
    if text == base_text:
        return 0
    if av is not None and av.bin is not None:
        o, l, r, lt, rt = av.bin
        if o in ('+', '-') and lt == base_text and has_const(r) and isinstance(cval(r), int):
            return cval(r) if o == '+' else -cval(r)
        if o == '+' and rt == base_text and has_const(l) and isinstance(cval(l), int):
            return cval(l)
    return None


def _len_offset(av):
    """av == len(x) + c  ->  c ; else None"""
    if av is None:
        return None
    if av.lenof is not None or av.shape_of is not None or av.sizeof is not None:
        return 0
    if av.bin is not None:
        o, l, r, lt, rt = av.bin
        if o in ('+', '-') and (l.lenof is not None or l.shape_of is not None or l.sizeof is not None) and has_const(r) and isinstance(cval(r), int):
            return cval(r) if o == '+' else -cval(r)
    return None


def wrap_filter(cmp, base_text):
    """Classify idx[(idx + a) OP (len + b)] against the exact removal of the last valid index len - 1:
    'exact' keeps exactly t <= len - 2, 'strict' drops real indices too, 'loose' keeps len - 1, None unrecognised."""
    o, l, r, lt, rt = cmp
    if o in ('>', '>='):
        o = {'>': '<', '>=': '<='}[o]
        l, r, lt, rt = r, l, rt, lt
    if o not in ('<', '<=', '!='):
        return None
    a = _offset(l, lt, base_text)
    b = _len_offset(r)
    if a is None or b is None:
        return None
    if o == '!=':
        return 'exact' if b - a == -1 else None
    upper = b - a + (1 if o == '<=' else 0)  # keeps t < len + upper
    if upper == -1:
        return 'exact'
    return 'strict' if upper < -1 else 'loose'


def _is_nosite(v):
    return v is not None and (bool(v.nosite_marker) or v.gname == 'gemdat.transitions.NOSITE' or (has_const(v) and cval(v) == -1))


def _mask_meaning(mask, depth=6):
    """What a boolean mask says about NOSITE: (kind, base text, columns) with kind 'E' = true where the entry is a real site
    (element-wise), 'D' = true where it is the NOSITE marker, 'R' = true for rows whose entries are all real sites,
    'X' = true for rows that contain the marker. columns: None = every element of the compared array, else the set of
    column numbers (of the table named by base text) that were tested."""
    if mask is None or depth <= 0:
        return None
    if mask.nonzero_of is not None and mask.dtype != 'bool':
        # positions where a mask holds: selecting by them is selecting by the mask
        return _mask_meaning(mask.nonzero_of, depth - 1)
    if mask.inv_of is not None:
        m = _mask_meaning(mask.inv_of, depth - 1)
        if m is None:
            return None
        return ({'E': 'D', 'D': 'E', 'R': 'X', 'X': 'R'}[m[0]],) + m[1:]
    if mask.red is not None and mask.red[0] in ('all', 'any') and mask.red[1] is not None and mask.cmp is None:
        m = _mask_meaning(mask.red[1], depth - 1)
        if m is None or m[2] is not None:
            return None
        if mask.red[0] == 'all' and m[0] == 'E':
            return ('R', m[1], None)
        if mask.red[0] == 'any' and m[0] == 'D':
            return ('X', m[1], None)
        return None
    if mask.cmp is not None:
        o, l, r, lt, rt = mask.cmp
        if _is_nosite(l) and not _is_nosite(r):
            o, l, r, lt, rt = {'<': '>', '<=': '>=', '>': '<', '>=': '<='}.get(o, o), r, l, rt, lt
        kind = None
        if _is_nosite(r):
            kind = 'E' if o in ('!=', '>') else ('D' if o == '==' else None)
        elif has_const(r) and cval(r) == 0 and o == '>=':
            kind = 'E'
        elif has_const(r) and cval(r) == 0 and o == '<':
            kind = 'D'
        if kind is None:
            return None
        if l is not None and l.colsel is not None:
            return (kind, l.colsel[0], frozenset([l.colsel[1]]))
        return (kind, lt, None)
    if mask.bin is not None and mask.bin[0] in ('&', '|'):
        a, b = _mask_meaning(mask.bin[1], depth - 1), _mask_meaning(mask.bin[2], depth - 1)
        if a is None or b is None or a[1] != b[1]:
            return None
        op = mask.bin[0]
        if op == '&' and a[0] == b[0] and a[0] in ('E', 'R'):
            cols = None if (a[2] is None and b[2] is None) else ((a[2] or frozenset()) | (b[2] or frozenset()) if a[2] is not None and b[2] is not None else (a[2] or b[2]))
            return (a[0], a[1], cols)
        if op == '|' and a[0] == b[0] and a[0] in ('D', 'X'):
            cols = None if (a[2] is None and b[2] is None) else ((a[2] or frozenset()) | (b[2] or frozenset()) if a[2] is not None and b[2] is not None else (a[2] or b[2]))
            return (a[0], a[1], cols)
        return None
    if mask.cmp_src is not None:
        return _mask_meaning(AV(cmp=mask.cmp_src), depth - 1)
    return None


def sanitizer_of(mask, base_text, base=None):
    """True when `mask` is a boolean mask selecting the entries / rows of `base_text` that do not hold the NOSITE marker."""
    m = _mask_meaning(mask)
    if m is None:
        return False
    kind, text, cols = m
    if base_text is not None and text != base_text:
        return False
    if kind == 'R':
        return cols is None
    if kind == 'E':
        if cols is None:
            return True
        ncols = len(base.colvals) if (base is not None and base.colvals is not None) else None
        return ncols is not None and cols == frozenset(range(ncols))
    return False


def flip_axis(x, ax):
    """x reversed along axis `ax` (int): toggles the axis name in the `flipped` facet."""
    if x.axes is None or not isinstance(ax, int) or not -len(x.axes) <= ax < len(x.axes):
        return x.w(flipped=None, filled=None, idxtable=None, runmax=None)
    name = x.axes[ax]
    cur = set(x.flipped or ())
    cur ^= {name}
    return x.w(flipped=frozenset(cur) if cur else None)


def opnodes(node):
    """(left, right) operand nodes of a binary operation written as operator, augmented assignment, comparison or two-argument call."""
    if isinstance(node, ast.BinOp):
        return node.left, node.right
    if isinstance(node, ast.AugAssign):
        return node.target, node.value
    if isinstance(node, ast.Compare) and len(node.comparators) == 1:
        return node.left, node.comparators[0]
    if isinstance(node, ast.Call) and len(node.args) >= 2:
        return node.args[0], node.args[1]
    return None, None


_FLIP = {'<': '>', '<=': '>=', '>': '<', '>=': '<=', '==': '==', '!=': '!='}


def norm_cmp(cmp):
    """Comparison with its constant operand on the right: (op, value, constant, text of value) or None."""
    if cmp is None:
        return None
    o, l, r, lt, rt = cmp
    if has_const(r) and not has_const(l):
        return o, l, r, lt
    if has_const(l) and not has_const(r) and o in _FLIP:
        return _FLIP[o], r, l, rt
    return None


def is_zero_fill(v):
    """A scalar 0 or an array allocated as zeros."""
    if v is None:
        return False
    if has_const(v):
        try:
            return cval(v) == 0 and not isinstance(cval(v), bool)
        except Exception:
            return False
    return v.alloc in ('zeros', 'zeros_like') or (v.fill is not None and has_const(v.fill) and cval(v.fill) == 0 and v.alloc in ('full', 'full_like'))


def is_table(lc):
    """A literal 2-D table: ('c', [row tuple, ...])."""
    return lc is not None and bool(lc[1]) and all(isinstance(r, (tuple, list)) for r in lc[1])


def closes_wrap(cmp, target_text):
    """x == 1 / x >= 1 (either operand order) on the value whose text is target_text."""
    nc = norm_cmp(cmp)
    if nc is None:
        return False
    o, v, c, vt = nc
    return o in ('==', '>=') and vt == target_text and cval(c) == 1


class NumpyModel:
    # ------------------------------------------------------------------ operators
    def binop(self, interp, st, op, l, r, node):
        o = OPN.get(type(op), '?')
        d = deps_union(l, r)
        if has_const(l) and has_const(r) and o in PYOP:
            try:
                return const(PYOP[o](cval(l), cval(r))).w(deps=d)
            except Exception:
                pass
        # strings / paths / lists
        if l.ty == 'str' or r.ty == 'str':
            if o in ('+', '%') or (o == '*'):
                return AV(ty='str', deps=d)
        if l.ty == 'Path' and o == '/':
            return AV(ty='Path', deps=d)
        if l.ty in ('list', 'tuple') and r.ty in ('list', 'tuple') and o == '+':
            elts = (l.elts + r.elts) if (l.elts is not None and r.elts is not None) else None
            return AV(ty=l.ty, elts=elts, elem=join(l.elem, r.elem) if elts is None else None, deps=d, fresh=True,
                      concat=(l, r))
        if l.ty == 'list' and o == '*':
            return l.w(deps=d, elts=None, elem=join_all(l.elts) if l.elts else l.elem)
        is_arr = l.ty == 'ndarray' or r.ty == 'ndarray' or l.ty in ('Series', 'DataFrame') or r.ty in ('Series', 'DataFrame')
        ty = 'ndarray' if is_arr else (l.ty if l.ty == r.ty and l.ty in ('int', 'float') else
                                      ('float' if {l.ty, r.ty} <= {'int', 'float', 'FloatWithUnit', 'bool'} and l.ty and r.ty else None))
        if l.ty == 'Series' or r.ty == 'Series':
            ty = 'Series'
        if l.ty == 'FloatWithUnit' or r.ty == 'FloatWithUnit':
            ty = 'float'
        out = AV(ty=ty, deps=d)
        ln, rn = opnodes(node)
        ltext, rtext = interp.sx(ln), interp.sx(rn)
        out = out.w(bin=(o, l, r, ltext, rtext))
        if o == '-' and l.pair_pos == 1 and r.pair_pos == 0 and l.pair_src is not None and l.pair_src == r.pair_src:
            out = out.w(pair_width=l.pair_src)  # length of one part of a partition
        if o == '-' and l.shifted is not None and r.shifted is not None and l.shifted[1] == r.shifted[1] \
                and (l.shifted[0], l.shifted[3]) == (1, 0) and (r.shifted[0], r.shifted[3]) == (0, 1):
            out = out.w(pair_width=l.shifted[1])  # e[1:] - e[:-1]: the lengths of all parts
        # elementwise result of a 1-D array of known symbolic length and a scalar / an array of the same length
        if ty == 'ndarray':
            sl, sr = (l.symlen if l.ty == 'ndarray' else None), (r.symlen if r.ty == 'ndarray' else None)
            if (sl is not None and (r.ty in ('int', 'float', 'bool', 'FloatWithUnit') or sr == sl)) or \
                    (sr is not None and l.ty in ('int', 'float', 'bool', 'FloatWithUnit')):
                out = out.w(symlen=sl if sl is not None else sr)
        # row-major linear index in Horner form: ((i * n1 + j) * n2 + k)
        if ty == 'ndarray' and o in ('*', '+'):
            for a_, b_ in ((l, r), (r, l)):
                if o == '*' and b_.ty == 'int' and a_.ty == 'ndarray':
                    if a_.digit is not None and a_.ravel is None:
                        out = out.w(ravel=([a_], [b_]))
                    elif a_.ravel is not None and len(a_.ravel[0]) == len(a_.ravel[1]) + 1:
                        out = out.w(ravel=(a_.ravel[0], a_.ravel[1] + [b_]))
                    break
                if o == '+' and a_.ravel is not None and len(a_.ravel[0]) == len(a_.ravel[1]) and b_.ty == 'ndarray' and b_.digit is not None and b_.ravel is None:
                    out = out.w(ravel=(a_.ravel[0] + [b_], a_.ravel[1]))
                    break
        # per-axis lengths a, b, c (and those divided by the grid size) stay per-axis lengths
        if o == '/' and (l.tuple_of == 'lattice.lengths' or l.per_axis_len) and r.geo is None:
            out = out.w(per_axis_len=True)
        # arithmetic with (a row of) a literal table remembers the table
        tb = [x.tbl if x.tbl is not None else (x.litconst if (x.ty == 'ndarray' and is_table(x.litconst)) else None) for x in (l, r)]
        if (tb[0] is None) != (tb[1] is None):
            out = out.w(tbl=tb[0] if tb[0] is not None else tb[1])
        g = self.geo_binop(interp, o, l, r, node)
        # voxel coordinates times the voxel edge lengths (cell lengths / grid size): Cartesian only in an orthogonal cell
        for a_, b_ in ((l, r), (r, l)):
            if o == '*' and g is None and b_.per_axis_len and a_.ty in (None, 'ndarray', 'tuple', 'list') and not has_const(a_) and not a_.per_axis_len and a_.geo is None:
                interp.emit('ortho_assumption', node, left=l, right=r)
                g = ('CART', 'ORTHO', 'vec')
                break
        out = out.w(geo=g)
        # axes: broadcasting keeps the axes of the higher-rank operand when known
        ax = l.axes if l.axes is not None else r.axes
        if l.axes is not None and r.axes is not None and len(r.axes) > len(l.axes):
            ax = r.axes
        out = out.w(axes=ax)
        # index kinds
        out = out.w(idx=self.idx_binop(o, l, r), at=self.at_binop(o, l, r))
        if l.axis is not None and (r.axis is None or r.axis == l.axis):
            out = out.w(axis=l.axis)
        elif r.axis is not None and l.axis is None:
            out = out.w(axis=r.axis)
        elif l.axis is not None and r.axis is not None and l.axis != r.axis:
            interp.emit('axis_mix', node, left=l, right=r, op=o)
        # monomials
        m_ = self.mono_binop(interp, o, l, r, node)
        out = out.w(mono=m_)
        if m_ is None and o in ('+', '-', '*', '/', '//', '**', '@', '%') and (
                l.mono_unknown or r.mono_unknown or mono_of(l) is not None or mono_of(r) is not None):
            out = out.w(mono_unknown=True)
        # symbolic integer arithmetic (lengths)
        out = out.w(sym=self.sym_binop(o, l, r))
        if is_arr:
            out = out.w(store='fresh', fresh=True)
        if o == '/' and r.red is not None and r.red[0] in ('sum', 'max', 'amax') and r.red[1] is not None:
            same = r.red[1] == l.only(*[k for k in r.red[1].f]) or r.red[1] == l
            out = out.w(norm=(r.red[0], bool(same)))
        if l.imgcorr is not None or r.imgcorr is not None:
            out = self.apply_imgcorr(interp, o, l, r, node, out)
        if l.taint or r.taint:
            out = out.w(taint=(l.taint or frozenset()) | (r.taint or frozenset()))
        if l.role is not None and has_const(r):
            out = out.w(role=l.role)
        elif r.role is not None and has_const(l):
            out = out.w(role=r.role)
        if (l.rollwrap and has_const(r)) or (r.rollwrap and has_const(l)):
            out = out.w(rollwrap=l.rollwrap or r.rollwrap)
        return out

    def sym_binop(self, o, l, r):
        def s(a):
            if a.sym is not None:
                return a.sym
            if has_const(a) and isinstance(cval(a), (int, float)) and not isinstance(cval(a), bool):
                return ('c', cval(a))
            return None
        sl, sr = s(l), s(r)
        if sl is None or sr is None:
            return None
        if sl[0] == 'c' and sr[0] == 'c':
            return None
        return (o, sl, sr)

    def idx_binop(self, o, l, r):
        li, ri = l.idx, r.idx
        # group-local numbers shifted by something that is not a literal: no longer local numbers, not provably global ones
        if o in ('+', '-') and li == ('LOCALSITE',) and ri is None and not has_const(r):
            return ('MIX', li, ('OFFSET',))
        if o == '+' and ri == ('LOCALSITE',) and li is None and not has_const(l):
            return ('MIX', ri, ('OFFSET',))
        if li is not None and ri is None and o in ('+', '-') and has_const(r):
            if li[0] == 'FRAME':
                return li
            return li
        if li is not None and ri is None and o == '*':
            return li  # encoders: states * 1e6
        if li is None and ri is not None and o in ('+', '*'):
            return ri
        if li is not None and ri is not None:
            if o in ('+',) and li[0] == ri[0] == 'ENC':
                return li
            if o in ('-',) and li[0] == ri[0] == 'FRAME':
                return ('FRAMEDIFF',)
            return ('MIX', li, ri)
        return None

    def at_binop(self, o, l, r):
        # frame offset tag of a FRAME index: t (last frame before the change) / t+1
        if l.idx is not None and l.idx[0] == 'FRAME' and has_const(r) and o in ('+', '-'):
            k = cval(r) if o == '+' else -cval(r)
            cur = l.at if l.at is not None else 0
            if cur == 'mixed':
                return 'mixed'
            if isinstance(k, int):
                return cur + k
        if r.idx is not None and r.idx[0] == 'FRAME' and has_const(l) and o == '+':
            cur = r.at if r.at is not None else 0
            if cur == 'mixed':
                return 'mixed'
            if isinstance(cval(l), int):
                return cur + cval(l)
        return None

    def mono_binop(self, interp, o, l, r, node):
        ml, mr = mono_of(l), mono_of(r)
        if o in ('+', '-'):
            if ml is None or mr is None:
                return None
            # a bare literal carries whatever unit its partner has (0.5 * d - 0.005)
            if not mr.atoms and ml.atoms and has_const(r):
                return Mono(ml.coef, ml.atoms, ml.deg, ml.unit, ml.opaque) if mr.coef == 0 else Mono(ml.coef, {**ml.atoms, f'offset{o}{abs(mr.coef):g}': 1}, ml.deg, ml.unit, ml.opaque)
            if not ml.atoms and mr.atoms and has_const(l):
                c = mr.coef if o == '+' else (-mr.coef if mr.coef is not None else None)
                return Mono(c, mr.atoms, mr.deg, mr.unit, mr.opaque) if ml.coef == 0 else Mono(c, {**mr.atoms, f'offset+{abs(ml.coef):g}': 1}, mr.deg, mr.unit, mr.opaque)
            if ml.deg != mr.deg and not (ml.coef == 0 or mr.coef == 0):
                interp.emit('degree_mismatch', node, left=ml, right=mr, op=o)
                return None
            if ml.coef == 0:
                return mr
            if mr.coef == 0:
                return ml
            if ml.same_atoms(mr):
                # same kind of quantity, but not necessarily the same value: magnitude unknown
                c = None
                if not ml.atoms and ml.coef is not None and mr.coef is not None:
                    c = ml.coef + mr.coef if o == '+' else ml.coef - mr.coef
                return Mono(c, ml.atoms, ml.deg, ml.unit, ml.opaque or mr.opaque)
            return Mono(1.0, {f'({ml.text()} {o} {mr.text()})': 1}, ml.deg, ml.unit if ml.unit == mr.unit else {},
                        ml.opaque or mr.opaque)
        if ml is None or mr is None:
            if o == '**' and ml is not None and has_const(r):
                pass
            else:
                return None
        if o == '*':
            # literal powers of ten are unit-scale conversions (1e-3 m^-3 -> l^-1, 1e12 s -> ps)
            for a, m, other in ((l, ml, mr), (r, mr, ml)):
                if has_const(a) and a.gname is None and not m.atoms:
                    k = is_pow10(m.coef)
                    if k is not None and other.unit:
                        u = dict(other.unit)
                        u['10'] = u.get('10', 0) - k
                        return Mono(other.coef, other.atoms, other.deg, u, other.opaque)
            return ml * mr
        if o in ('/', '//'):
            if has_const(r) and r.gname is None and not mr.atoms:
                k = is_pow10(mr.coef)
                if k is not None and ml.unit:
                    u = dict(ml.unit)
                    u['10'] = u.get('10', 0) + k
                    return Mono(ml.coef, ml.atoms, ml.deg, u, ml.opaque)
            res = ml / mr
            if o == '//':
                res = res.wrap('floor')
            return res
        if o == '**':
            if has_const(r) and isinstance(cval(r), (int, float)):
                return ml ** cval(r)
            return None
        if o == '%':
            return ml
        if o == '@':
            return (ml * mr).wrap('sum')
        return None

    def geo_binop(self, interp, o, l, r, node):
        gl, gr = l.geo, r.geo
        if gl is None and gr is None:
            return None
        if o in ('+', '-'):
            if is_frac(gl) or (gl is not None and gl[0] == 'SYMIMG'):
                if is_frac(gr) or (gr is not None and gr[0] == 'SYMIMG'):
                    if o == '-':
                        return ('FDIFF', 'W2') if (wrapped(gl) and wrapped(gr)) else ('FDIFF', 'ANY')
                    return ('FRAC', 'N')
                if is_fdiff(gr) or gr is None:
                    return ('FRAC', 'N')
            if is_fdiff(gl):
                if is_frac(gr):
                    return ('FRAC', 'N') if o == '+' else ('FDIFF', 'ANY')
                if is_fdiff(gr):
                    return ('FDIFF', 'ANY')
                if gr is None:
                    return ('FDIFF', 'ANY')
            if gl is None and (is_frac(gr)):
                return ('FRAC', 'N')
            if gl is None and is_fdiff(gr):
                return ('FDIFF', 'ANY')
            if is_cart(gl) and is_cart(gr):
                if gl[1] != gr[1]:
                    interp.emit('frame_mix', node, left=gl, right=gr)
                    return None
                pv = 'vec' if o == '-' else ('pos' if 'pos' in (gl[2], gr[2]) else 'vec')
                if o == '-' and gl[2] == 'pos' and gr[2] == 'pos':
                    return ('CART', gl[1], 'rawdiff')  # difference of two positions without any periodic reduction
                return ('CART', gl[1], pv)
            if is_cart(gl) and gr is None:
                return gl
            if is_cart(gr) and gl is None:
                return gr
            if gl is not None and gr is not None and gl[0] == gr[0] and gl[0] in ('DIST', 'DIST2', 'CARTSQ', 'ENERGY'):
                return gl
            if gl is not None and gl[0] in ('DIST', 'DIST2', 'CARTSQ', 'ENERGY') and gr is None:
                return gl
            if gr is not None and gr[0] in ('DIST', 'DIST2', 'CARTSQ', 'ENERGY') and gl is None:
                return gr
            if gl is not None and gr is not None and {gl[0], gr[0]} == {'CARTSQ', 'DIST2'}:
                interp.emit('sq_mix', node, left=gl, right=gr)
                return None
            if gl is not None and gr is not None and {gl[0], gr[0]} & {'FRAC', 'FDIFF'} and {gl[0], gr[0]} & {'CART', 'DIST'}:
                interp.emit('frac_cart_mix', node, left=gl, right=gr)
            return None
        if o in ('*', '/', '//', '@'):
            if o == '@':
                return self.geo_dot(interp, l, r, node)
            if o == '*' and ((is_fractional(gl) and r.tuple_of == 'lattice.lengths') or (is_fractional(gr) and l.tuple_of == 'lattice.lengths')):
                interp.emit('ortho_assumption', node, left=l, right=r)
                return ('CART', 'ORTHO', 'vec')

            if gl is not None and gr is None:
                g, other = gl, r
            elif gr is not None and gl is None and o == '*':
                g, other = gr, l
            elif gl is not None and gr is not None:
                if is_cart(gl) and is_cart(gr) and o == '*':
                    return ('CARTSQ', gl[1])
                if gl[0] == 'DIST' and gr[0] == 'DIST':
                    return ('DIST2',) if o == '*' else None
                if is_cart(gl) and gr[0] == 'DIST' and o == '/':
                    return ('CART', gl[1], 'vec')
                if is_cart(gl) and gr[0] == 'DIST' and o == '*':
                    return gl
                if gl[0] == 'DIST' and is_cart(gr) and o == '*':
                    return gr
                if is_fractional(gl) and is_fractional(gr) and o == '*':
                    interp.emit('euclid_on_frac', node, what='product of fractional components', arg=l)
                if gl[0] in ('DIST2', 'CARTSQ') and gr[0] in ('DIST2', 'CARTSQ') and o == '/':
                    return None
                return None
            else:
                return None
            if g[0] in ('CART', 'DIST', 'DIST2', 'CARTSQ', 'ENERGY'):
                return g
            if g[0] == 'FOLD' and o == '*':
                # np.mod(x, 1 / s) * s : supercell folding back onto the closed unit interval
                otext = interp.sx(node.right if other is r else node.left) if isinstance(node, ast.BinOp) else None
                if otext is not None and g[2] in (f'1 / {otext}', f'1.0 / {otext}'):
                    interp.emit('fold', node, ok=True, divisor=g[2], factor=otext)
                    return ('FRAC', 'C')
                interp.emit('fold', node, ok=False, divisor=g[2], factor=otext)
                return None
            if g[0] == 'FDIFF':
                return ('FDIFF', 'ANY')
            if g[0] == 'FRAC':
                return ('FRACSCALED', norm_text(node)[:60]) if other is not None else None
            return None
        if o == '**':
            if has_const(r) and gl is not None:
                p = cval(r)
                if p == 2:
                    if is_cart(gl):
                        return ('CARTSQ', gl[1])
                    if gl[0] == 'DIST':
                        return ('DIST2',)
                    if is_fractional(gl):
                        interp.emit('euclid_on_frac', node, what='square of fractional components', arg=l)
                        return None
                if p == 0.5 and gl[0] == 'DIST2':
                    return ('DIST',)
            return None
        if o == '%':
            return self.geo_mod(interp, l, r, node)
        return None

    def geo_mod(self, interp, l, r, node):
        gl = l.geo
        if gl is None:
            return None
        if has_const(r) and cval(r) == 1:
            if gl[0] == 'FRAC' and gl[1] in ('C', 'W'):
                return ('FRAC', 'W')
            if gl[0] in ('FRAC', 'FDIFF', 'SYMIMG'):
                return ('FRAC', 'C')
            return None
        if gl[0] in ('FRAC',):
            rt = None
            if isinstance(node, ast.BinOp):
                rt = interp.sx(node.right)
            elif isinstance(node, ast.Call) and len(node.args) > 1:
                rt = interp.sx(node.args[1])
            return ('FOLD', gl, rt)
        return None

    def geo_dot(self, interp, a, b, node):
        ga, gb = a.geo, b.geo
        if is_fractional(ga) or (ga is not None and ga[0] == 'SYMIMG'):
            if gb is not None and gb[0] == 'LATMAT':
                if ga == ('FDIFF', 'CW'):
                    interp.emit('cw_to_cart', node, arg=a)
                if ga[0] == 'FDIFF' and ga[1] in ('W2', 'W1'):
                    interp.emit('unreduced_diff', node, arg=a)
                return ('CART', gb[1], 'pos' if ga[0] != 'FDIFF' else 'vec')
            if gb is not None and gb[0] in ('METRIC', 'METRIC_T'):
                return ('COV', ga)
            if gb is None:
                return None
        if ga is not None and ga[0] == 'COV' and is_fractional(gb):
            return ('DIST2',)
        if ga is not None and ga[0] == 'LATMAT' and (is_fractional(gb) or (gb is not None and gb[0] == 'SYMIMG')):
            # rows of the matrix are the lattice vectors: Cartesian = v @ M = M^T v.  M @ v needs the transposed matrix
            vt = bool(b.transposed)
            if bool(a.transposed):
                return ('CART', ga[1], 'pos' if gb[0] != 'FDIFF' else 'vec')
            interp.emit('wrong_convention', node, a=a, b=b)
            return ('CART', 'WRONG', 'vec')
        if ga is not None and ga[0] == 'LATMAT' and gb is not None and gb[0] == 'LATMAT':
            # rows of the matrix are the lattice vectors: the metric tensor is M M^T (not M^T M)
            at, bt = bool(a.transposed), bool(b.transposed)
            if not at and bt:
                return ('METRIC',)
            if at and not bt:
                interp.emit('wrong_metric', node, a=a, b=b)
                return ('METRIC_T',)
            return None
        if ga is not None and ga[0] == 'LATMAT':
            return None
        if is_cart(ga) and gb is None:
            return ('CART', 'XFORM', ga[2])
        if gb is not None and gb[0] == 'LATMAT' and ga is None:
            return None  # unknown @ lattice matrix: nothing can be said about the product
        return None

    def unaryop(self, interp, st, op, v, node):
        if has_const(v):
            try:
                if isinstance(op, ast.USub):
                    return const(-cval(v)).w(deps=v.deps)
                if isinstance(op, ast.Not):
                    return const(not cval(v)).w(deps=v.deps)
                if isinstance(op, ast.UAdd):
                    return v
            except Exception:
                pass
        if isinstance(op, ast.Not):
            return AV(ty='bool', deps=v.deps, neg_of=v)
        if isinstance(op, ast.USub):
            m = mono_of(v)
            out = v.w(const=None, store='fresh' if v.ty == 'ndarray' else None, neg=not v.neg if v.neg else True)
            if m is not None:
                out = out.w(mono=Mono(-m.coef if m.coef is not None else None, m.atoms, m.deg, m.unit, m.opaque))
            if is_fdiff(v.geo):
                out = out.w(geo=v.geo)
            return out
        if isinstance(op, ast.Invert):
            return v.w(const=None, cmp=None, inv_of=v)
        return v.w(const=None)

    def compare(self, interp, st, l, ops, rs, node):
        d = deps_union(l, *rs)
        if len(ops) == 1:
            o = CMPN.get(type(ops[0]), '?')
            r = rs[0]
            if has_const(l) and has_const(r):
                try:
                    if o in PYCMP:
                        return const(bool(PYCMP[o](cval(l), cval(r)))).w(deps=d)
                    if o == 'in':
                        return const(cval(l) in cval(r)).w(deps=d)
                    if o == 'not in':
                        return const(cval(l) not in cval(r)).w(deps=d)
                    if o == 'is':
                        return const(cval(l) is cval(r)).w(deps=d)
                    if o == 'is not':
                        return const(cval(l) is not cval(r)).w(deps=d)
                except Exception:
                    pass
            if o in ('is', 'is not') and r.ty == 'None':
                if l.ty == 'None':
                    return const(o == 'is')
                if l.ty is not None and not l.maybe_none and not l.union and l.is_param is None:
                    return const(o == 'is not')
            # finite value sets of strings
            if l.valset is not None and has_const(r):
                if o == '==' and cval(r) not in l.valset:
                    return const(False)
                if o == '!=' and cval(r) not in l.valset:
                    return const(True)
                if o == 'in' and isinstance(cval(r), (tuple, list)) and not (set(cval(r)) & l.valset):
                    return const(False)
                if o == 'in' and isinstance(cval(r), (tuple, list)) and l.valset <= set(cval(r)):
                    return const(True)
                if o == 'not in' and isinstance(cval(r), (tuple, list)) and not (set(cval(r)) & l.valset):
                    return const(True)
                if o == 'not in' and isinstance(cval(r), (tuple, list)) and l.valset <= set(cval(r)):
                    return const(False)
            is_arr = (l.ty in ('ndarray', 'Series', 'DataFrame') or r.ty in ('ndarray', 'Series', 'DataFrame')) and o not in ('is', 'is not', 'in', 'not in')
            ln, rn = opnodes(node)
            ltext, rtext = interp.sx(ln), interp.sx(rn)
            ml, mr = mono_of(l), mono_of(r)
            if o in ('<', '<=', '>', '>=', '==', '!=') and ml is not None and mr is not None:
                if ml.deg != mr.deg and ml.coef != 0 and mr.coef != 0:
                    interp.emit('degree_mismatch', node, left=ml, right=mr, op=o)
            if o in ('in', 'not in'):
                interp.emit('membership', node, item=l, container=r, op=o)
            lit_out = None
            if is_arr and o in PYCMP:
                for a_, b_, swap in ((l, r, False), (r, l, True)):
                    if a_.litconst is not None and has_const(b_) and isinstance(cval(b_), (int, float)) and not isinstance(cval(b_), bool):
                        try:
                            f_ = (lambda x: PYCMP[o](cval(b_), x)) if swap else (lambda x: PYCMP[o](x, cval(b_)))
                            lit_out = ('c', [tuple(bool(f_(x)) for x in row) if isinstance(row, (tuple, list)) else bool(f_(row)) for row in a_.litconst[1]])
                        except Exception:
                            lit_out = None
                        break
            out = AV(ty='ndarray' if is_arr else 'bool', deps=d, cmp=(o, l, r, ltext, rtext), dtype='bool', litconst=lit_out,
                     axes=l.axes if l.axes is not None else r.axes, store='fresh' if is_arr else None)
            if l.ty == 'Series' or r.ty == 'Series':
                out = out.w(ty='Series')
            return out
        return AV(ty='bool', deps=d, chain=[(CMPN.get(type(o), '?')) for o in ops], chain_vals=[l] + list(rs))

    # ------------------------------------------------------------------ image corrections
    def apply_imgcorr(self, interp, o, l, r, node, out):
        base, corr = (l, r) if r.imgcorr is not None else (r, l)
        kind, diff = corr.imgcorr
        ln, rn = opnodes(node)
        btxt = interp.sx(ln if (corr is r or isinstance(node, ast.AugAssign)) else rn)
        stxt = corr.intpart_of[0] if corr.intpart_of else None
        if kind == 'round' and btxt is not None and stxt is not None and not (stxt == btxt or stxt.startswith(btxt + ' - ')):
            # the integer part was computed from a different array (e.g. one frame only): not a reduction of this value
            interp.emit('image_correction', node, how='mismatch', diff=diff, base=base, source=stxt)
            return out.w(geo=base.geo, imgcorr=None)
        interp.emit('image_correction', node, how=kind, diff=diff, base=base)
        if is_frac(base.geo) or is_fdiff(base.geo):
            # rounding / single-step corrections reduce every component to [-0.5, 0.5] ("componentwise"): this is the minimum
            # image only while the true vector is short compared with the cell (bonds, points inside a small radius)
            return out.w(geo=('FRAC', 'N') if is_frac(base.geo) else ('FDIFF', 'CW'), imgcorr=None)
        return out.w(imgcorr=None)

    # ------------------------------------------------------------------ subscripts
    def subscript(self, interp, st, base, idx, node, frame):
        d = deps_union(base, idx)
        ty = base.ty
        if ty in ('tuple', 'list') and base.elts is not None and has_const(idx) and isinstance(cval(idx), int):
            i = cval(idx)
            if -len(base.elts) <= i < len(base.elts):
                return base.elts[i]
        if ty in ('tuple', 'list') and base.elts is not None and idx.ty == 'slice':
            lo = cval(idx.lo) if idx.lo is not None and has_const(idx.lo) else (None if idx.lo is None else '?')
            hi = cval(idx.hi) if idx.hi is not None and has_const(idx.hi) else (None if idx.hi is None else '?')
            if lo != '?' and hi != '?' and idx.step is None:
                return base.w(elts=base.elts[lo:hi], const=None, shapeof=None)
        if has_const(base) and has_const(idx):
            try:
                return const(cval(base)[cval(idx)]).w(deps=d)
            except Exception:
                pass
        if ty == 'dict':
            if has_const(idx) and base.kw and cval(idx) in base.kw:
                return base.kw[cval(idx)]
            el = base.elem if base.elem is not None else (join_all(base.kw.values()) if base.kw else None)
            interp.emit('dict_get', node, base=base, key=idx)
            return (el if el is not None else AV()).w(deps=d)
        if ty in ('list', 'tuple', 'range'):
            interp.emit('index', node, base=base, index=idx)
            if idx.ty == 'slice':
                return base.w(elts=None, elem=base.elem if base.elem is not None else (join_all(base.elts) if base.elts else None),
                              deps=d, sliced=True, const=None)
            el = base.elem if base.elem is not None else (join_all(base.elts) if base.elts else None)
            out = (el if el is not None else AV()).w(deps=(el.deps if el is not None and el.deps else frozenset()) | d)
            if base.indexed_by is not None:
                out = out.w(of_index=idx.only('col', 'idx', 'role'), of_list=base.store)
            return out
        if ty == 'str':
            return AV(ty='str', deps=d)
        if ty == 'ndarray':
            return self.array_index(interp, st, base, idx, node).w(deps=d)
        r = self.subscript_ext(interp, st, base, idx, node, frame)
        if r is not None:
            return r
        if ty == 'obj' and base.cls in interp.p.classes:
            # obj[key] on a package class: its own __getitem__
            m = interp.p.find_method(interp.p.classes[base.cls], '__getitem__')
            if m is not None:
                interp.emit('call', node, callee=m.qualname, args=[idx], kwargs={}, bound=base)
                return interp.call_function(m, [idx], {}, st, self_av=base, node=node)
        interp.emit('index', node, base=base, index=idx)
        return AV(deps=d)

    def subscript_ext(self, interp, st, base, idx, node, frame):
        return None

    def array_index(self, interp, st, base, idx, node):
        items = idx.elts if (idx.ty == 'tuple' and idx.elts is not None) else [idx]
        interp.emit('index', node, base=base, index=idx, items=items)
        axes = base.axes
        new_axes = None
        fancy = False
        axis_tag = base.axis
        if axes is not None:
            new_axes = []
            pos = 0
            for it in items:
                if it.ty == 'None' or (has_const(it) and cval(it) is None) or (it.ty == 'ext' and it.qual == 'numpy.newaxis'):
                    new_axes.append('new')
                    continue
                if has_const(it) and cval(it) is Ellipsis:
                    rest = len([x for x in items[items.index(it) + 1:] if x.ty != 'None' and not (has_const(x) and cval(x) is None)
                                and not (x.ty == 'ext' and x.qual == 'numpy.newaxis')])
                    while len(axes) - pos > rest:
                        new_axes.append(axes[pos])
                        pos += 1
                    continue
                if pos >= len(axes):
                    new_axes = None
                    break
                if it.ty == 'slice':
                    new_axes.append(axes[pos])
                elif it.ty in ('int',) or (has_const(it) and isinstance(cval(it), int)):
                    if axes[pos] == XYZ and has_const(it):
                        axis_tag = cval(it) % 3
                    pass  # axis dropped
                elif it.ty == 'ndarray' and it.dtype == 'bool' and it.axes is not None and len(it.axes) > 1:
                    # boolean mask covering several axes
                    new_axes.append('masked')
                    pos += len(it.axes) - 1
                    fancy = True
                else:
                    # a boolean / fancy selection keeps the meaning of the axis but not the positions along it
                    new_axes.append(axes[pos] if axes[pos].endswith('~') or it.idx == ('FRAME', 'roll') else axes[pos] + '~')
                    fancy = True
                pos += 1
            if new_axes is not None:
                new_axes = tuple(new_axes) + tuple(axes[pos:])
        else:
            for it in items:
                if it.ty in ('ndarray', 'list') or it.dtype == 'bool':
                    fancy = True
            # component selection on the last axis by convention: x[:, k] / x[..., k] / x[:, :, k]
            if len(items) >= 2 and has_const(items[-1]) and isinstance(cval(items[-1]), int) and all(
                    i.ty == 'slice' or (has_const(i) and cval(i) is Ellipsis) for i in items[:-1]):
                if base.geo is not None and base.geo[0] in ('FRAC', 'FDIFF', 'CART', 'CARTSQ'):
                    axis_tag = cval(items[-1]) % 3
        for it in items:
            if it.ty in ('ndarray', 'list') or it.dtype == 'bool':
                fancy = True
        out = base.only('ty', 'geo', 'idx', 'mono', 'prov', 'store', 'cols', 'colvals', 'taint', 'dtype', 'enc', 'origin', 'fft', 'mono_unknown', 'bincount_of')
        # column / row selection of a table whose columns (rows) carry their own kinds: t[:, k], t[..., k], t.T[k]
        def _full(i):
            return (i.ty == 'slice' and i.lo is None and i.hi is None and i.step is None) or (has_const(i) and cval(i) is Ellipsis)

        def _pick(table, sel):
            if has_const(sel) and isinstance(cval(sel), int) and not isinstance(cval(sel), bool) and -len(table) <= cval(sel) < len(table):
                return table[cval(sel)]
            if sel.ty == 'slice' and all(x is None or (has_const(x) and isinstance(cval(x), int)) for x in (sel.lo, sel.hi, sel.step)):
                return list(table[slice(*(cval(x) if x is not None else None for x in (sel.lo, sel.hi, sel.step)))])
            if sel.elts is not None and all(has_const(x) and isinstance(cval(x), int) and -len(table) <= cval(x) < len(table) for x in sel.elts):
                return [table[cval(x)] for x in sel.elts]
            return None

        def _as_column(o, c):
            return o.w(colvals=None, idx=c.idx, at=c.at, geo=c.geo, mono=c.mono, taint=c.taint, searched=c.searched, inner=c.inner, role=c.role)

        if base.colvals is not None and len(items) >= 2:
            got = _pick(base.colvals, items[-1]) if (len(items) == 2 and _full(items[0])) else None
            out = _as_column(out, got).w(colsel=(interp.sx(node.value), cval(items[-1]))) if (isinstance(got, AV) and isinstance(node, ast.Subscript)) else (
                _as_column(out, got) if isinstance(got, AV) else out.w(colvals=got))
        if base.rows is not None and items and all(_full(i) for i in items[1:]):
            got = _pick(base.rows, items[0])
            if isinstance(got, AV):
                out = _as_column(out, got)
            elif got is not None:
                out = out.w(rows=got)
        if all(i.ty == 'slice' for i in items):
            out = out.w(linspace=base.linspace, lin_n=base.lin_n, arange=base.arange, sorted=base.sorted)
            if base.counts_of is not None or base.unique_of is not None:
                trivial = all(i.lo is None and i.hi is None for i in items)
                out = out.w(counts_of=base.counts_of, unique_of=base.unique_of, positional_slice=None if trivial else True)
        out = out.w(axes=new_axes, axis=axis_tag, at=base.at if (base.idx is not None and base.idx[0] == 'FRAME') else None)
        if all(i.ty == 'None' or (has_const(i) and cval(i) in (None, Ellipsis)) or (i.ty == 'ext' and i.qual == 'numpy.newaxis') or _full(i) for i in items):
            out = out.w(norm_of=base.norm_of, norm_removed=base.norm_removed)
        # offset views along the leading axis: x[k:] (element j is x[j + k]) and x[:-k] (element j is x[j])
        if items and items[0].ty == 'slice' and all(_full(i) for i in items[1:]) and isinstance(node, ast.Subscript):
            sl = items[0]
            lo = 0 if sl.lo is None else (cval(sl.lo) if has_const(sl.lo) and isinstance(cval(sl.lo), int) else None)
            hi_ok = sl.hi is None or (has_const(sl.hi) and isinstance(cval(sl.hi), int) and cval(sl.hi) < 0)
            if lo is not None and lo >= 0 and hi_ok and sl.step is None and not (lo == 0 and sl.hi is None):
                prev = base.shifted
                out = out.w(shifted=(lo + (prev[0] if prev else 0), prev[1] if prev else interp.sx(node.value),
                                     axes[0] if axes else None, -cval(sl.hi) if sl.hi is not None else 0),
                            shifted_of=base.shifted_of if prev else base.only('linspace', 'lin_n', 'dtype', 'arange', 'sx', 'ty'))
        if len(items) == 1 and items[0].dtype == 'bool' and (base.counts_of is not None or base.unique_of is not None):
            out = out.w(counts_of=base.counts_of, unique_of=base.unique_of)  # value-based selection of unique() output
        n_fancy = sum(1 for it in items if it.ty in ('ndarray', 'list') and it.dtype != 'bool')
        if n_fancy >= 2:
            # a[[i, j], [k, l]] pairs the index lists element by element (a[i, k], a[j, l]); it is not the block a[i..j, k..l]
            out = out.w(zipped_fancy=True)
            # a[arange(n_rows)[:, None], last_valid_position]: every entry replaced by the most recent valid entry of its row
            if len(items) == 2 and items[1].runmax and items[1].idxtable is not None and axes is not None and len(axes) == 2 \
                    and isinstance(node, ast.Subscript):
                t = items[1].idxtable
                rows_ = items[0]
                rows_ok = rows_.axes is not None and len(rows_.axes) == 2 and rows_.axes[1] == 'new' and rows_.mono is not None \
                    and f'n_{axes[0]}' in rows_.mono.text()
                if t['src'] == interp.sx(node.value) and t['axis'] == axes[1] and rows_ok:
                    out = out.w(axes=axes, flipped=base.flipped,
                                filled=dict(marker=t['marker'], axis=t['axis'], store=t['store'], inflip=bool(t['flipped'] and t['axis'] in t['flipped'])))
        # x[:, ::-1] / x[::-1]: reversal along one axis
        if axes is not None and new_axes is not None and len(new_axes) == len(axes):
            for k_, it_ in enumerate(items):
                if it_.ty == 'slice' and it_.lo is None and it_.hi is None and it_.step is not None and has_const(it_.step) and cval(it_.step) == -1:
                    out = flip_axis(out.w(flipped=out.flipped if out.flipped is not None else base.flipped, filled=out.filled or base.filled), k_)
            if all(i_.ty == 'slice' and i_.lo is None and i_.hi is None and (i_.step is None or (has_const(i_.step) and cval(i_.step) == -1)) for i_ in items) \
                    and base.idxtable is not None and out.idxtable is None:
                out = out.w(idxtable=base.idxtable, runmax=base.runmax)  # only the order changes: still the same position table
        if base.litconst is not None and len(items) == 1 and items[0].litconst is not None and items[0].dtype == 'bool':
            rows, mask = base.litconst[1], items[0].litconst[1]
            if len(rows) == len(mask) and all(isinstance(m, bool) for m in mask):
                out = out.w(litconst=('c', [r_ for r_, m in zip(rows, mask) if m]))
        if fancy:
            out = out.w(store='fresh', fresh=True, prov=None)
        else:
            out = out.w(view_of=base.store)
        # one frame picked from a [frame, ...] array: remember which frame (symbolically)
        if axes is not None and axes and axes[0] == 'frame' and items and items[0].ty != 'slice' and new_axes is not None and 'frame' not in new_axes \
                and isinstance(node, ast.Subscript):
            first = node.slice.elts[0] if isinstance(node.slice, ast.Tuple) and node.slice.elts else node.slice
            out = out.w(frame_idx=interp.sx(first))
        # a scalar element
        if new_axes == ():
            out = out.w(ty='float' if base.dtype != 'int' else 'int')
        # FRAME-indexed state arrays: remember which frame offset was used
        for it in items:
            if it.idx is not None and it.idx[0] == 'FRAME':
                out = out.w(at=it.at if it.at is not None else 0, by_frame=True)
        # NOSITE sanitiser: x[(x != NOSITE)...] / x[x >= 0]
        btext = interp.sx(node.value) if isinstance(node, ast.Subscript) else None
        for it in items:
            if sanitizer_of(it, btext, base):
                if out.idx is not None and out.idx[0] == 'SITE':
                    out = out.w(idx=('SITE', False), sanitized_by=True)
                if out.colvals:
                    out = out.w(colvals=[c.w(idx=('SITE', False)) if (c.idx is not None and c.idx[0] == 'SITE') else c for c in out.colvals])
        # emptiness: x[:-1] of maybe-empty stays maybe-empty; x[mask] may be empty
        if base.maybe_empty or any(it.dtype == 'bool' for it in items):
            out = out.w(maybe_empty=True)
        if base.symlen is not None and items and items[0].ty == 'slice' and len(items) == 1:
            sl = items[0]
            lo = cval(sl.lo) if sl.lo is not None and has_const(sl.lo) else (0 if sl.lo is None else None)
            hi = cval(sl.hi) if sl.hi is not None and has_const(sl.hi) else (0 if sl.hi is None else None)
            if lo is not None and hi is not None and lo >= 0 and hi <= 0 and sl.step is None:
                out = out.w(symlen=('-', base.symlen, ('c', lo - hi)) if (lo - hi) else base.symlen)
        # a mask on the index array itself that removes the wrap-around pseudo index: idx[idx + a < len(x) + b]
        if base.rollwrap and len(items) == 1 and items[0].cmp is not None and items[0].dtype == 'bool':
            verdict = wrap_filter(items[0].cmp, btext)
            if verdict == 'exact':
                out = out.w(rollwrap=None)
                base = base.w(rollwrap=None)
            elif verdict == 'strict':
                interp.emit('wrap_filter_too_strict', node, mask=items[0])
                out = out.w(rollwrap=None)
                base = base.w(rollwrap=None)
        # dropping the last element of an index array whose last element is the wrap-around pseudo index
        rw = base.rollwrap
        if rw and len(items) == 1 and items[0].ty == 'slice':
            sl = items[0]
            if rw == 'last' and sl.lo is None and sl.hi is not None and has_const(sl.hi) and cval(sl.hi) == -1:
                rw = None
        out = out.w(rollwrap=rw)
        for it in items:
            if it.rollwrap:
                out = out.w(index_may_wrap=(it.at if it.at is not None else 0))
        return out

    # ------------------------------------------------------------------ stores
    def on_store(self, interp, st, frame, kind, target, base, idx, value, stmt=None):
        interp.emit('store', target, kind=kind, base=base, index=idx, value=value, stmt=stmt)
        if kind == 'aug' and idx is not None and base is not None and base.ty == 'ndarray':
            items = idx.elts if (idx.ty == 'tuple' and idx.elts is not None) else [idx]
            if any(i.ty == 'ndarray' and i.dtype != 'bool' for i in items):
                # a[idx] += v is buffered: an index that occurs several times is incremented only once
                interp.emit('fancy_aug', target, base=base, index=idx, value=value)

    def store_subscript(self, interp, st, frame, target, base, idx, value, aug):
        tv = target.value
        if isinstance(tv, ast.Attribute) and tv.attr == 'flat' and base.ty == 'ndarray' and base.flat_view:
            # x.flat[np.flatnonzero(mask)] = v is x[mask] = v
            tv = tv.value
            base = base.w(flat_view=None)
            if idx is not None and idx.nonzero_of is not None and idx.nonzero_of.dtype == 'bool':
                idx = idx.nonzero_of
        name = tv.id if isinstance(tv, ast.Name) else None
        if base.ty == 'ndarray' and not aug and idx is not None and value is not None and value.ty != 'ndarray' and not base.sanitized:
            # x[np.isnan(x)] = finite value, x[np.isinf(x)] = ..., x[~np.isfinite(x)] = ...: hand-written nan_to_num
            t = idx.nonfinite_test
            if t is None and idx.inv_of is not None and idx.inv_of.nonfinite_test == frozenset({'finite'}):
                t = frozenset({'nan', 'posinf', 'neginf'})
            if t is not None and 'finite' not in t:
                removed = frozenset(base.nonfinite_removed or ()) | t
                new = base.w(nonfinite_removed=removed, sanitized=True if removed >= {'nan', 'posinf', 'neginf'} else None)
                self.rebind(interp, st, frame, tv, new)
                return
        if base.ty == 'ndarray' and not aug and value is not None and has_const(value) and cval(value) is False and base.axes and base.axes[0] == 'frame' \
                and (base.cmp is not None or base.bin is not None):
            # mask[-1] = False / mask[-1:] = False: the last frame can no longer be selected
            first = idx.elts[0] if (idx is not None and idx.ty == 'tuple' and idx.elts) else idx
            rest_full = not (idx is not None and idx.ty == 'tuple' and idx.elts) or all(x.ty == 'slice' and x.lo is None and x.hi is None and x.step is None for x in idx.elts[1:])
            last = first is not None and ((has_const(first) and cval(first) == -1) or
                                          (first.ty == 'slice' and first.lo is not None and has_const(first.lo) and cval(first.lo) == -1 and first.hi is None and first.step is None))
            if last and rest_full:
                self.rebind(interp, st, frame, tv, base.w(nolast=True))
                return
        if base.ty == 'ndarray':
            # closer idiom: x[x == 1] = 0 / x[x >= 1] = 0 on a closed wrap
            if not aug and base.geo == ('FRAC', 'C') and closes_wrap(idx.cmp, interp.sx(tv)) and is_zero_fill(value):
                new = base.w(geo=('FRAC', 'W'))
                self.rebind(interp, st, frame, tv, new)
                return
            # masked single-step image correction: d[d > 0.5] -= 1 / d[d < -0.5] += 1
            if aug and base.geo is not None and base.geo[0] == 'FDIFF' and idx is not None and idx.cmp is not None \
                    and value is not None and value.bin is not None and value.bin[0] in ('+', '-') and has_const(value.bin[2]) and cval(value.bin[2]) == 1:
                nc = norm_cmp(idx.cmp)
                if nc is not None and nc[3] == interp.sx(tv) and isinstance(cval(nc[2]), (int, float)) and abs(abs(cval(nc[2])) - 0.5) < 0.01:
                    cop, direction, thr = nc[0], value.bin[0], cval(nc[2])
                    ok_dir = (cop in ('>', '>=') and direction == '-' and thr > 0) or (cop in ('<', '<=') and direction == '+' and thr < 0)
                    g = base.geo
                    if ok_dir:
                        if g[1] == 'W2':
                            ng = ('FDIFF', 'W1', direction)
                        elif g[1] == 'W1' and len(g) > 2 and g[2] != direction:
                            ng = ('FDIFF', 'CW')
                        else:
                            ng = g
                        interp.emit('image_correction', target, how='single', diff=base, base=base, direction=direction)
                        self.rebind(interp, st, frame, tv, base.w(geo=ng))
                        return
            if base.alloc in ('zeros', 'zeros_like', 'empty', 'full') and value is not None and not aug:
                vm = mono_of(value)
                new = base.w(filled_from=value, filled_at=idx, mono=vm if vm is not None else base.mono)
                vi = value.idx
                if vi is not None:
                    members = vi[1] if vi[0] == 'JOIN' else {vi}
                    fill = base.fill
                    nosite = fill is not None and has_const(fill) and cval(fill) == -1
                    if all(m[0] == 'SITE' or m == ('LOCALSITE',) for m in members):
                        new = new.w(idx=('SITE', bool(nosite) or any(len(m) > 1 and m[1] for m in members if m[0] == 'SITE')))
                    elif base.idx is None:
                        new = new.w(idx=vi)
                self.rebind(interp, st, frame, tv, new)
            return
        if base.ty == 'dict' and name is not None:
            kw = dict(base.kw or {})
            if has_const(idx) and isinstance(cval(idx), str):
                kw[cval(idx)] = value
                self.rebind(interp, st, frame, tv, base.w(kw=kw, elem=join(base.elem, value) if base.elem is not None else None))
            else:
                adds = aug and isinstance(getattr(interp, 'cur_stmt', None), ast.AugAssign) and isinstance(interp.cur_stmt.op, ast.Add)
                if not aug and value is not None and value.bin is not None and value.bin[0] == '+':
                    # d[k] = d[k] + v spelled out
                    me = interp.sx_build(target)
                    if me in (value.bin[3], value.bin[4]):
                        adds = aug = True
                    # d[k] = d.get(k, 0) + v
                    for op_ in (value.bin[1], value.bin[2]):
                        g_ = op_.got_from if op_ is not None else None
                        if g_ is not None and g_[0] == interp.sx_build(tv) and g_[1] == interp.sx(target.slice) and g_[2] == 0 and g_[2] is not False:
                            adds = aug = True
                self.rebind(interp, st, frame, tv, base.w(elem=join(base.elem, value), keyelem=join(base.keyelem, idx) if base.keyelem is not None or not base.empty_init else idx,
                                                          empty_init=None, accum=True if (adds and not base.overwrite) else (base.accum if aug else None),
                                                          overwrite=True if not aug else base.overwrite))
            return
        if base.ty == 'list' and name is not None:
            self.rebind(interp, st, frame, tv, base.w(elem=join(base.elem, value), elts=None))
            return
        self.store_subscript_ext(interp, st, frame, target, base, idx, value, aug)

    def store_subscript_ext(self, interp, st, frame, target, base, idx, value, aug):
        return

    def rebind(self, interp, st, frame, expr, new):
        """Strong update of the variable / attribute denoted by expr."""
        if isinstance(expr, ast.Name):
            if expr.id in st.env:
                st.env[expr.id] = new
            else:
                fr = frame.closure if frame is not None else None
                while fr is not None:
                    if expr.id in fr.st.env:
                        fr.st.env[expr.id] = new
                        return
                    fr = fr.closure
                st.env[expr.id] = new
        elif isinstance(expr, ast.Attribute):
            b = interp.cur(expr.value)
            if b is not None and b.ty == 'obj' and b.oid in st.heap:
                st.heap[b.oid][expr.attr] = new
        elif isinstance(expr, ast.Subscript) and isinstance(expr.value, (ast.Name, ast.Attribute)):
            # d[k].append(x) and friends: the entry of the mapping is the updated container
            b = interp.cur(expr.value)
            if b is not None and b.ty == 'dict':
                k = interp.cur(expr.slice)
                self.rebind(interp, st, frame, expr.value, b.w(elem=join(b.elem, new) if b.elem is not None else new,
                                                               keyelem=join(b.keyelem, k) if (b.keyelem is not None and k is not None) else (k if b.keyelem is None and not b.kw else b.keyelem),
                                                               empty_init=None))

    # ------------------------------------------------------------------ array attributes / methods
    def array_attr(self, interp, st, base, attr, node):
        if attr == 'T':
            out = base.w(axes=tuple(reversed(base.axes)) if base.axes is not None else None, transposed=not base.transposed if base.transposed else True)
            if base.rows is not None:
                out = out.w(colvals=base.rows, rows=None)
            elif base.colvals is not None:
                out = out.w(rows=base.colvals, colvals=None)
            return out
        if attr == 'shape':
            ax = base.axes
            if ax is not None:
                return AV(ty='tuple', elts=[AV(ty='int', mono=Mono.atom(f'n_{a}'), axis=i if False else None, shape_of=(a,)) for i, a in enumerate(ax)],
                          deps=base.deps, shapeof=base)
            return AV(ty='tuple', deps=base.deps, shapeof=base, elem=AV(ty='int'))
        if attr == 'ndim':
            if base.axes is not None:
                return const(len(base.axes))
            return AV(ty='int')
        if attr == 'size':
            return AV(ty='int', deps=base.deps, sizeof=base.only('maybe_empty', 'axes'))
        if attr == 'real' or attr == 'imag':
            return base
        if attr == 'flat':
            return base.w(flat_view=True)  # 1-D view of the same memory: x.flat[k] = v writes x
        if attr == 'dtype':
            return AV(ty='dtype')
        if attr in ('reshape', 'astype', 'copy', 'flatten', 'ravel', 'sum', 'mean', 'std', 'min', 'max', 'any', 'all',
                    'transpose', 'tolist', 'squeeze', 'sort', 'fill', 'argmin', 'argmax', 'cumsum', 'round', 'dot',
                    'nonzero', 'repeat', 'item', 'clip', 'take', 'prod', 'var', 'swapaxes', 'conj', 'argsort', 'view'):
            return AV(ty='extmethod', recv=base, name=attr)
        return AV(ty='extmethod', recv=base, name=attr)

    def array_method(self, interp, st, recv, name, args, kwargs, node):
        d = deps_union(recv, *args, *kwargs.values())
        if name == 'reshape':
            shape = args[0].elts if (len(args) == 1 and args[0].elts is not None) else list(args)
            out = recv.w(deps=d, view_of=recv.store)
            consts = [cval(s) if has_const(s) else None for s in shape]
            if recv.axes is not None:
                ax = recv.axes
                if consts == [-1, 3] and ax[-1] == XYZ:
                    out = out.w(axes=('_'.join(ax[:-1]) or 'pt', XYZ))
                elif consts == [-1, 1, 3] and ax[-1] == XYZ:
                    out = out.w(axes=('_'.join(ax[:-1]) or 'pt', 'one', XYZ))
                elif consts == [1, -1] or consts == [-1, 1]:
                    out = out.w(axes=('one', 'flat') if consts == [1, -1] else ('flat', 'one'))
                elif consts == [-1]:
                    out = out.w(axes=('flat',))
                elif args and args[0].shapeof is not None:
                    out = out.w(axes=args[0].shapeof.axes, reshaped_like=True)
                elif len(shape) >= 1 and all(s.shape_of for s in shape):
                    out = out.w(axes=tuple(s.shape_of[0] for s in shape))
                else:
                    out = out.w(axes=None, reshaped=tuple(shape))
            else:
                if consts == [-1, 3]:
                    out = out.w(axes=('pt', XYZ))
                elif consts == [-1, 1, 3]:
                    out = out.w(axes=('pt', 'one', XYZ))
                elif args and args[0].shapeof is not None:
                    out = out.w(axes=args[0].shapeof.axes, reshaped_like=True)
                elif len(shape) >= 1 and all(s.shape_of for s in shape):
                    out = out.w(axes=tuple(s.shape_of[0] for s in shape))
            return out
        if name in ('astype',):
            t = args[0] if args else kwargs.get('dtype')
            tn = t.name if (t is not None and t.ty == 'builtin') else None
            cp = kwargs.get('copy')
            if cp is not None and has_const(cp) and not cval(cp):
                # astype(..., copy=False) returns the array itself when the dtype already matches: still the caller's storage
                out = recv.w(deps=d, dtype=tn or recv.dtype, view_of=recv.store)
            else:
                out = recv.w(deps=d, store='fresh', fresh=True, dtype=tn or recv.dtype)
            if tn == 'int':
                out = out.w(cast='int', cast_of=recv)
            return out
        if name in ('copy',):
            return recv.w(deps=d, store='fresh', fresh=True, prov=None)
        if name in ('flatten', 'ravel', 'squeeze', 'tolist', 'conj', 'view'):
            out = recv.w(deps=d, axes=('flat',) if name in ('flatten', 'ravel') else None)
            if name in ('flatten', 'tolist'):
                out = out.w(store='fresh', fresh=True)
            if name == 'tolist':
                out = out.w(ty='list', elem=recv.only('geo', 'idx', 'mono'))
            return out
        if name == 'transpose':
            perm = args[0].elts if (len(args) == 1 and args[0].elts is not None) else list(args)
            return self.transpose(recv, perm).w(deps=d)
        if name == 'swapaxes' and len(args) == 2:
            return self.swapaxes(recv, args[0], args[1]).w(deps=d)
        if name in ('sum', 'mean', 'std', 'min', 'max', 'any', 'all', 'prod', 'var', 'argmin', 'argmax', 'cumsum'):
            return self.np_reduce(interp, st, name, [recv] + list(args), kwargs, node, axis_pos=1)
        if name == 'dot':
            return self.np_dot(interp, st, [recv] + list(args), kwargs, node)
        if name in ('sort', 'fill'):
            interp.emit('store', node, kind='method:' + name, base=recv, index=None, value=None, stmt=None)
            return const(None)
        if name == 'round':
            return recv.w(deps=d, store='fresh')
        if name == 'nonzero':
            return self.np_nonzero(interp, st, [recv], {}, node)
        if name == 'item':
            return recv.only('geo', 'idx', 'mono').w(deps=d)
        return AV(ty='ndarray', deps=d)

    def swapaxes(self, x, a, b):
        if x.axes is None:
            return x
        n = len(x.axes)
        if has_const(a) and has_const(b) and isinstance(cval(a), int) and isinstance(cval(b), int) and -n <= cval(a) < n and -n <= cval(b) < n:
            ax = list(x.axes)
            i, j = cval(a) % n, cval(b) % n
            ax[i], ax[j] = ax[j], ax[i]
            return x.w(axes=tuple(ax))
        return x.w(axes=None)

    def moveaxis(self, x, src, dst):
        if x.axes is None:
            return x
        n = len(x.axes)
        if has_const(src) and has_const(dst) and isinstance(cval(src), int) and isinstance(cval(dst), int) and -n <= cval(src) < n and -n <= cval(dst) < n:
            ax = list(x.axes)
            name = ax.pop(cval(src) % n)
            ax.insert(cval(dst) % n, name)
            return x.w(axes=tuple(ax))
        return x.w(axes=None)

    def transpose(self, x, perm):
        out = x
        if x.axes is not None:
            if not perm:
                return x.w(axes=tuple(reversed(x.axes)))
            if all(has_const(p) for p in perm) and len(perm) == len(x.axes):
                return x.w(axes=tuple(x.axes[cval(p)] for p in perm))
            return x.w(axes=None)
        return out
