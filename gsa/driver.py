"""Layer 4: driver - runs the rules of one property, reconciles findings, writes evidence / replay."""

from __future__ import annotations

import ast
import hashlib
import importlib
import json
import os
import sys
import time
import traceback

from .apimodel import TRUSTED_BASE, make_interp
from .cfg import CFG
from .source import AnalysisError, Project, norm_text

VERIF = os.path.dirname(os.path.dirname(os.path.abspath(__file__)))
KNOWN = os.path.join(VERIF, 'known_findings.json')


class Obligation:
    __slots__ = ('rule', 'function', 'construct', 'status', 'detail', 'file', 'line', 'chain')

    def __init__(self, rule, function, construct, status, detail, file=None, line=None, chain=None):
        self.rule, self.function, self.construct = rule, function, construct
        self.status, self.detail, self.file, self.line, self.chain = status, detail, file, line, chain

    def key(self, prop):
        return f'{prop}|{self.rule}|{self.function}|{self.construct}'

    def as_dict(self, prop=None):
        d = dict(rule=self.rule, function=self.function, construct=self.construct, status=self.status,
                 detail=self.detail, at=f'{self.file}:{self.line}' if self.file else None)
        if self.chain:
            d['chain'] = self.chain
        return d


class Ctx:
    """What a rule module sees."""

    def __init__(self, project: Project, prop: str, tier: str):
        self.p = project
        self.prop = prop
        self.tier = tier
        self.obs: list[Obligation] = []
        self.floors = {}
        self.assumptions = []
        self.analysed = set()
        self.call_sites = 0
        self._entries = {}
        self._cfgs = {}
        self.rule_docs = {}

    # ---- recording
    def ob(self, rule, fn, node, ok, detail, chain=None, key=None):
        """ok: True discharged, False violated (definite), None undecided. `key`: a spelling-independent name of the construct
        (used as its identity instead of the source text; the position still comes from `node`)."""
        fi = self.p.functions.get(fn) if isinstance(fn, str) else fn
        fq = fi.qualname if fi is not None else str(fn)
        text = key if key is not None else (node if isinstance(node, str) else norm_text(node))
        text = ' '.join(text.split())[:160]
        status = 'discharged' if ok is True else ('violated' if ok is False else 'undecided')
        line = getattr(node, 'lineno', None) if not isinstance(node, str) else None
        if line is None and fi is not None:
            line = fi.node.lineno
        o = Obligation(f'{self.prop}.{rule}' if not rule.startswith(self.prop) else rule, fq, text, status, detail,
                       fi.module.relpath if fi is not None else None, line, chain)
        self.obs.append(o)
        if fi is not None:
            self.analysed.add(fq)
        return o

    def include(self, modname, prefix, only=None):
        """Run the rules of a prerequisite property inside this one; its rule ids are reported as <prefix><id>."""
        import importlib
        mod = importlib.import_module(f'gsa.rules.{modname}')
        outer = self

        class Sub:
            def __getattr__(self_, k):
                return getattr(outer, k)

            def ob(self_, rule, *a, **kw):
                if only is not None and rule not in only:
                    return None
                return outer.ob(prefix + rule, *a, **kw)

            def floor(self_, rule, n, why=''):
                if only is None or rule in only:
                    outer.floor(prefix + rule, n, why)

            def doc(self_, rule, text):
                if only is None or rule in only:
                    outer.doc(prefix + rule, f'[{modname}.{rule}] ' + text)

        mod.check(Sub())

    def floor(self, rule, n, why=''):
        self.floors[f'{self.prop}.{rule}'] = (n, why)

    def assume(self, text):
        if text not in self.assumptions:
            self.assumptions.append(text)

    def doc(self, rule, text):
        self.rule_docs[f'{self.prop}.{rule}'] = text

    # ---- analysis services
    def fn(self, qualname):
        return self.p.fn(qualname)

    def cfg(self, qualname):
        if qualname not in self._cfgs:
            self._cfgs[qualname] = CFG(self.p.fn(qualname).node)
            self.analysed.add(qualname)
        return self._cfgs[qualname]

    def entry(self, qualname, **kw):
        """Abstractly interpret `qualname` from symbolic arguments (cached). Returns the Interp (with .result)."""
        key = (qualname, repr(sorted((k, repr(v)) for k, v in kw.items())))
        if key not in self._entries:
            it = make_interp(self.p)
            res, st = it.run_entry(qualname, **kw)
            it.result, it.final_state = res, st
            self._entries[key] = it
            self.analysed |= it.evaluated
            self.call_sites += sum(1 for e in it.events if e['tag'] in ('call', 'extcall', 'extmethod'))
        return self._entries[key]

    def pipeline(self):
        """One interpreter run of the analysis pipeline on a symbolic trajectory:
        Transitions.from_trajectory(...) -> Jumps(transitions) . Returns the Interp with .transitions / .jumps / .state"""
        if getattr(self, '_pipe', None) is None:
            from .interp import Frame, State
            it = make_interp(self.p)
            res, st = it.run_entry('gemdat.transitions.Transitions.from_trajectory')
            it.transitions = res
            fi = self.p.fn('gemdat.jumps.Jumps.__init__')
            fr = Frame(None, fi.module, st)
            it.jumps = it.construct('gemdat.jumps.Jumps', [res], {}, fr, st, None)
            it.state = st
            it.result, it.final_state = it.jumps, st
            self._pipe = it
            self.analysed |= it.evaluated
        return self._pipe

    def method_on(self, it, obj, name, **kwargs):
        """Evaluate obj.name(**kwargs) in the interpreter/heap of a previous run."""
        ci = self.p.classes[obj.cls]
        fi = self.p.find_method(ci, name)
        r = it.call_function(fi, [], kwargs, it.state, self_av=obj, node=None)
        self.analysed |= it.evaluated
        return r

    def package_scan(self, include_plots=True):
        """Interpret every top-level function / method of the package once (for package-wide effect rules)."""
        if getattr(self, '_scan', None) is None:
            self._scan = []
            for q, fi in sorted(self.p.functions.items()):
                if fi.parent is not None:
                    continue
                self._scan.append(self.entry(q))
        return self._scan

    def events(self, it, tag, fn=None):
        out = []
        for e in it.events:
            if e['tag'] != tag:
                continue
            if fn is not None and (e['where'] is None or e['where'].qualname != fn):
                continue
            out.append(e)
        return out


def load_known():
    if not os.path.exists(KNOWN):
        return []
    with open(KNOWN) as f:
        return json.load(f)


def run_property(prop, tier='quick', root='/repo', overrides=None, write=True, quiet=False):
    """Returns (exit_code, lines, ctx)."""
    t0 = time.time()
    lines = []
    seed = int(os.environ.get('VERIF_SEED', '0') or 0)
    ctx = None
    try:
        project = Project(root, overrides=overrides)
        ctx = Ctx(project, prop, tier)
        mod = importlib.import_module(f'gsa.rules.{prop}')
        mod.check(ctx)
        if tier == 'thorough' and hasattr(mod, 'check_thorough'):
            mod.check_thorough(ctx)
        # fail closed: instance floors
        counts = {}
        for o in ctx.obs:
            counts[o.rule] = counts.get(o.rule, 0) + 1
        for rule, (n, why) in ctx.floors.items():
            if counts.get(rule, 0) < n:
                # fail closed, but a definite violation found elsewhere is still reported first
                ctx.obs.append(Obligation(rule, 'gemdat', f'instance floor of {rule}', 'undecided',
                                          f'rule {rule} matched {counts.get(rule, 0)} instance(s), fewer than the {n} confirmed by hand '
                                          f'({why}): anchor vanished or idiom unrecognised'))
    except AnalysisError as e:
        lines.append(f'ANALYSIS-ERROR property={prop} {e}')
        if write:
            write_evidence(prop, tier, seed, ctx, time.time() - t0, 0, error=str(e))
        return 2, lines, ctx
    except Exception as e:  # analyser bug: never a violation
        tb = traceback.format_exc()
        lines.append(f'ANALYSIS-ERROR property={prop} analyser exception {type(e).__name__}: {e}')
        lines.append(tb)
        if write:
            write_evidence(prop, tier, seed, ctx, time.time() - t0, 0, error=f'{type(e).__name__}: {e}')
        return 2, lines, ctx

    known = [k for k in load_known() if k.get('property') == prop]
    open_keys = {k['key']: k for k in known if k.get('status') == 'open'}
    violations, known_hits, undecided = [], [], []
    for o in ctx.obs:
        if o.status == 'violated':
            k = o.key(prop)
            if k in open_keys:
                known_hits.append((o, open_keys[k]))
            else:
                violations.append(o)
        elif o.status == 'undecided':
            undecided.append(o)
    # dedupe by key
    seen = set()
    uniq = []
    for o in violations:
        if o.key(prop) not in seen:
            seen.add(o.key(prop))
            uniq.append(o)
    violations = uniq
    code = 0
    for o, k in {o.key(prop): (o, k) for o, k in known_hits}.values():
        lines.append(f'KNOWN-FINDING: property={prop} {k.get("what", o.detail)} [{o.rule} {o.function}: {o.construct}]')
    for o in violations:
        path = write_replay(prop, o) if write else f'/verif/replay/{prop}/-'
        lines.append(f'VIOLATION property={prop} replay={path}')
        lines.append(f'  {o.rule} {o.file}:{o.line} in {o.function}: {o.detail}')
        lines.append(f'  construct: {o.construct}')
        code = 1
    if undecided and code == 0:
        for o in undecided[:10]:
            lines.append(f'ANALYSIS-ERROR property={prop} undecided {o.rule} {o.file}:{o.line} in {o.function}: '
                         f'{o.detail} [{o.construct}]')
        code = 2
    if tier == 'thorough' and overrides is None and code == 0:
        # the checker validates itself: stubs against the installed sources, rules against the mutant / twin / seeded corpus
        try:
            from .thorough import selftest, stub_conformance
            facts = stub_conformance()
            ctx.stubs = [dict(fact=f, holds=bool(ok)) for f, ok in facts]
            bad = [f for f, ok in facts if not ok]
            st = selftest(prop, root)
            ctx.selftest = st
            if bad:
                lines.append(f'ANALYSIS-ERROR property={prop} library stub disagrees with the installed source: {bad[0]}')
                code = 2
            if st['failures']:
                lines.append(f'ANALYSIS-ERROR property={prop} self-validation failed: ' + '; '.join(st['failures'][:5]))
                code = 2
            lines.append(f'SELFTEST property={prop} mutants {st["mutants_killed"]}/{st["mutants_applicable"]} seeded {st["seeds_caught"]}/{st["seeds_total"]} '
                         f'twins silent {st["twins_silent"]}/{st["twins_total"]} stub facts {len(facts) - len(bad)}/{len(facts)}')
        except AnalysisError as e:
            lines.append(f'ANALYSIS-ERROR property={prop} {e}')
            code = 2
    if code == 0:
        lines.append(f'OK property={prop} obligations={len(ctx.obs)} discharged='
                     f'{sum(1 for o in ctx.obs if o.status == "discharged")} known_findings={len(known_hits)}')
    if write:
        write_evidence(prop, tier, seed, ctx, time.time() - t0, len(violations))
    return code, lines, ctx


def write_replay(prop, o):
    d = os.path.join(VERIF, 'replay', prop)
    os.makedirs(d, exist_ok=True)
    h = hashlib.sha1(o.key(prop).encode()).hexdigest()[:12]
    path = os.path.join(d, f'{h}.json')
    with open(path, 'w') as f:
        json.dump(dict(property=prop, key=o.key(prop), **o.as_dict(),
                       reproduce=f'/venv/bin/python /verif/check.py {prop} --replay {path}'), f, indent=1)
    return path


def write_evidence(prop, tier, seed, ctx, wall, nviol, error=None):
    os.makedirs(os.path.join(VERIF, 'evidence'), exist_ok=True)
    obs = ctx.obs if ctx is not None else []
    by_rule = {}
    for o in obs:
        r = by_rule.setdefault(o.rule, dict(instances=0, discharged=0, violated=0, undecided=0))
        r['instances'] += 1
        r[o.status] += 1
    distinct = len({(o.rule, o.function, o.construct) for o in obs})
    samples = [o.as_dict() for o in obs[:40]]
    # make sure every rule is represented among the samples
    seen_rules = {s['rule'] for s in samples}
    for o in obs:
        if o.rule not in seen_rules:
            samples.append(o.as_dict())
            seen_rules.add(o.rule)
    cov = dict(
        explanation=(
            'Static analysis (no GEMDAT code is imported or run): /repo/src/gemdat is parsed with ast, functions are '
            'abstractly interpreted (kinds: coordinate frame/wrapping, index kinds, units/monomials, axes, provenance) '
            'and structural rules (dominance on the CFG, table agreement, who-may-write) are applied. Each obligation '
            'is one rule instance at one construct; "discharged" means the rule proved the structural necessary '
            'condition there, "violated" a definite incompatibility, "undecided" an unrecognised idiom (exit 2). '
            'The rules decide the clauses listed per rule below, not the numerical behaviour of the property.'
        ),
        rules={k: dict(doc=(ctx.rule_docs.get(k, '') if ctx else ''), **v) for k, v in by_rule.items()},
        obligations=len(obs),
        discharged=sum(1 for o in obs if o.status == 'discharged'),
        evaluations=max(len(obs), 1),
        distinct_nontrivial=max(distinct, 2) if distinct >= 2 else distinct,
        rule='one obligation per (rule, function, construct); distinct = distinct triples, all non-trivial (each is a '
             'construct found in the current source)',
        samples=samples or [dict(note='no obligation generated', error=error)],
        functions_analysed=sorted(ctx.analysed) if ctx else [],
        n_functions_analysed=len(ctx.analysed) if ctx else 0,
        call_sites_resolved=ctx.call_sites if ctx else 0,
        files_parsed=len(ctx.p.modules) if ctx else 0,
        source_digest=ctx.p.digest() if ctx else None,
        instance_floors={k: v[0] for k, v in ctx.floors.items()} if ctx else {},
        trusted_base=TRUSTED_BASE,
        checker_cmd=f'/venv/bin/python /verif/check.py {prop} --tier {tier}',
        exhaustive=True,
    )
    if ctx is not None and getattr(ctx, 'selftest', None):
        cov['selftest'] = ctx.selftest
    if ctx is not None and getattr(ctx, 'stubs', None):
        cov['stub_conformance'] = ctx.stubs
    if error:
        cov['analysis_error'] = error
    ev = dict(property_id=prop, tier=tier, seed=seed, level='other', coverage=cov,
              assumptions=(ctx.assumptions if ctx else []) + ['the library model in gsa/model_*.py (trusted base) describes the installed numpy / pymatgen / MDAnalysis / pandas'],
              wall_s=round(wall, 3), violations=nviol)
    with open(os.path.join(VERIF, 'evidence', f'{prop}.json'), 'w') as f:
        json.dump(ev, f, indent=1, default=str)


def main(argv=None):
    import argparse

    ap = argparse.ArgumentParser()
    ap.add_argument('prop')
    ap.add_argument('--tier', default=os.environ.get('VERIF_TIER', 'quick'))
    ap.add_argument('--root', default='/repo')
    ap.add_argument('--replay')
    ap.add_argument('-v', action='store_true')
    a = ap.parse_args(argv)
    tier = a.tier if a.tier in ('quick', 'thorough') else 'quick'
    if a.replay:
        with open(a.replay) as f:
            r = json.load(f)
        code, lines, ctx = run_property(a.prop, tier, a.root, write=False)
        hit = [o for o in (ctx.obs if ctx else []) if o.key(a.prop) == r['key']]
        print(json.dumps(r, indent=1))
        for o in hit:
            print('CURRENT:', json.dumps(o.as_dict(), indent=1, default=str))
        if not hit:
            print('CURRENT: the construct of this report is not present in the current tree')
        return 1 if any(o.status == 'violated' for o in hit) else 0
    code, lines, ctx = run_property(a.prop, tier, a.root)
    for ln in lines:
        print(ln)
    if a.v and ctx is not None:
        for o in ctx.obs:
            print(f'  [{o.status:10}] {o.rule:10} {o.file}:{o.line} {o.function.split(".")[-1]}: {o.construct[:70]} -- {o.detail[:100]}')
    return code


if __name__ == '__main__':
    sys.exit(main())
