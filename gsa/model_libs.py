"""Library model, part 4: pymatgen, MDAnalysis, pandas, networkx, scipy, standard library.

Every entry is one line of API knowledge; together with model_numpy/model_npcalls this table is the
trusted base of the analysis (printed into every evidence file via `TRUSTED_BASE`)."""

from __future__ import annotations

import ast

from .interp import AV, TOP, const, cval, has_const, join, join_all
from .kinds import Mono, is_cart, is_fdiff, is_frac, is_fractional, num, parse_unit_label
from .model_base import TRAJ, deps_union
from .model_npcalls import as_array
from .model_numpy import XYZ, fresh, is_table, mono_of
from .source import norm_text

PMG_TRAJ = 'pymatgen.core.trajectory.Trajectory'

TRUSTED_BASE = [
    'python ast semantics as implemented in gsa/interp.py (flow-sensitive, loops by fixpoint, heap of package objects)',
    'pymatgen Trajectory stub: to_positions() rebinds coords to base_positions + cumsum (unwrapped) only when in '
    'displacement mode; to_displacements() rebinds coords to frame differences reduced by np.around (minimum image); '
    '__getitem__/constructor copy the given arrays; neither mutates an array in place',
    'pymatgen Lattice: get_cartesian_coords(f) = f @ matrix (rows = lattice vectors, lattice frame); '
    'get_all_distances / get_distance_and_image are exact minimum-image in any cell; metric_tensor = M M^T; '
    'parameters = (a,b,c,alpha,beta,gamma) carry no orientation; from_parameters(vesta=True) and '
    'MDAnalysis triclinic_vectors share the convention a || x, b in xy',
    'MDAnalysis PeriodicKDTree(box=six parameters) assumes coordinates in the triclinic_vectors(box) frame; '
    'search_tree returns pairs (query index, tree-point index); exact only for a validated box (DESIGN C02.R6)',
    'numpy: np.mod(x,1) lies in the closed interval [0,1] (np.mod(-1e-17,1) == 1.0); basic slicing/reshape/transpose/.T '
    'return views, arithmetic / boolean / fancy indexing / copy() return fresh arrays; np.digitize(x,b,right) index range '
    '[0,len(b)]; np.nonzero(a != np.roll(a,-1)) lists t with a[t] != a[t+1] plus the wrap index len-1',
    'pandas: DataFrame(data, columns=[...]) names columns in order; df.copy() is fresh; iterrows yields row copies',
    'scipy.constants values and units (angstrom m/A, Boltzmann J/K, elementary_charge C, Avogadro 1/mol, '
    "physical_constants['Boltzmann constant in eV/K'] eV/K)",
    'functools.lru_cache keys on the argument tuple; weakref.ref(x) does not keep x alive',
]


def lattice(frame='LAT', **kw):
    return AV(ty='Lattice', frame=frame, **kw)


class LibsModel:
    # ------------------------------------------------------------------ external calls
    def call_ext(self, interp, st, qual, args, kwargs, node, frame):
        d = self.deps_of(args, kwargs)
        if qual.startswith('numpy.'):
            return self.np_call(interp, st, qual[len('numpy.'):], args, kwargs, node, frame)
        last = qual.split('.')[-1]
        if qual.startswith('builtins.'):
            return AV(ty='exception', exc=last, deps=d)
        # ---- pymatgen
        if qual.startswith('pymatgen.'):
            if last == 'Lattice':
                a0 = args[0] if args else kwargs.get('matrix')
                fr = 'LAT'
                if a0 is not None and a0.geo is not None and a0.geo[0] == 'LATMAT':
                    fr = a0.geo[1]
                return lattice(fr, deps=d, from_matrix=a0)
            if qual.endswith('Lattice.from_parameters'):
                v = kwargs.get('vesta')
                fr = 'MDA' if (v is not None and has_const(v) and cval(v)) else 'PMGSTD'
                return lattice(fr, deps=d, from_params=args)
            if last == 'Structure' or qual.endswith('Structure.from_file') or qual.endswith('Structure.from_spacegroup'):
                return AV(ty='Structure', deps=d, coords=kwargs.get('coords'), kw=dict(kwargs))
            if last == 'PeriodicSite':
                return AV(ty='PeriodicSite', deps=d)
            if last in ('Element', 'Species'):
                return AV(ty='Species', deps=d, species_obj=True)
            if last == 'FloatWithUnit':
                v = args[0] if args else TOP
                lab = args[1] if len(args) > 1 else kwargs.get('unit')
                interp.emit('float_with_unit', node, value=v, label=cval(lab) if (lab is not None and has_const(lab)) else None)
                return v.only('geo', 'mono', 'deps', 'prov', 'mono_unknown').w(ty='FloatWithUnit', unit_label=cval(lab) if (lab is not None and has_const(lab)) else None,
                                                        deps=d)
            if last == 'Unit':
                return AV(ty='Unit')
            if last == 'SpacegroupAnalyzer':
                return AV(ty='SpacegroupAnalyzer', deps=d)
            if last == 'PointGroup':
                return AV(ty='PointGroup', deps=d)
            if last == 'VolumetricData':
                return AV(ty='VolumetricData', deps=d)
            if last == 'Vasprun':
                return AV(ty='Vasprun', deps=d, parsed=True)
            if qual.endswith('LammpsData.from_file'):
                return AV(ty='LammpsData', deps=d, parsed=True)
        # ---- MDAnalysis
        if qual.startswith('MDAnalysis'):
            if last == 'PeriodicKDTree':
                box = self.arg(args, kwargs, 0, 'box')
                interp.emit('kdtree_new', node, box=box)
                return AV(ty='KDTree', box=box, deps=d, site=norm_text(node))
            if last == 'triclinic_vectors':
                box = self.arg(args, kwargs, 0, 'dimensions')
                return AV(ty='ndarray', geo=('LATMAT', 'MDA'), deps=d, box=box, store='fresh')
            if last == 'Universe':
                return AV(ty='Universe', deps=d, parsed=True)
            if last == 'EDRReader':
                return AV(ty='EDRReader', deps=d, parsed=True)
        # ---- pandas
        if qual == 'pandas.unique' and args:
            # like np.unique, but in order of first appearance: NOT sorted
            u = self.np_unique(interp, st, args, {}, node)
            return u.w(sorted=False, appearance_order=True)
        if qual == 'pandas.DataFrame':
            data = self.arg(args, kwargs, 0, 'data')
            cols = kwargs.get('columns')
            out = AV(ty='DataFrame', deps=d, store='fresh', fresh=True)
            if data is not None and cols is not None and cols.elts is not None and all(has_const(c) for c in cols.elts):
                names = [cval(c) for c in cols.elts]
                cv = as_array(data).colvals if data.ty in ('ndarray', 'list') else None
                if data.ty == 'ndarray' and data.colvals is not None:
                    cv = data.colvals
                if cv is not None:
                    interp.emit('table', node, names=names, values=cv)
                    if len(cv) == len(names):
                        out = out.w(cols=dict(zip(names, [as_array(v).only('idx', 'at', 'geo', 'mono', 'taint', 'inner').w(ty='Series') for v in cv])))
                    else:
                        interp.emit('table_mismatch', node, names=names, n=len(cv))
                else:
                    out = out.w(cols={n: AV(ty='Series') for n in names})
            elif data is not None and data.ty == 'list' and data.elem is not None and data.elem.ty == 'Row':
                out = out.w(cols=data.elem.cols, maybe_empty=data.maybe_empty, from_rows=True)
            elif data is not None and data.ty == 'dict':
                out = out.w(from_dict=data)
            return out
        # ---- networkx
        if qual.startswith('networkx.'):
            if last in ('Graph', 'DiGraph'):
                return AV(ty='Graph', directed=(last == 'DiGraph') or None, deps=d, fresh=True, gid=id(node),
                          kw={k: v for k, v in kwargs.items() if k != '**'} or None)  # graph attributes are held by the graph
            if last == 'shortest_path':
                interp.emit('nx_shortest_path', node, args=args, kwargs=kwargs)
                return AV(ty='list', elem=AV(ty='tuple', voxel=True), deps=d, path=True, fresh=True)
            if last == 'shortest_simple_paths':
                return AV(ty='generator', elem=AV(ty='list', elem=AV(ty='tuple', voxel=True), path=True), deps=d)
            return AV(deps=d)
        # ---- scipy
        if qual == 'scipy.signal.periodogram':
            x, fs = self.arg(args, kwargs, 0, 'x'), self.arg(args, kwargs, 1, 'fs')
            mx, mf = mono_of(x), mono_of(fs)
            f = AV(ty='ndarray', deps=d, mono=mf.wrap('freqs') if mf is not None else None, axes=('freq',))
            p = AV(ty='ndarray', deps=d, mono=((mx ** 2) / mf).wrap('psd') if (mx is not None and mf is not None) else None)
            return AV(ty='tuple', elts=[f, p], deps=d)
        if qual.endswith('cKDTree'):
            pts = as_array(args[0]) if args else TOP
            interp.emit('euclid_tree', node, points=pts)
            return AV(ty='cKDTree', deps=d, points=pts)
        if qual.startswith('skimage') or qual.startswith('scipy.ndimage'):
            if last == 'label':
                return AV(ty='tuple', elts=[AV(ty='ndarray'), AV(ty='int')], deps=d)
            if last == 'regionprops':
                return AV(ty='list', elem=AV(ty='RegionProperties'), deps=d)
            return AV(ty='ndarray', deps=d, store='fresh')
        # ---- stdlib
        if qual == 'json.dumps':
            interp.emit('json_dumps', node, obj=args[0] if args else None)
            return AV(ty='str', deps=d)
        if qual.startswith('hashlib.'):
            return AV(ty='hash', deps=d)
        if qual == 'pathlib.Path':
            return AV(ty='Path', deps=d, truthy=True, of=args[0] if args else None)
        if qual in ('pickle.Pickler', 'pickle.Unpickler'):
            return AV(ty='pickler', kind=qual.split('.')[-1], file=args[0] if args else kwargs.get('file'), deps=d)
        if qual == 'pickle.load':
            interp.emit('pickle_load', node, file=args[0] if args else None)
            return AV(ty='unpickled', deps=d, prov=frozenset({'pickle'}))
        if qual == 'pickle.dump':
            interp.emit('pickle_dump', node, obj=args[0] if args else None, file=args[1] if len(args) > 1 else None)
            return const(None)
        if qual == 'itertools.pairwise':
            return AV(ty='pairwise', of=args[0], deps=d)
        if qual == 'itertools.chain.from_iterable' and args:
            inner = self.iter_item(interp, st, args[0], None, None)
            el = self.iter_item(interp, st, inner, None, None) if inner is not None else None
            return AV(ty='generator', elem=el, deps=d, maybe_empty=True)
        if qual == 'itertools.chain':
            els = [self.iter_item(interp, st, a, None, None) for a in args]
            els = [e for e in els if e is not None]
            return AV(ty='generator', elem=join_all(els) if els else None, deps=d, maybe_empty=True)
        if qual == 'itertools.accumulate' and args:
            fn = args[1] if len(args) > 1 else kwargs.get('func')
            is_add = fn is None or (fn.ty == 'ext' and fn.qual in ('operator.add', 'operator.iadd', 'numpy.add'))
            x = args[0]
            if is_add and x.ty == 'ndarray' and 'initial' not in kwargs:
                # running sum of the items along the leading axis: the rows of np.cumsum(x, axis=0)
                cs = self.np_reduce(interp, st, 'cumsum', [x], {'axis': const(0)}, node)
                return AV(ty='generator', elem=self.iter_item(interp, st, cs, None, None), deps=d, accumulate_of=x)
            return AV(ty='generator', elem=AV(deps=d), deps=d)
        if qual in ('itertools.combinations', 'itertools.permutations', 'itertools.combinations_with_replacement') and len(args) >= 1:
            r = args[1] if len(args) > 1 else kwargs.get('r')
            el = self.iter_item(interp, st, args[0], node, None)
            if r is not None and has_const(r) and cval(r) == 2 and el is not None:
                def later(v):
                    # the second member of a pair comes from a later position of the sequence
                    if v is None:
                        return v
                    if v.ty == 'Row':
                        return v.w(scan=(v.scan or 0) + 0.5)
                    if v.elts is not None:
                        return v.w(elts=[later(x) for x in v.elts])
                    return v
                return AV(ty='generator', elem=AV(ty='tuple', elts=[el, later(el)]), deps=d, maybe_empty=True,
                          combos_of=(qual.split('.')[-1], args[0]))
            return AV(ty='generator', elem=AV(ty='tuple', elem=el), deps=d, maybe_empty=True)
        if qual == 'itertools.groupby' and args:
            # groups CONSECUTIVE items with equal keys; complete groups only when the input is sorted by the same key
            x = args[0]
            item = self.iter_item(interp, st, x, node, None)
            keyf = args[1] if len(args) > 1 else kwargs.get('key')
            kv = interp.call_value(keyf, [item], {}, frame, st, node) if keyf is not None else item
            presorted = bool(x.sorted) or (isinstance(node, ast.Call) and node.args and isinstance(node.args[0], ast.Call)
                                           and norm_text(node.args[0].func) == 'sorted')
            return AV(ty='generator', elem=AV(ty='tuple', elts=[kv, AV(ty='generator', elem=item, deps=d)]), deps=d, maybe_empty=True,
                      groupby_runs=None if presorted else True)
        if qual == 'itertools.count':
            return AV(ty='count', start=args[0] if args else const(0), deps=d)
        if qual == 'itertools.starmap' and len(args) == 2:
            item = self.iter_item(interp, st, args[1], node, None)
            if item is not None and item.elts is not None:
                el = interp.call_value(args[0], list(item.elts), {}, frame, st, node)
            else:
                el = AV(deps=d)
            return AV(ty='generator', elem=el, deps=d, maybe_empty=True)
        if qual == 'itertools.compress':
            el = self.iter_item(interp, st, args[0], None, None)
            return AV(ty='generator', elem=el, deps=d)
        if qual == 'itertools.product':
            el = self.iter_item(interp, st, args[0], None, None)
            rep = kwargs.get('repeat')
            n = cval(rep) if rep is not None and has_const(rep) else len(args)
            return AV(ty='generator', elem=AV(ty='tuple', elts=[el] * n), deps=d)
        if qual == 'collections.Counter':
            out = AV(ty='dict', counter=True, deps=d, fresh=True, elem=AV(ty='int', mono=Mono.atom('count')))
            if args and args[0].ty == 'dict':
                # Counter(mapping): the counts are taken over from the mapping, nothing is added up
                out = out.w(keyelem=args[0].keyelem, counted=args[0], overwrite=args[0].overwrite, accum=args[0].accum,
                            elem=args[0].elem if args[0].elem is not None else out.elem)
            elif args:
                out = out.w(keyelem=self.iter_item(interp, st, args[0], None, None), counted=args[0], accum=True)
            else:
                out = out.w(empty_init=True)
            return out
        if qual == 'collections.defaultdict':
            fac = args[0] if args else None
            el = None
            if fac is not None and fac.ty == 'builtin' and fac.name == 'list':
                el = AV(ty='list', elts=[], fresh=True)
            elif fac is not None and fac.ty == 'lambda':
                el = interp.call_lambda(fac, [], {}, st, node)
            return AV(ty='dict', defaultdict=True, elem=el, deps=d, fresh=True)
        if qual == 'math.ceil':
            a = args[0]
            m = mono_of(a)
            return AV(ty='int', deps=d, mono=m.wrap('ceil') if m is not None else None)
        if qual in ('warnings.warn',):
            return const(None)
        if qual == 'weakref.ref':
            return AV(ty='weakref', of=args[0] if args else None, deps=d)
        if qual == 'functools.reduce' and len(args) >= 2:
            from .interp import known_items
            items = known_items(args[1], limit=8)
            f = args[0]
            if items is not None and (len(args) > 2 or len(items) >= 1):
                acc = args[2] if len(args) > 2 else items[0]
                rest = items if len(args) > 2 else items[1:]
                for el in rest:
                    acc = interp.call_value(f, [acc, el], {}, frame, st, node)
                return acc
            el = self.iter_item(interp, st, args[1], None, None)
            init = args[2] if len(args) > 2 else el
            if f.ty == 'builtin' and f.name in ('min', 'max') and init is not None and el is not None:
                return self.call_builtin(interp, st, f.name, [init, el], {}, node, frame)
            if init is not None and el is not None:
                # one application stands for the fold when the step keeps the kind of the accumulator
                return join(init, interp.call_value(f, [init, el], {}, frame, st, node))
            return AV(deps=d)
        if qual == 'operator.methodcaller' and args and has_const(args[0]):
            return AV(ty='opcaller', kind='method', name=cval(args[0]), pargs=list(args[1:]), pkwargs=dict(kwargs), deps=d)
        if qual == 'operator.attrgetter' and len(args) == 1 and has_const(args[0]) and '.' not in str(cval(args[0])):
            return AV(ty='opcaller', kind='attr', name=cval(args[0]), deps=d)
        if qual == 'operator.itemgetter' and len(args) == 1:
            return AV(ty='opcaller', kind='item', key=args[0], deps=d)
        if qual == 'operator.itemgetter' and len(args) > 1:
            return AV(ty='opcaller', kind='items', keys=list(args), deps=d)
        if qual == 'functools.partial' and args:
            return AV(ty='partial', target=args[0], pargs=list(args[1:]), pkwargs=dict(kwargs), deps=d)
        if qual == 'functools.update_wrapper' and args:
            return args[0]  # copies metadata onto the wrapper and returns it
        if qual in ('functools.lru_cache', 'functools.cache') and len(args) == 1 and not kwargs and args[0].ty in ('func', 'lambda', 'partial', 'symfunc'):
            return AV(ty='lru_cached', target=args[0], deco_args=[], deps=d)  # bare @lru_cache
        if qual.startswith('functools.'):
            return AV(ty='decorator', qual=qual, args=args)
        if qual == 're.compile':
            return AV(ty='regex')
        if qual.startswith('scipy.constants.physical_constants'):
            return TOP
        if qual == 'rich.progress.track':
            return args[0]
        if qual.startswith('uncertainties.'):
            return AV(ty='ufloat', elts=list(args), deps=d)
        if qual == 'dataclasses.replace':
            obj = args[0]
            if obj.ty == 'obj':
                ci = interp.p.classes.get(obj.cls)
                new = interp.new_obj(st, ci, site='replace')
                st.heap[new.oid] = dict(st.heap.get(obj.oid, {}))
                st.heap[new.oid].pop('#init_done', None)
                post = interp.p.find_method(ci, '__post_init__')
                initvars = {k: v for k, v in kwargs.items() if any(f[0] == k and norm_text(f[1]).startswith('InitVar') for f in ci.fields)}
                for k, v in kwargs.items():
                    if k not in initvars:
                        st.heap[new.oid][k] = v
                if post is not None:
                    interp.call_function(post, [], initvars, st, self_av=new, node=node)
                return new
            return obj
        if qual == 'dataclasses.field':
            return TOP
        if qual == 'importlib.resources.files':
            return AV(ty='Path')
        if qual.startswith('xml.'):
            return AV(ty='exception')
        if qual == 'mypy_extensions.DefaultNamedArg':
            return TOP
        interp.note(f'unmodelled external call {qual}', node)
        return AV(deps=d, extres=qual)

    # ------------------------------------------------------------------ attributes of external values
    def ext_constant(self, qual):
        consts = {
            'scipy.constants.angstrom': Mono.atom('angstrom', (0, 0, 0), {'m': 1, 'ang': -1}),
            'scipy.constants.Boltzmann': Mono.atom('Boltzmann', (0, 0, 0), {'kg': 1, 'm': 2, 's': -2, 'K': -1}),
            'scipy.constants.elementary_charge': Mono.atom('elementary_charge', (0, 0, 0), {'A': 1, 's': 1}),
            'scipy.constants.Avogadro': Mono.atom('Avogadro', (0, 0, 0), {'mol': -1}),
            'scipy.constants.pi': num(3.141592653589793),
            'numpy.pi': num(3.141592653589793),
            'math.pi': num(3.141592653589793),
        }
        return consts.get(qual)

    def attr(self, interp, st, base, attr, node):
        ty = base.ty
        d = base.deps
        if ty == 'ndarray':
            return self.array_attr(interp, st, base, attr, node)
        if ty == 'Lattice':
            fr = base.frame
            if attr == 'matrix':
                return AV(ty='ndarray', geo=('LATMAT', fr), deps=d, store='attr:Lattice.matrix')
            if attr == 'metric_tensor':
                return AV(ty='ndarray', geo=('METRIC',), deps=d, mono=Mono.atom('len', (1, 0, 0), {'ang': 1}) ** 2)
            if attr == 'parameters':
                return AV(ty='tuple', geo=('BOX',), deps=d, boxof=base)
            if attr in ('lengths', 'abc'):
                return AV(ty='tuple', deps=d, tuple_of='lattice.lengths',
                          elts=[AV(ty='float', axis=k, mono=Mono.atom('len', (1, 0, 0), {'ang': 1}), deps=d, geo=('DIST',)) for k in range(3)])
            if attr == 'angles':
                return AV(ty='tuple', deps=d, elts=[AV(ty='float', axis=k) for k in range(3)])
            if attr == 'volume':
                return AV(ty='float', deps=(d or frozenset()) | {'attr:lattice.volume'}, mono=Mono.atom('volume', (3, 0, 0), {'ang': 3}))
            if attr == 'pbc':
                return AV(ty='tuple', elts=[AV(ty='bool')] * 3)
            return AV(ty='extmethod', recv=base, name=attr)
        if ty == 'Structure':
            if attr == 'frac_coords':
                return AV(ty='ndarray', geo=('FRAC', 'N'), axes=('site', XYZ), deps=d, store='attr:Structure.frac_coords', of_struct=True)
            if attr == 'cart_coords':
                return AV(ty='ndarray', geo=('CART', 'LAT', 'pos'), axes=('site', XYZ), deps=d, store='attr:Structure.cart_coords')
            if attr == 'lattice':
                return lattice('LAT', deps=d, of_structure=True)
            if attr == 'labels':
                return AV(ty='list', elem=AV(ty='str', label=True), deps=d, indexed_by='SITE', store='attr:Structure.labels')
            if attr == 'species':
                return AV(ty='list', elem=AV(ty='Species', species_obj=True), deps=d)
            if attr in ('is_ordered',):
                return AV(ty='bool', deps=d)
            if attr == 'symbol_set':
                return AV(ty='tuple', elem=AV(ty='str', symbol=True), deps=d)
            if attr == 'site_properties':
                return AV(ty='dict', deps=d)
            if attr == 'composition':
                return AV(ty='Composition')
            if attr == 'equivalent_sites':
                return AV(ty='list', elem=AV(ty='list', elem=AV(ty='PeriodicSite')))
            if attr == 'spacegroup':
                return AV(ty='SpaceGroup')
            return AV(ty='extmethod', recv=base, name=attr)
        if ty == 'PeriodicSite':
            if attr == 'frac_coords':
                return AV(ty='ndarray', geo=('FRAC', 'N'), axes=(XYZ,), deps=d, store='attr:PeriodicSite.frac_coords')
            if attr == 'coords':
                return AV(ty='ndarray', geo=('CART', 'LAT', 'pos'), axes=(XYZ,), deps=d, store='attr:PeriodicSite.coords')
            if attr == 'label':
                return AV(ty='str', label=True, deps=d)
            if attr in ('species', 'specie'):
                return AV(ty='Composition' if attr == 'species' else 'Species', deps=d)
            if attr == 'lattice':
                return lattice('LAT', deps=d)
            if attr == 'is_ordered':
                return AV(ty='bool')
            return AV(ty='extmethod', recv=base, name=attr)
        if ty == 'Species':
            if attr in ('symbol', 'name'):
                return AV(ty='str', symbol=True, deps=d)
            if attr == 'atomic_mass':
                return AV(ty='float', deps=(d or frozenset()) | {'attr:atomic_mass'}, mono=Mono.atom('mass'), mass=True)
            return AV(deps=d)
        if ty == 'Composition':
            if attr == 'elements':
                return AV(ty='list', elem=AV(ty='Species', species_obj=True))
            if attr == 'num_atoms':
                return AV(ty='float', deps=d, mono=Mono.atom('occupancy'))
            return AV(deps=d)
        if ty == 'SymmOp':
            if attr == 'inverse':
                return AV(ty='SymmOp', inverse_of=base.opid or 'op', opid=('inv', base.opid or 'op'), deps=d)
            if attr == 'rotation_matrix':
                return AV(ty='ndarray', deps=d, axes=('i', 'j'))
            return AV(ty='extmethod', recv=base, name=attr)
        if ty in ('SpaceGroup', 'PointGroup'):
            if attr == 'symmetry_ops':
                return AV(ty='list', elem=AV(ty='SymmOp', opid='op'))
            if attr in ('int_number', 'int_symbol', 'symbol'):
                return AV(ty='str')
            return AV(ty='extmethod', recv=base, name=attr)
        if ty in ('DataFrame', 'Row', 'Series'):
            return self.pandas_attr(interp, st, base, attr, node)
        if ty == 'Graph':
            if attr in ('nodes', 'edges'):
                return AV(ty='GraphView', of=base, which=attr, deps=d)
            return AV(ty='extmethod', recv=base, name=attr)
        if ty == 'tuple' and attr in ('count', 'index'):
            return AV(ty='extmethod', recv=base, name=attr)
        if ty == 'ext':
            return AV(ty='ext', qual=f'{base.qual}.{attr}')
        if ty == 'FloatWithUnit':
            return AV(deps=d)
        if ty == 'Vasprun':
            if attr == 'structures':
                return AV(ty='list', elem=AV(ty='Structure'), deps=d, parsed=True)
            if attr == 'parameters':
                return AV(ty='dict', deps=d, parsed=True, elem=AV(ty='float', deps=d))
        if ty == 'Universe':
            if attr == 'trajectory':
                return AV(ty='MDATraj', deps=d, parsed=True)
            if attr == 'atoms':
                return AV(ty='AtomGroup', deps=d, parsed=True)
        if ty == 'MDATraj':
            if attr == 'dt':
                return AV(ty='float', deps=d, mono=Mono.atom('md_dt_ps', (0, 1, 0), {'s': 1, '10': -12}))
            return AV(ty='extmethod', recv=base, name=attr)
        if ty == 'AtomGroup':
            return AV(ty='list', elem=AV(ty='str', deps=d), deps=d)
        if ty == 'LammpsData':
            if attr == 'structure':
                return AV(ty='Structure', deps=d)
        if ty == 'RegionProperties':
            if attr == 'coords':
                return AV(ty='ndarray', store='foreign:RegionProperties.coords', axes=('voxel', XYZ), deps=d, idx=('VOXEL',))
            if attr == 'image':
                return AV(ty='ndarray', store='foreign:RegionProperties.image', deps=d)
            return AV(deps=d)
        if ty == 'VolumetricData':
            if attr == 'data':
                return AV(ty='dict', deps=d)
            if attr == 'structure':
                return AV(ty='Structure', deps=d)
        if ty == 'plotmodule':
            return AV(ty='plotfunc', name=attr)
        if ty in ('str', 'list', 'dict', 'set', 'tuple', 'Path', 'file', 'hash', 'regex', 'generator', 'int', 'float',
                  'KDTree', 'cKDTree', 'SpacegroupAnalyzer', 'EDRReader', 'exception', 'callable', 'unpickled',
                  'GraphView', 'range', 'bool', 'Row', 'ufloat', 'weakref'):
            return AV(ty='extmethod', recv=base, name=attr)
        if ty is None:
            return AV(ty='extmethod', recv=base, name=attr, unknown_recv=True, deps=d)
        return AV(ty='extmethod', recv=base, name=attr)

    # ---- attributes inherited from an external base class of a package class (pymatgen Trajectory)
    def obj_attr_ext(self, interp, st, base, ci, attr, node):
        _, ext = interp.p.mro(ci)
        d = base.deps
        heap = st.heap[base.oid]
        if any(e in ('list', 'builtins.list') for e in ext):
            lst = heap.get('#list') or AV(ty='list', fresh=True)
            return AV(ty='extmethod', recv=lst, name=attr)
        if any(e and e.endswith('trajectory.Trajectory') for e in ext):
            if attr == 'coords':
                interp.emit('raw_coords_read', node, obj=base, mode=heap.get('#mode'))
                v = AV(ty='ndarray', geo=('RAW',), axes=('frame', 'atom', XYZ), deps=d, store='attr:Trajectory.coords',
                       prov=frozenset({'traj.coords'}))
                heap['coords'] = v
                return v
            if attr == 'base_positions':
                return AV(ty='ndarray', geo=('FRAC', 'N'), axes=('atom', XYZ), deps=d, store='attr:Trajectory.base_positions',
                          prov=frozenset({'traj.base_positions'}))
            if attr == 'coords_are_displacement':
                mode = heap.get('#mode')
                if mode is not None and has_const(mode) and cval(mode) in ('pos', 'disp'):
                    return const(cval(mode) == 'disp').w(deps=d, modeflag_of=base.oid)
                return AV(ty='bool', deps=d, modeflag_of=base.oid)
            if attr == 'lattice':
                return AV(ty='ndarray', geo=('LATMAT', 'LAT'), deps=d, store='attr:Trajectory.lattice')
            if attr == 'lattices':
                return AV(ty='ndarray', geo=('LATMAT', 'LAT'), deps=d, axes=('frame', 'i', 'j'), store='attr:Trajectory.lattice')
            if attr == 'species':
                return AV(ty='list', elem=AV(ty='Species', species_obj=True), deps=(d or frozenset()) | {'attr:traj.species'},
                          store='attr:Trajectory.species', lenname='n_atoms')
            if attr == 'time_step':
                return AV(ty='float', deps=(d or frozenset()) | {'attr:traj.time_step'}, mono=Mono.atom('time_step', (0, 1, 0), {'s': 1}),
                          maybe_none=True)
            if attr == 'constant_lattice':
                return AV(ty='bool', deps=d)
            if attr in ('site_properties', 'frame_properties'):
                return AV(ty='dict', deps=d, maybe_none=True)
            if attr == 'metadata':
                return AV(ty='dict', deps=d, store='attr:Trajectory.metadata', metadata=True,
                          kw={'temperature': AV(ty='float', mono=Mono.atom('temperature', (0, 0, 0), {'K': 1}), deps=frozenset({'attr:traj.temperature'}))},
                          open_kw=True)
            if attr in ('to_positions', 'to_displacements', 'get_structure', 'extend', 'from_structures', 'write_Xdatcar',
                        'as_dict', 'from_file', 'from_molecules', '__getitem__', '__len__', '__iter__'):
                return AV(ty='extmethod', recv=base, name=attr, ext_bases=tuple(ext))
        return None

    def metadata_av(self, d=None):
        return AV(ty='dict', deps=d, store='attr:Trajectory.metadata', metadata=True,
                  kw={'temperature': AV(ty='float', mono=Mono.atom('temperature', (0, 0, 0), {'K': 1}),
                                        deps=frozenset({'attr:traj.temperature'}))}, open_kw=True)

    def populate_symbolic(self, interp, st, base, ci):
        super().populate_symbolic(interp, st, base, ci)
        if ci.qualname == TRAJ:
            # a trajectory of unknown origin: metadata as documented by the loaders
            st.heap[base.oid]['metadata'] = self.metadata_av(base.deps)
            st.heap[base.oid].pop('#mode', None)
            # storage of unknown mode: positions (possibly unwrapped) or displacements
            st.heap[base.oid].setdefault('coords', AV(ty='ndarray', geo=('RAW',), axes=('frame', 'atom', XYZ), deps=base.deps,
                                                      store='attr:Trajectory.coords', prov=frozenset({'traj.coords'})))

        if ci.qualname == 'gemdat.transitions.Transitions':
            # documented layout of the state arrays: [time step, atom], values = site index or NOSITE
            for attr in ('states', 'inner_states'):
                cur = st.heap[base.oid].get(attr)
                if cur is not None and cur.axes is None and cur.ty in (None, 'ndarray'):
                    st.heap[base.oid][attr] = cur.w(ty='ndarray', axes=('frame', 'atom'), idx=cur.idx if cur.idx is not None else ('SITE', True))

    def ext_base_init(self, interp, st, obj, ci, args, kwargs, node):
        _, ext = interp.p.mro(ci)
        if any(e and e.endswith('trajectory.Trajectory') for e in ext):
            self.traj_base_init(interp, st, obj, args, kwargs, node)
            return
        super().ext_base_init(interp, st, obj, ci, args, kwargs, node)

    def traj_base_init(self, interp, st, obj, args, kwargs, node):
        """pymatgen Trajectory.__init__(species, coords, charge, spin_multiplicity, lattice, *, site_properties,
        frame_properties, constant_lattice, time_step, coords_are_displacement, base_positions)"""
        heap = st.heap[obj.oid]
        kw = dict(kwargs)
        star = kw.pop('**', None)
        if star is not None and star.kw:
            for k, v in star.kw.items():
                kw.setdefault(k, v)
        names = ['species', 'coords', 'charge', 'spin_multiplicity', 'lattice']
        for n, a in zip(names, args):
            kw.setdefault(n, a)
        interp.emit('traj_init', node, obj=obj, kwargs=kw, open_kw=bool(star is not None and (star.open_kw or not star.kw)))
        cad = kw.get('coords_are_displacement')
        disp = bool(cad is not None and has_const(cad) and cval(cad))
        unknown_mode = cad is not None and not has_const(cad)
        coords = kw.get('coords')
        if coords is not None:
            coords = as_array(coords).w(store='attr:Trajectory.coords')
            heap['coords'] = coords
        heap['#mode'] = const('disp' if disp else 'pos') if not unknown_mode else AV(ty='str')
        if 'base_positions' in kw:
            heap['base_positions'] = kw['base_positions']
        elif coords is not None and not disp:
            heap['base_positions'] = coords.w(axes=coords.axes[1:] if coords.axes else None, store='attr:Trajectory.base_positions')
        for k in ('species', 'time_step', 'constant_lattice', 'site_properties'):
            if k in kw:
                heap[k] = kw[k]
        if 'lattice' in kw:
            lv = kw['lattice']
            if lv.ty == 'Lattice':
                heap['lattice'] = AV(ty='ndarray', geo=('LATMAT', lv.frame), deps=lv.deps, store='attr:Trajectory.lattice')
            else:
                heap['lattice'] = lv
        heap.setdefault('constant_lattice', const(True))

    # ------------------------------------------------------------------ methods of external values
    def call_method(self, interp, st, recv, name, args, kwargs, node, frame):
        d = deps_union(recv, *args, *[v for v in kwargs.values()])
        ty = recv.ty
        if ty == 'ndarray':
            return self.array_method(interp, st, recv, name, args, kwargs, node)
        if ty == 'obj':
            return self.traj_method(interp, st, recv, name, args, kwargs, node, frame)
        if ty == 'class':
            # classmethod of an external base (cls.from_structures)
            if name == 'from_structures':
                ci = interp.p.classes.get(recv.cls)
                obj = interp.new_obj(st, ci, site='from_structures')
                kw = {k: v for k, v in kwargs.items()}
                kw['coords'] = AV(ty='ndarray', geo=('FRAC', 'N'), axes=('frame', 'atom', XYZ), deps=d, store='fresh')
                init = interp.p.find_method(ci, '__init__')
                interp.emit('construct', node, cls=recv.cls, args=[], kwargs=kw, obj=obj)
                if init is not None:
                    interp.call_function(init, [], kw, st, self_av=obj, node=node)
                return obj.w(deps=d)
            return AV(deps=d)
        if ty == 'Lattice':
            return self.lattice_method(interp, st, recv, name, args, kwargs, node, d)
        if ty == 'KDTree':
            if name == 'set_coords':
                interp.emit('kdtree_coords', node, tree=recv, coords=args[0] if args else kwargs.get('coords'), which='set_coords')
                return const(None)
            if name in ('search_tree', 'search', 'search_pairs'):
                c = args[0] if args else kwargs.get('centers')
                r = self.arg(args, kwargs, 1, 'radius')
                interp.emit('kdtree_coords', node, tree=recv, coords=c, which=name)
                interp.emit('kdtree_search', node, tree=recv, centers=c, radius=r)
                pairs = AV(ty='ndarray', dtype='int', deps=d, store='fresh', maybe_empty=True, axes=('pair', 'col'),
                           colvals=[AV(ty='ndarray', idx=('LOCALSITE',), searched=c), AV(ty='ndarray', idx=('ATOMFRAME',))],
                           search_result=True)
                return pairs
            return AV(deps=d)
        if ty == 'cKDTree':
            if name == 'query':
                interp.emit('euclid_query', node, tree=recv, x=args[0] if args else None)
                return AV(ty='tuple', elts=[AV(ty='float'), AV(ty='int')], deps=d)
            return AV(deps=d)
        if ty == 'Structure':
            if name in ('copy', 'make_supercell'):
                return recv.w(deps=d)
            if name in ('merge_sites', 'replace', 'to_file', 'add_site_property'):
                interp.emit('struct_mutation', node, recv=recv, name=name)
                return const(None)
            if name == 'get_sorted_structure':
                return recv
            return AV(deps=d)
        if ty == 'SymmOp':
            if name in ('operate', 'operate_multi'):
                a = as_array(args[0])
                g = a.geo
                interp.emit('symop', node, op=recv, which=name, arg=a)
                return AV(ty='ndarray', geo=('FRAC', 'N') if is_fractional(g) else g, axes=a.axes, deps=d, store='fresh',
                          symimg=(recv.opid or 'op', a), unwrapped_image=True)
            return AV(deps=d)
        if ty == 'SpacegroupAnalyzer':
            return AV(ty='Structure', symmetrized=True, deps=d)
        if ty in ('DataFrame', 'Row', 'Series'):
            return self.pandas_method(interp, st, recv, name, args, kwargs, node, frame, d)
        if ty == 'Graph':
            def _attrs(kw_):
                # attribute keywords; `**mapping` contributes its known entries ('**' stays when entries may be unknown)
                out_ = {k: v for k, v in kw_.items() if k != '**'}
                m = kw_.get('**')
                if m is not None:
                    out_.update(m.kw or {})
                    if m.ty != 'dict' or m.open_kw or not m.kw:
                        out_['**'] = m
                return out_
            if name == 'add_node':
                interp.emit('graph_add_node', node, graph=recv, key=args[0] if args else None, attrs=_attrs(kwargs))
                return const(None)
            if name == 'add_edge' and len(args) >= 2:
                interp.emit('graph_add_edge', node, graph=recv, u=args[0], v=args[1], attrs=_attrs(kwargs))
                return const(None)
            if name == 'add_nodes_from' and args:
                el = self.iter_item(interp, st, args[0], None, None)
                attrs = _attrs(kwargs)
                key = el
                if el is not None and el.ty == 'tuple' and el.elts is not None and len(el.elts) == 2 and el.elts[1].ty == 'dict':
                    key = el.elts[0]
                    attrs.update(el.elts[1].kw or {})
                # items whose shape is not known may be (node, attribute dict) pairs
                opaque = el is None or el.ty is None or (el.ty == 'tuple' and (el.elts is None or (len(el.elts) == 2 and el.elts[1].ty in (None, 'dict') and not el.elts[1].kw)))
                interp.emit('graph_add_node', node, graph=recv, key=key, attrs=attrs, opaque=opaque or None)
                return const(None)
            if name in ('add_edges_from', 'add_weighted_edges_from') and args:
                el = self.iter_item(interp, st, args[0], None, None)
                if el is not None and el.ty == 'tuple' and el.elts is not None and len(el.elts) >= 2:
                    attrs = _attrs(kwargs)
                    if len(el.elts) > 2 and el.elts[2].ty == 'dict':
                        attrs.update(el.elts[2].kw or {})
                    interp.emit('graph_add_edge', node, graph=recv, u=el.elts[0], v=el.elts[1], attrs=attrs)
                return const(None)
            if name == 'copy':
                return recv.w(fresh=True, copied=True)
            if name in ('remove_node', 'remove_nodes_from', 'remove_edge', 'remove_edges_from', 'clear', 'clear_edges', 'update'):
                interp.emit('graph_mutation', node, graph=recv, name=name)
                interp.emit('store', node, kind='method:' + name, base=recv, index=None, value=None, stmt=None)
                return const(None)
            if name == 'get_edge_data':
                return AV(ty='dict', deps=d, maybe_none=True)
            return AV(deps=d)
        if ty == 'dict':
            return self.dict_method(interp, st, recv, name, args, kwargs, node, frame, d)
        if ty in ('list', 'set'):
            return self.list_method(interp, st, recv, name, args, kwargs, node, frame, d)
        if ty == 'str':
            if name in ('split', 'rsplit', 'partition', 'rpartition', 'splitlines'):
                # a piece of the text: two different texts can share it
                ld = frozenset((x + '#part') if (x.startswith('param:') and '#' not in x) else x for x in (d or ()))
                return AV(ty='tuple' if 'partition' in name else 'list', elem=AV(ty='str', deps=ld), deps=ld)
            if name in ('join', 'format', 'capitalize', 'rjust', 'lower', 'upper', 'strip', 'replace', 'group'):
                return AV(ty='str', deps=d)
            if name == 'encode':
                return AV(ty='bytes', deps=d)
            if name in ('startswith', 'endswith'):
                return AV(ty='bool', deps=d)
            if name == 'split':
                return AV(ty='list', elem=AV(ty='str'), deps=d)
            return AV(deps=d)
        if ty == 'bytes':
            return AV(deps=d)
        if ty == 'hash':
            if name == 'update':
                # the digest now depends on what was fed
                if node is not None and isinstance(node.func, ast.Attribute):
                    self.rebind(interp, st, frame, node.func.value, recv.w(deps=d))
                return const(None)
            if name == 'copy':
                return recv
            return AV(ty='bytes' if name == 'digest' else 'str', deps=d)
        if ty == 'Path':
            if name == 'with_name':
                # only the directory of the receiver survives; the file name is replaced by the argument
                rd = frozenset((x + '#dir') if (x.startswith('param:') and '#' not in x) else x for x in (recv.deps or ()))
                ad = frozenset().union(*[a.deps or frozenset() for a in args]) if args else frozenset()
                return AV(ty='Path', deps=rd | ad, truthy=True)
            if name in ('with_suffix', 'resolve', 'absolute', 'joinpath'):
                return AV(ty='Path', deps=d, truthy=True)
            if name == 'exists':
                interp.emit('path_exists', node, path=recv)
                return AV(ty='bool', deps=d)
            if name == 'glob':
                return AV(ty='list', elem=AV(ty='Path'))
            return AV(deps=d)
        if ty == 'regex':
            return AV(ty='str', deps=d, maybe_none=True)
        if ty == 'MDATraj' and name == 'timeseries':
            return AV(ty='ndarray', geo=('CART', 'MDA', 'pos'), axes=('frame', 'atom', XYZ), deps=d, parsed=True, store='fresh')
        if ty == 'EDRReader':
            return AV(deps=d, parsed=True)
        if ty == 'weakref':
            return recv.of if recv.of is not None else TOP
        if ty == 'pickler':
            if recv.kind == 'Pickler' and name == 'dump':
                interp.emit('pickle_dump', node, obj=args[0] if args else None, file=recv.file)
                return const(None)
            if recv.kind == 'Unpickler' and name == 'load':
                interp.emit('pickle_load', node, file=recv.file)
                return AV(ty='unpickled', deps=d, prov=frozenset({'pickle'}))
            return AV(deps=d)
        if ty == 'tuple':
            if name == 'index':
                return AV(ty='int', deps=d)
            return AV(deps=d)
        if ty == 'VolumetricData':
            return const(None)
        if ty in ('float', 'int'):
            return recv
        if ty == 'unpickled':
            return AV(deps=d)
        if recv.unknown_recv or ty is None:
            interp.note(f'method {name} on unknown receiver', node)
        return AV(deps=d)

    def lattice_method(self, interp, st, recv, name, args, kwargs, node, d):
        fr = recv.frame
        if name == 'get_cartesian_coords':
            a = as_array(args[0]) if args else TOP
            g = a.geo
            interp.emit('to_cart', node, lattice=recv, arg=a)
            ng = None
            if g is not None and g[0] in ('FRAC', 'SYMIMG'):
                ng = ('CART', fr, 'pos')
            elif is_fdiff(g):
                ng = ('CART', fr, 'vec')
                if g[1] in ('W2', 'W1'):
                    interp.emit('unreduced_diff', node, arg=a)
                if g[1] == 'CW':
                    interp.emit('cw_to_cart', node, arg=a)
            elif is_cart(g):
                interp.emit('double_cart', node, arg=a)
            out = AV(ty='ndarray', geo=ng, axes=a.axes, deps=d, store='fresh', cart_of=a)
            return out
        if name == 'get_fractional_coords':
            a = as_array(args[0]) if args else TOP
            interp.emit('to_frac', node, lattice=recv, arg=a)
            return AV(ty='ndarray', geo=('FRAC', 'N'), axes=a.axes, deps=d, store='fresh')
        if name == 'get_all_distances':
            a, b = as_array(args[0]), as_array(args[1])
            interp.emit('pbc_distance', node, lattice=recv, a=a, b=b, fn=name)
            return AV(ty='ndarray', geo=('DIST',), deps=d, store='fresh', axes=('a', 'b'), dist_between=(a, b),
                      mono=Mono.atom('len', (1, 0, 0), {'ang': 1}))
        if name == 'get_distance_and_image':
            a, b = as_array(args[0]), as_array(args[1])
            interp.emit('pbc_distance', node, lattice=recv, a=a, b=b, fn=name)
            return AV(ty='tuple', elts=[AV(ty='float', geo=('DIST',), deps=d, mono=Mono.atom('len', (1, 0, 0), {'ang': 1})),
                                        AV(ty='ndarray', dtype='int')], deps=d)
        if name in ('get_points_in_sphere', 'get_points_in_spheres'):
            interp.emit('pbc_distance', node, lattice=recv, a=args[0] if args else None, b=None, fn=name)
            return AV(deps=d)
        return AV(deps=d)

    def traj_method(self, interp, st, recv, name, args, kwargs, node, frame):
        """Methods a package Trajectory inherits from pymatgen (stubbed with their effects)."""
        heap = st.heap.setdefault(recv.oid, {})
        d = deps_union(recv, *args)
        mode = heap.get('#mode')
        m = cval(mode) if (mode is not None and has_const(mode)) else None
        if name == 'to_positions':
            interp.emit('mode_switch', node, obj=recv, to='pos', frm=m)
            if m == 'pos' and 'coords' in heap:
                pass
            else:
                old = heap.get('coords')
                unwrapped = AV(ty='ndarray', geo=('FRAC', 'N'), axes=('frame', 'atom', XYZ), deps=d, store='attr:Trajectory.coords',
                               prov=frozenset({'traj.coords'}))
                if m is None and old is not None and old.geo is not None and old.geo[0] == 'FRAC':
                    unwrapped = join(old, unwrapped).w(store='attr:Trajectory.coords')
                heap['coords'] = unwrapped
            heap['#mode'] = const('pos')
            return const(None)
        if name == 'to_displacements':
            interp.emit('mode_switch', node, obj=recv, to='disp', frm=m)
            heap['coords'] = AV(ty='ndarray', geo=('FDIFF', 'MI'), axes=('frame', 'atom', XYZ), deps=d, store='attr:Trajectory.coords',
                                prov=frozenset({'traj.coords'}))
            heap['#mode'] = const('disp')
            return const(None)
        if name == 'get_structure':
            return AV(ty='Structure', deps=d)
        if name == '__getitem__':
            ci = interp.p.classes.get(recv.cls)
            new = interp.new_obj(st, ci, site='__getitem__')
            nh = st.heap[new.oid]
            nh['#mode'] = const('pos')
            nh['coords'] = AV(ty='ndarray', geo=('FRAC', 'W'), axes=('frame', 'atom', XYZ), deps=d, store='attr:Trajectory.coords')
            for k in ('species', 'time_step', 'lattice', 'constant_lattice'):
                if k in heap:
                    nh[k] = heap[k]
            interp.emit('traj_getitem', node, obj=recv, new=new)
            # pymatgen calls self.to_positions() first (a package override)
            return new.w(deps=d, sliced_from=recv.oid)
        if name == '__len__':
            return AV(ty='int', mono=Mono.atom('n_frames'))
        if name == 'extend':
            interp.emit('traj_extend', node, obj=recv)
            return const(None)
        if name == '__init__':
            self.traj_base_init(interp, st, recv, args, kwargs, node)
            return const(None)
        interp.note(f'unmodelled inherited method {name}', node)
        return AV(deps=d)

    # ------------------------------------------------------------------ dict / list methods
    def dict_method(self, interp, st, recv, name, args, kwargs, node, frame, d):
        target = node.func.value if isinstance(node, ast.Call) and isinstance(node.func, ast.Attribute) else None
        if name == 'items':
            return AV(ty='dictitems', of=recv, deps=d)
        if name == 'values':
            return AV(ty='dictvalues', of=recv, deps=d)
        if name == 'keys':
            return recv
        if name == 'get':
            k = args[0] if args else None
            dflt = args[1] if len(args) > 1 else const(None)
            interp.emit('dict_get', node, base=recv, key=k)
            if k is not None and has_const(k) and recv.kw and cval(k) in recv.kw:
                return recv.kw[cval(k)]
            el = recv.elem if recv.elem is not None else (join_all(recv.kw.values()) if recv.kw else AV())
            if k is not None and has_const(k) and isinstance(cval(k), str) and recv.open_kw:
                # one entry of a **kwargs mapping: depends on that entry, not on the whole mapping
                d = frozenset((x + f'[{cval(k)}]') if (x.startswith('param:') and '#' not in x and '[' not in x and x in (recv.deps or ())) else x for x in d)
            if el is not None and el.ty in ('list', 'tuple') and dflt.ty in ('list', 'tuple') and dflt.elts == []:
                return el.w(maybe_empty=True, deps=d)  # d.get(k, ()) of a mapping to sequences
            got = None
            if node is not None and isinstance(node.func, ast.Attribute) and node.args:
                got = (interp.sx_build(node.func.value), interp.sx(node.args[0]), cval(dflt) if has_const(dflt) else '?')
            return join(el, dflt).w(deps=d, got_from=got)
        if name == 'setdefault':
            k, v = args[0], (args[1] if len(args) > 1 else const(None))
            if recv.instance_dict_of is not None:
                # obj.__dict__.setdefault(name, {}): a value that lives on the object across calls
                return v.w(fresh=None, persistent=True, store=f'instance:{cval(k) if has_const(k) else "?"}')
            if has_const(k) and isinstance(cval(k), str):
                kw = dict(recv.kw or {})
                if cval(k) not in kw or recv.open_kw:
                    kw[cval(k)] = join(kw.get(cval(k)), v) if cval(k) in kw else (v if not recv.open_kw else v.w(maybe_overridden=True))
                if target is not None:
                    self.rebind(interp, st, frame, target, recv.w(kw=kw))
                return kw[cval(k)]
            if target is not None:
                self.rebind(interp, st, frame, target, recv.w(elem=join(recv.elem, v)))
            return join(recv.elem, v)
        if name == 'update' and recv.counter and len(args) == 1 and not kwargs and target is not None:
            # Counter.update(mapping / iterable) ADDS the counts of the argument to the entries
            a = args[0]
            if a.ty == 'dict' and (a.keyelem is not None or a.counter):
                self.rebind(interp, st, frame, target, recv.w(keyelem=join(recv.keyelem, a.keyelem) if (recv.keyelem is not None or not recv.empty_init) else a.keyelem,
                                                              elem=join(recv.elem, a.elem), accum=True if not recv.overwrite else recv.accum,
                                                              deps=(recv.deps or frozenset()) | (a.deps or frozenset()), empty_init=None))
                return const(None)
        if name == 'update':
            kw = dict(recv.kw or {})
            extra_deps = frozenset()
            open_kw = recv.open_kw
            for a in args:
                if a.ty == 'dict' and a.kw is not None and not a.open_kw and a.elem is None or (a.ty == 'dict' and a.kw):
                    kw.update(a.kw)
                    open_kw = open_kw or a.open_kw
                else:
                    open_kw = True
                extra_deps |= (a.deps or frozenset())
            for k_, v_ in kwargs.items():
                if k_ == '**':
                    open_kw = True
                    extra_deps |= (v_.deps or frozenset())
                    continue
                kw[k_] = v_
                extra_deps |= (v_.deps or frozenset())
            if target is not None:
                vals = list(kw.values())
                self.rebind(interp, st, frame, target, recv.w(kw=kw, open_kw=open_kw, elem=join_all([recv.elem] + vals) if recv.elem is not None else None,
                                                              deps=(recv.deps or frozenset()) | extra_deps, empty_init=None))
            return const(None)
        if name == 'pop':
            return recv.elem if recv.elem is not None else AV(deps=d)
        if name == 'copy':
            return recv.w(fresh=True, store=None)
        return AV(deps=d)

    def list_method(self, interp, st, recv, name, args, kwargs, node, frame, d):
        target = node.func.value if isinstance(node, ast.Call) and isinstance(node.func, ast.Attribute) else None
        if name in ('append', 'add'):
            v = args[0] if args else TOP
            interp.emit('append', node, container=recv, value=v)
            if name == 'append' and recv.ty == 'list' and recv.elts is not None and recv.elem is None and len(recv.elts) < 8 \
                    and not getattr(interp, 'fix_loops', 0) and not recv.maybe_empty and target is not None:
                # straight-line code (or an unrolled loop over a short known sequence): the list keeps its known elements
                self.rebind(interp, st, frame, target, recv.w(elts=list(recv.elts) + [v], deps=(recv.deps or frozenset()) | (v.deps or frozenset()),
                                                                const=None, litconst=None, appended=True, empty_init=None))
                return const(None)
            new = recv.w(elem=join(recv.elem, v) if (recv.elem is not None or recv.elts) else v, elts=None,
                         deps=(recv.deps or frozenset()) | (v.deps or frozenset()), maybe_empty=None, const=None,
                         appended=True, empty_init=None)
            if recv.elts:
                new = new.w(elem=join(join_all(recv.elts), v))
            if target is not None:
                self.rebind(interp, st, frame, target, new)
            return const(None)
        if name == 'extend':
            v = args[0] if args else TOP
            el = self.iter_item(interp, st, v, None, None)
            new = recv.w(elem=join(recv.elem, el) if (recv.elem is not None or recv.elts) else el, elts=None, const=None,
                         deps=(recv.deps or frozenset()) | (v.deps or frozenset()))
            if target is not None:
                self.rebind(interp, st, frame, target, new)
            return const(None)
        if name == 'index':
            return AV(ty='int', deps=d, idx=('POS',))
        if name in ('sort', 'reverse', 'clear', 'remove', 'insert', 'discard'):
            interp.emit('store', node, kind='method:' + name, base=recv, index=None, value=None, stmt=None)
            return const(None)
        if name == 'copy':
            return recv.w(fresh=True, store=None)
        if name == 'pop':
            return recv.elem if recv.elem is not None else AV(deps=d)
        return AV(deps=d)

    # ------------------------------------------------------------------ iteration / unpacking of external values
    def iter_item_ext(self, interp, st, it, node, stmt):
        ty = it.ty
        if ty == 'ndarray':
            ax = it.axes[1:] if it.axes else None
            out = it.only('geo', 'idx', 'mono', 'prov', 'store', 'dtype', 'taint', 'origin', 'counts_of', 'unique_of', 'bincount_of', 'positional_slice', 'pair_width', 'minwidth', 'symimg', 'unwrapped_image').w(ty='ndarray', axes=ax, view_of=it.store, deps=it.deps)
            if it.colvals is not None and it.axes is not None and len(it.axes) == 2:
                out = out.w(ty='tuple', elts=list(it.colvals), rowof=True)
            if ax == ():
                out = out.w(ty='float' if it.dtype != 'int' else 'int')
            if it.shifted is not None and (it.shifted[0], it.shifted[3]) in ((0, 1), (1, 0)):
                out = out.w(shift_item=(it.shifted[0], it.shifted[1]), pair_seq=it.shifted_of)  # an element of e[:-1] (0) / e[1:] (1)
            if it.tbl is not None or is_table(it.litconst):
                out = out.w(tbl=it.tbl if it.tbl is not None else it.litconst)  # a row of a literal table
            if it.bin is not None and it.tbl is not None:
                out = out.w(bin=it.bin)  # a row of (node + table) % shape is (node + row) % shape
            return out
        if ty == 'Structure':
            return AV(ty='PeriodicSite', deps=it.deps)
        if ty == 'Series':
            return it.only('idx', 'at', 'geo', 'mono', 'taint', 'col').w(ty='int', deps=it.deps)
        if ty == 'pairwise':
            el = self.iter_item(interp, st, it.of, node, stmt)
            src = interp.sx(node.args[0]) if (isinstance(node, ast.Call) and node.args) else (it.of.sx if it.of is not None else None)
            return AV(ty='tuple', elts=[el.w(pair_pos=0, pair_src=src, pair_seq=it.of), el.w(pair_pos=1, pair_src=src, pair_seq=it.of)], pairwise_of=it.of)
        if ty in ('SpaceGroup', 'PointGroup'):
            return AV(ty='SymmOp', opid='op')
        if ty == 'ndenumerate':
            of = it.of
            return AV(ty='tuple', elts=[AV(ty='tuple', voxel=True, of_array=of), of.only('geo', 'mono', 'energy').w(ty='float')])
        if ty == 'GraphView':
            return AV(ty='tuple', voxel=True, graph_node=True)
        if ty == 'obj' and it.cls == TRAJ:
            return AV(ty='Structure')
        if ty == 'MDATraj':
            return AV(ty='Timestep', parsed=True, deps=it.deps)
        if ty == 'dict':
            return None
        if ty == 'DataFrameIterrows':
            df = it.of
            return AV(ty='tuple', elts=[AV(ty='int', idx=('ROWPOS',), rows_of=df.only('sorted_by', 'sliced')),
                                        AV(ty='Row', cols=df.cols, deps=df.deps, store='fresh', frame_sorted_by=df.sorted_by,
                                           scan=getattr(node, 'lineno', None))])
        if ty == 'DataFrameGroupBy':
            df = it.of
            return AV(ty='tuple', elts=[AV(ty='int', idx=('ATOM',)), df.w(grouped=it.by or True)])
        if ty == 'file':
            return AV(ty='str')
        return None

    def unpack_ext(self, interp, st, v, n, target, stmt):
        if v.ty == 'ndarray':
            if v.rows is not None and len(v.rows) == n:
                return [as_array(r) for r in v.rows]
            if v.transposed and v.colvals is None and v.rows is None:
                pass
            # x, y, z = array_of_three / i, j, k = indices.T
            if v.axes is not None and len(v.axes) >= 1 and v.axes[0] == XYZ and n == 3:
                return [v.only('geo', 'mono', 'deps', 'dtype').w(ty='ndarray' if len(v.axes) > 1 else 'float', axis=k, axes=v.axes[1:]) for k in range(3)]
            el = self.iter_item_ext(interp, st, v, None, None)
            if v.litelts is not None and len(v.litelts) == n:
                return list(v.litelts)
            if n == 3 and (v.tuple_of is not None):
                return [el.w(axis=k) for k in range(3)]
            return [el.w(unpack_pos=k, unpack_n=n) for k in range(n)]
        if v.ty == 'tuple' and v.tuple_of is not None and n == 3:
            return [AV(ty='int', axis=k) for k in range(3)]
        if v.ty == 'tuple' and v.shapeof is not None and n == 3:
            return [AV(ty='int', axis=k, shape_of=(f'd{k}',)) for k in range(3)]
        return None

    # ------------------------------------------------------------------ subscripts on external values
    def subscript_ext(self, interp, st, base, idx, node, frame):
        ty = base.ty
        d = deps_union(base, idx)
        if ty in ('DataFrame', 'Row', 'Series'):
            return self.pandas_subscript(interp, st, base, idx, node, frame, d)
        if ty == 'Structure':
            interp.emit('index', node, base=base, index=idx)
            return AV(ty='PeriodicSite', deps=d)
        if ty == 'GraphView':
            interp.emit('graph_read', node, view=base, key=idx)
            return AV(ty='GraphAttrs', of=base.of, which=base.which, deps=d)
        if ty == 'GraphAttrs':
            interp.emit('graph_attr_read', node, graph=base.of, which=base.which, attr=cval(idx) if has_const(idx) else None)
            return AV(ty='float', deps=d, geo=('ENERGY',) if has_const(idx) and cval(idx) == 'energy' else None)
        if ty == 'obj' and base.cls == TRAJ:
            return None
        if ty == 'MDATraj':
            return AV(ty='Timestep', parsed=True, deps=d)
        if ty == 'ext' and base.qual == 'scipy.constants.physical_constants':
            key = cval(idx) if has_const(idx) else None
            if key == 'Boltzmann constant in eV/K':
                return AV(ty='tuple', elts=[AV(ty='float', mono=Mono.atom('kB_eV', (0, 0, 0), {'eV': 1, 'K': -1}), deps=frozenset({'const:kB_eV'})),
                                            AV(ty='str'), AV(ty='float')], physconst=key)
            if key == 'Boltzmann constant':
                return AV(ty='tuple', elts=[AV(ty='float', mono=Mono.atom('Boltzmann', (0, 0, 0), {'kg': 1, 'm': 2, 's': -2, 'K': -1})),
                                            AV(ty='str'), AV(ty='float')], physconst=key)
            return AV(ty='tuple', physconst=key)
        if ty == 'ext':
            return AV(ty='ext', qual=base.qual + '[]')
        if ty == 'unpickled':
            return AV(deps=d)
        return None

    def refine_ext(self, interp, test, frame, st, branch, op, left, right, lv, rv):
        """Branch refinements used by the rules: emptiness guards, NOSITE guards on row fields."""
        # len(x) < 1 / len(x) == 0 / len(x) > 0 / x.size == 0
        def target_of(e):
            if isinstance(e, ast.Call) and isinstance(e.func, ast.Name) and e.func.id == 'len' and e.args and isinstance(e.args[0], ast.Name):
                return e.args[0].id
            if isinstance(e, ast.Attribute) and e.attr == 'size' and isinstance(e.value, ast.Name):
                return e.value.id
            return None
        name = target_of(left)
        if name is not None and rv is not None and has_const(rv) and isinstance(cval(rv), (int, float)):
            c = cval(rv)
            o = type(op)
            empty_when_true = (o is ast.Lt and c == 1) or (o is ast.Eq and c == 0) or (o is ast.LtE and c == 0)
            nonempty_when_true = (o is ast.Gt and c == 0) or (o is ast.GtE and c == 1) or (o is ast.NotEq and c == 0)
            v = st.env.get(name)
            if v is not None:
                if (empty_when_true and not branch) or (nonempty_when_true and branch):
                    st.env[name] = v.w(maybe_empty=None, nonempty=True)
            return
        # x[-1] == len(a) - 1 : the wrap-around pseudo index of a circular shifted comparison is last / is absent
        if isinstance(left, ast.Subscript) and isinstance(left.value, ast.Name) and isinstance(op, (ast.Eq, ast.NotEq)):
            arrv = st.env.get(left.value.id)
            iv = interp.cur(left.slice)
            if arrv is not None and arrv.rollwrap and iv is not None and has_const(iv) and cval(iv) == -1 and rv is not None and rv.bin is not None:
                o, bl, br, _, _ = rv.bin
                if o == '-' and has_const(br) and cval(br) == 1 and (bl.lenof is not None or bl.shape_of is not None or bl.sizeof is not None):
                    is_last = (isinstance(op, ast.Eq)) == branch
                    st.env[left.value.id] = arrv.w(rollwrap='last' if is_last else None)
                    return
        # row['col'] != -1 / != NOSITE : the field is a real site on the true edge
        if isinstance(left, ast.Subscript) and isinstance(left.value, ast.Name) and lv is not None and rv is not None:
            row = st.env.get(left.value.id)
            key = interp.cur(left.slice)
            if row is not None and row.ty == 'Row' and row.cols and key is not None and has_const(key) and has_const(rv) and cval(rv) == -1:
                o = type(op)
                clean = (o is ast.NotEq and branch) or (o is ast.Eq and not branch)
                col = row.cols.get(cval(key))
                if clean and col is not None and col.idx is not None and col.idx[0] == 'SITE':
                    cols = dict(row.cols)
                    cols[cval(key)] = col.w(idx=('SITE', False) + tuple(col.idx[2:]))
                    st.env[left.value.id] = row.w(cols=cols)
            return
        # start = row['col']; start != -1 : the same refinement through a local that holds the field
        if isinstance(left, ast.Name) and lv is not None and rv is not None and lv.row_var and lv.col and (
                (has_const(rv) and cval(rv) == -1) or rv.nosite_marker or rv.gname == 'gemdat.transitions.NOSITE'):
            o = type(op)
            clean = (o is ast.NotEq and branch) or (o is ast.Eq and not branch)
            row = st.env.get(lv.row_var)
            if clean and row is not None and row.ty == 'Row' and row.cols and lv.col in row.cols:
                col = row.cols[lv.col]
                if col.idx is not None and col.idx[0] == 'SITE':
                    cols = dict(row.cols)
                    cols[lv.col] = col.w(idx=('SITE', False) + tuple(col.idx[2:]))
                    st.env[lv.row_var] = row.w(cols=cols)
            cur = st.env.get(left.id)
            if clean and cur is not None and cur.idx is not None and cur.idx[0] == 'SITE':
                st.env[left.id] = cur.w(idx=('SITE', False) + tuple(cur.idx[2:]))
