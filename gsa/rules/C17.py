"""C17 - shape analysis: image correction operands, operate/inverse pairing, centring, supercell folding."""

from __future__ import annotations

import ast

from ..kinds import is_frac, wrapped
from ..source import norm_text
from .geo import all_geos, geo_text, kind_errors, pbc_distance_obligations, under, uniq_events

SA = 'gemdat.shape.ShapeAnalyzer'
FEP = f'{SA}.find_equivalent_positions'


def check(ctx):
    ctx.doc('R1', 'the periodic-image correction of (position - symmetry image of the site) is valid for an image outside '
                  'the unit cell: a rounding reduction, or a single +-1 step only when both operands are wrapped')
    ctx.doc('R2', 'selection by minimum-image distance to the symmetry image < radius; the inverse of the same operation maps '
                  'the points back; centring subtracts the site coordinates before the Cartesian conversion')
    ctx.doc('R3', 'supercell folding reduces modulo 1/scale and rescales by the same scale (wrapped result)')
    ctx.floor('R1', 1)
    ctx.floor('R2', 4)
    ctx.floor('R3', 1)
    fi = ctx.fn(FEP)
    it = ctx.entry(f'{SA}.analyze_trajectory')
    inside = under(FEP)
    kind_errors(ctx, 'R2', it, inside)
    # ---- R1
    corr = uniq_events(it, {'image_correction'}, inside)
    if not corr:
        from .common import absent
        ctx.ob('R1', fi, 'periodic image correction', absent(it, FEP),
               'selected positions are not moved to the periodic image next to the symmetry-equivalent site: points selected '
               'across a cell face end up a lattice vector away from the centre')
    for e in corr:
        d = e['diff']
        how = e['how']
        ops = d.bin if d is not None else None
        if how == 'round':
            ctx.ob('R1', fi, e['node'], True, 'rounding reduction: valid for any image')
            continue
        if ops is None:
            ctx.ob('R1', fi, e['node'], None, 'operands of the corrected difference not recognised')
            continue
        l, r = ops[1], ops[2]
        bad = [x for x in (l, r) if not wrapped(x.geo)]
        if not bad:
            ctx.ob('R1', fi, e['node'], True, 'single-step correction of a difference of two wrapped coordinates')
        else:
            b = bad[0]
            why = 'the image of the site under a symmetry operation, which is not wrapped into the unit cell' if b.unwrapped_image else geo_text(b.geo)
            ctx.ob('R1', fi, e['node'], False,
                   f'single +-1 image correction applied to a difference with an operand that is {why}: the difference can '
                   f'exceed 1.5, the corrected point stays a lattice vector away and is collected far outside the radius')
    # ---- R2
    dists = uniq_events(it, {'pbc_distance'}, inside)
    for e in dists:
        a, b = e['a'], e['b']
        ok_a = a is not None and a.symimg is not None and a.symimg[0] == 'op'
        site_based = ok_a and a.symimg[1].store == 'attr:PeriodicSite.frac_coords'
        ok_b = b is not None and is_frac(b.geo)
        # every operation searches the full set of positions: a pool that is filtered between operations drops (operation, position) pairs
        all_ev = [x for x in it.events if x['tag'] == 'pbc_distance' and x['node'] is e['node']]
        if any(x['b'] is not None and ((x['b'].axes is not None and x['b'].axes and str(x['b'].axes[0]).endswith('~')) or (x['b'].maybe_empty and x['b'].origin
                                        and any(o.endswith('.positions') for o in x['b'].origin))) for x in all_ev):
            ctx.ob('R2', fi, e['node'], False, 'the positions searched around a symmetry image are a filtered subset (positions selected by an earlier operation '
                                               'were removed): a position that lies within the radius of two images is collected only once, the count is too low')
            continue
        ctx.ob('R2', fi, e['node'], True if (site_based and ok_b) else (False if ok_b and a is not None and a.store == 'attr:PeriodicSite.frac_coords' else None),
               'distances from the symmetry image of the site to the positions' if (site_based and ok_b) else
               'distances are measured from the site itself, not from its symmetry image')
    # selection threshold
    from .C04 import functions_under
    flip = {'<': '>', '<=': '>=', '>': '<', '>=': '<='}
    for f_ in functions_under(it, FEP, ctx.p):
        for n in ast.walk(f_.node):
            if not (isinstance(n, ast.Compare) or (isinstance(n, ast.Call) and norm_text(n.func).split('.')[-1] in
                                                   ('less', 'less_equal', 'greater', 'greater_equal'))):
                continue
            v = it.value_of(n)
            if v is None or v.cmp is None:
                continue
            o, l, r = v.cmp[:3]
            if l is None or r is None:
                continue
            if r.geo == ('DIST',) and l.geo != ('DIST',) and o in flip:
                o, l, r = flip[o], r, l
            if l.geo != ('DIST',):
                continue
            is_radius = bool(r.is_param and r.is_param.endswith(':radius')) or bool(r.deps and any(d.endswith('.radius') for d in r.deps))
            ok = o in ('<', '<=') and is_radius
            ctx.ob('R2', f_, n, True if ok else (False if (o in ('>', '>=') and is_radius) else None),
                   'points closer than the radius are selected' if ok else 'selection does not keep the points inside the radius')
    sym = uniq_events(it, {'symop'}, inside)
    fwd = [e for e in sym if e['op'].opid == 'op']
    inv = [e for e in sym if e['op'].opid != 'op']
    if not inv:
        from .common import absent
        ctx.ob('R2', fi, 'inverse operation', absent(it, FEP), 'collected points are not mapped back with the inverse symmetry operation')
    for e in inv:
        ok = e['op'].opid == ('inv', 'op')
        ctx.ob('R2', fi, e['node'], True if ok else None, 'inverse of the same operation maps the points back')
    carts = uniq_events(it, {'to_cart'}, inside)
    for e in carts:
        a = e['arg']
        ok = None
        if a is not None and a.bin is not None:
            o, l, r, lt, rt = a.bin
            ok = o == '-' and r.store == 'attr:PeriodicSite.frac_coords' and not r.symimg
        ctx.ob('R2', fi, e['node'], ok, 'site-centred fractional vectors converted to Cartesian' if ok else
               'the value converted to Cartesian is not (points - site coordinates)')
    # ---- R3
    fa = ctx.fn(f'{SA}.analyze_trajectory')
    folds = uniq_events(it, {'fold'}, under(fa.qualname))
    if not folds:
        ctx.ob('R3', fa, 'supercell folding', None, 'folding idiom np.mod(x, 1 / s) * s not recognised')
    for e in folds:
        ctx.ob('R3', fa, e['node'], True if e['ok'] else False,
               'reduced modulo 1/scale and rescaled by the same scale' if e['ok'] else
               f'positions reduced modulo `{e["divisor"]}` but rescaled by `{e["factor"]}`')
    calls = [e for e in it.events if e['tag'] == 'call' and e['callee'] == f'{SA}.analyze_positions' and e['where'].qualname == fa.qualname]
    for e in calls[:1]:
        p = e['kwargs'].get('positions') or (e['args'][0] if e['args'] else None)
        gs = all_geos(p)
        ok = bool(gs) and all(wrapped(g) for g in gs)
        ctx.ob('R3', fa, e['node'], True if ok else (None if not gs else False),
               'wrapped fractional positions are analysed' if ok else f'positions analysed are {", ".join(geo_text(g) for g in gs)}')
