"""Shared geometry (G facet) obligations used by C01, C02, C06, C07, C11, C12, C17, C18."""

from __future__ import annotations

from ..kinds import is_cart, is_fdiff, is_frac, is_fractional, wrapped
from ..source import norm_text

KIND_ERRORS = {
    'euclid_on_frac': 'Euclidean operation on fractional coordinates (lengths need the lattice: wrong for every non-cubic-unit cell)',
    'frame_mix': 'Cartesian values of two different frames are combined',
    'frac_cart_mix': 'fractional and Cartesian values are added',
    'cart_component_reduce': 'Cartesian components are summed/averaged over the xyz axis (frame dependent)',
    'cumsum_wrong_axis': 'minimum-image steps are accumulated along an axis that is not the frame axis',
    'fft_over_xyz': 'Fourier transform along the xyz axis',
    'norm_wrong_axis': 'norm taken over an axis that is not xyz',
    'double_cart': 'get_cartesian_coords applied to a value that is already Cartesian',
    'kind_mix': 'values of different coordinate kinds are stacked into one array',
    'sq_mix': 'per-component squares are combined with squared lengths (a sum over the xyz axis is missing)',
    'wrapped_reduce': 'wrapped positions are averaged/summed: the result jumps when atoms cross a cell face (depends on the origin)',
    'unreduced_diff': 'a difference of wrapped positions is converted to Cartesian without minimum-image reduction',
}

# errors that apply where an exact periodic distance between arbitrary points is required (not for short bonds / small radii)
STRICT_ERRORS = {
    'nonperiodic_distance': 'a plain Cartesian distance between two positions is used where the periodic (minimum-image) distance is required: '
                            'pairs that are close across a cell face are seen as far apart',
    'cw_to_cart': 'a hand-rolled minimum image (fractional difference rounded component by component) is converted to Cartesian and '
                  'used as a periodic distance: in a skewed cell the componentwise-nearest image is not the nearest image',
}
KIND_ERRORS.update({
    'wrong_convention': 'the row-vector lattice matrix is applied from the left (M @ v): Cartesian coordinates are v @ M = M^T v; the result is '
                        'wrong in every cell whose matrix is not symmetric (hexagonal, monoclinic, triclinic, rotated)',
    'ortho_assumption': 'fractional components are scaled by the cell lengths a, b, c: that is the Cartesian vector only in orthogonal cells',
    'abs_of_inverse_fft': 'the magnitude instead of the real part of an inverse Fourier transform is used: negative correlations change sign',
    'wrong_metric': 'the metric tensor is built as M^T M from the row-vector lattice matrix (it is M M^T): lengths are wrong in every '
                    'cell whose matrix is not symmetric (triclinic, rotated)',
    'latmat_colnorm': 'column norms of the row-vector lattice matrix are used as cell lengths (they are the row norms): wrong for every '
                      'non-orthogonal or rotated cell',
    'cartsq_mean_xyz': 'squared components are averaged (not summed) over xyz',
})
KIND_ERRORS.update({
    'index_truthiness': '`.any()` / `.all()` of an array of positions is used as an emptiness test: it asks whether some position is non-zero, so a '
                        'single hit at position 0 counts as "nothing found"',
    'isin_set': 'np.isin / np.in1d receives a set (or dict view): numpy treats it as one object, so no element is ever found in it',
})
KIND_ERRORS.update({
    'groupby_overwrite': 'a mapping is built from itertools.groupby over an input that is not sorted by the key: groupby only groups consecutive items, '
                         'so with interleaved keys every later run overwrites the earlier one (the result depends on the order of the items)',
})
EUCLID_QUERY = 'nearest neighbours are searched with a non-periodic tree (plain Cartesian distances): pairs that are close across a cell face are missed'
ALL_ERRORS = {**KIND_ERRORS, **STRICT_ERRORS}


def _helper_like(qual):
    parts = qual.split('.')
    last = parts[-1]
    private_class = len(parts) >= 2 and parts[-2].startswith('_') and not parts[-2].startswith('__') and parts[-2][1:2].isupper()
    return (last.startswith('_') and not last.startswith('__')) or '<locals>' in qual or last in ('__init__', '__post_init__') or private_class


def under(*quals):
    """Event filter: raised in one of the functions `quals`, or in a private helper (chain) called from it - the shape a
    behaviour-preserving helper extraction gives the code."""
    def f(e):
        c = e['ctx']
        for i in range(len(c) - 1, -1, -1):
            if c[i] in quals:
                return all(_helper_like(q) for q in c[i + 1:])
        return False
    f.wants_event = True
    return f


def uniq_events(it, tags, fn_filter=None):
    seen = set()
    out = []
    for e in it.events:
        if e['tag'] not in tags:
            continue
        if fn_filter is not None:
            if getattr(fn_filter, 'wants_event', False):
                if not fn_filter(e):
                    continue
            elif e['where'] is None or not fn_filter(e['where']):
                continue
        k = (e['tag'], id(e['node']))
        if k in seen:
            continue
        seen.add(k)
        out.append(e)
    return out


def kind_errors(ctx, rule, it, fn_filter, tags=None, strict=False):
    """One violated obligation per definite kind error raised inside the selected functions."""
    n = 0
    table = ALL_ERRORS if strict else KIND_ERRORS
    for e in uniq_events(it, tags or set(table), fn_filter):
        what = table[e['tag']]
        extra = e.get('what')
        ctx.ob(rule, e['where'], e['node'], False, f'{what}{": " + extra if extra else ""}')
        n += 1
    return n


def geo_text(g):
    if g is None:
        return 'unknown kind'
    return {
        'FRAC': lambda: f'fractional position ({ {"W": "wrapped to [0,1)", "C": "wrapped to the closed interval [0,1]", "N": "not wrapped"}.get(g[1], g[1]) })',
        'FDIFF': lambda: f'fractional difference ({ {"MI": "minimum image", "CW": "componentwise reduced", "W2": "difference of two wrapped positions", "W1": "one-sided image correction", "CUM": "unwrapped running sum", "ANY": "not reduced"}.get(g[1], g[1]) })',
        'CART': lambda: f'Cartesian {g[2]} in the {"lattice" if g[1] == "LAT" else g[1]} frame',
        'CARTSQ': lambda: 'squared Cartesian components',
        'DIST': lambda: 'length', 'DIST2': lambda: 'squared length',
    }.get(g[0], lambda: str(g))()


def all_geos(av):
    if av is None:
        return set()
    out = set()
    if av.geo is not None:
        out.add(av.geo)
    if av.geo_conflict:
        out |= set(av.geo_conflict)
    return out


def pbc_distance_obligations(ctx, rule, it, fn_filter, floor=None):
    """Every periodic distance call receives fractional coordinates on both sides."""
    n = 0
    for e in uniq_events(it, {'pbc_distance'}, fn_filter):
        a, b = e['a'], e['b']
        bad = None
        for side, v in (('first', a), ('second', b)):
            if v is None:
                continue
            g = v.geo
            if g is not None and not (is_frac(g) or g[0] in ('SYMIMG',)):
                bad = f'{side} argument of {e["fn"]} is {geo_text(g)}, fractional coordinates required'
        ctx.ob(rule, e['where'], e['node'], bad is None, bad or 'minimum-image distance on fractional coordinates')
        n += 1
    return n
