"""C08 - density volume: axis pairing, bin/extent length arithmetic, voxel map siblings, counted samples."""

from __future__ import annotations

import ast
from fractions import Fraction

from ..interp import cval, has_const
from ..source import norm_text
from .common import def_map, expand
from .geo import kind_errors, under, uniq_events

TTV = 'gemdat.volume.trajectory_to_volume'
VOL = 'gemdat.volume.Volume'


def linear(node, env=None, depth=0):
    """AST integer expression -> ({atom text: coef}, const) or None. int(x) is transparent; names are expanded once via env."""
    env = env or {}
    if isinstance(node, ast.Constant) and isinstance(node.value, (int, float)) and not isinstance(node.value, bool):
        return {}, Fraction(node.value).limit_denominator(10 ** 6)
    if isinstance(node, ast.Call) and isinstance(node.func, ast.Name) and node.func.id == 'int' and len(node.args) == 1:
        return linear(node.args[0], env, depth)
    if isinstance(node, ast.Name) and node.id in env and depth < 4:
        return linear(env[node.id], env, depth + 1)
    if isinstance(node, ast.BinOp) and isinstance(node.op, (ast.Add, ast.Sub)):
        a, b = linear(node.left, env, depth), linear(node.right, env, depth)
        if a is None or b is None:
            return None
        sgn = 1 if isinstance(node.op, ast.Add) else -1
        atoms = dict(a[0])
        for k, v in b[0].items():
            atoms[k] = atoms.get(k, 0) + sgn * v
        return {k: v for k, v in atoms.items() if v != 0}, a[1] + sgn * b[1]
    if isinstance(node, ast.BinOp) and isinstance(node.op, ast.Mult):
        a, b = linear(node.left, env, depth), linear(node.right, env, depth)
        if a is not None and b is not None:
            if not a[0]:
                return {k: v * a[1] for k, v in b[0].items()}, a[1] * b[1]
            if not b[0]:
                return {k: v * b[1] for k, v in a[0].items()}, a[1] * b[1]
    if isinstance(node, ast.UnaryOp) and isinstance(node.op, ast.USub):
        a = linear(node.operand, env, depth)
        if a is None:
            return None
        return {k: -v for k, v in a[0].items()}, -a[1]
    return {' '.join(norm_text(node).split()): Fraction(1)}, Fraction(0)


def check(ctx):
    ctx.doc('R1', 'along each axis the cell length, number of edges, edge array, digitised coordinate column, array extent and '
                  'index position belong to the same axis (volume builder, peak filter)')
    ctx.doc('R2', 'with n = 1 + L // resolution: the edge array linspace(0, 1, n)[1:] has n - 1 edges, wrapped coordinates digitise '
                  'into [0, n - 2], the array extent is n - 1 = L // resolution (voxel edge in [resolution, 2 resolution))')
    ctx.doc('R3', 'voxel -> fraction is (v + c) / dims with 0 < c < 1 and fraction -> voxel is trunc(f * dims) with the same dims; '
                  'path sites and region centroids use the same c')
    ctx.doc('R4', 'the stored counts are the multiplicities of the digitised coordinate triples, written at exactly those triples')
    ctx.floor('R1', 9)
    ctx.floor('R2', 6)
    ctx.floor('R3', 4)
    ctx.floor('R4', 1)
    fi = ctx.fn(TTV)
    it = ctx.entry(TTV)
    inside = under(TTV)
    env = {}
    for n in ast.walk(fi.node):
        if isinstance(n, ast.Assign) and len(n.targets) == 1 and isinstance(n.targets[0], ast.Name):
            env.setdefault(n.targets[0].id, n.value)
    nerr = kind_errors(ctx, 'R1', it, inside)
    # ---- R1 / R2 per digitize call
    digs, seen_ = [], set()
    for e in it.events:
        # one event per call site and lattice axis (a call inside a loop over the axes stands for three)
        if e['tag'] == 'digitize' and inside(e):
            k_ = (id(e['node']), e['x'].axis if e['x'] is not None else None)
            if k_ not in seen_:
                seen_.add(k_)
                digs.append(e)
    if len(digs) > 3 and len({id(e['node']) for e in digs}) < len(digs):
        digs = [e for e in digs if e['x'] is not None and e['x'].axis is not None]
    for e in uniq_events(it, {'histogramdd'}, inside):
        rg = e['range']
        if rg is None or rg.ty == 'None':
            ctx.ob('R2', fi, e['node'], False, 'np.histogramdd without `range`: the grid spans the smallest and largest coordinate that occurs instead of the unit '
                                               'cell [0, 1), so voxels do not correspond to floor(fraction x n) and a localised density is stretched over the grid')
        else:
            ctx.ob('R2', fi, e['node'], None, 'np.histogramdd with an explicit range: edges not analysed')
    if len(digs) != 3:
        ctx.ob('R1', fi, 'digitize calls', None, f'{len(digs)} digitize calls instead of one per axis')
    extents = {}
    n_values = {}
    for e in digs:
        x, bins = e['x'], e['bins']
        xa = x.axis if x is not None else None
        ba = bins.axis if bins is not None else None
        if (xa is None or ba is None) and nerr:
            pass  # already reported as a kind error
        elif xa is None or ba is None:
            ctx.ob('R1', fi, e['node'], None, f'axis of the coordinate column ({xa}) or of the edges ({ba}) not derivable')
        else:
            ctx.ob('R1', fi, e['node'], xa == ba, f'axis {xa} coordinates binned with axis {ba} edges' if xa == ba else
                   f'coordinates of axis {xa} are binned with the edges (cell length, resolution) of axis {ba}: for a non-cubic '
                   f'cell samples fall into the wrong voxel or outside the array')
        gsx = ({x.geo} if x is not None and x.geo is not None else set()) | (set(x.geo_conflict) if x is not None and x.geo_conflict else set())
        if x is not None and x.axes and x.axes[0].endswith('~'):
            ctx.ob('R4', fi, e['node'], False, 'only a filtered subset of the coordinates is binned: samples are silently dropped, the voxel sum is '
                                               'smaller than frames x atoms')
        if gsx and any(g[0] == 'FRAC' and g[1] != 'W' for g in gsx):
            ctx.ob('R2', fi, e['node'] if False else f'{norm_text(e["node"])} [range]', False,
                   'the binned coordinates are not guaranteed to lie in the half-open interval [0, 1): a coordinate equal to 1.0 digitises to '
                   'index n - 1 = array extent (IndexError / dropped sample)')
        if e['right']:
            ctx.ob('R2', fi, e['node'], False, 'digitize(right=True) puts a coordinate equal to an edge into the lower voxel: not floor(x * n)')
        # edges = linspace(0, 1, n)[1:]
        if bins is not None and bins.linspace is not None and xa is not None:
            lo, hi = bins.linspace
            ok_range = has_const(lo) and cval(lo) == 0 and has_const(hi) and cval(hi) == 1
            sl = bins.symlen
            dropped = sl is not None and sl[0] == '-' and sl[2] == ('c', 1)
            if not ok_range:
                ctx.ob('R2', fi, e['node'], False if (has_const(lo) and has_const(hi)) else None, 'edges do not span the unit interval [0, 1]')
            elif not dropped:
                ctx.ob('R2', fi, e['node'], False,
                       'the edge array still contains the left edge 0: every coordinate digitises one voxel too high and the last '
                       'voxel index equals the array extent (IndexError / samples lost)')
            else:
                n_sym = sl[1]
                extents[xa] = n_sym
                n_values[xa] = bins.lin_n
                ctx.ob('R2', fi, e['node'], True, 'n - 1 edges over (0, 1]: wrapped coordinates digitise into [0, n - 2]')
        else:
            ctx.ob('R2', fi, e['node'], None, 'edge array is not linspace(0, 1, n)[1:]')
        # the coordinates binned are wrapped (C01.R5 decides the wrap itself)
    # number of edges per axis: n_k = 1 + L_k // resolution
    for k, nsym in sorted(extents.items()):
        name = nsym[1] if nsym[0] == 'v' else None
        expr = env.get(name) if name else None
        arithmetic_ = expr is not None and (isinstance(expr, (ast.BinOp, ast.Constant)) or (isinstance(expr, ast.Call) and norm_text(expr.func) in ('int', 'round', 'math.ceil', 'math.floor')))
        if not arithmetic_:
            # decide on the abstract value of n: its normal form must be 1 + floor(L_k / resolution)
            nv = n_values.get(k)
            mt = nv.mono.text() if (nv is not None and nv.mono is not None) else None
            if mt is None or (nv is not None and nv.mono_unknown):
                ctx.ob('R2', fi, f'grid size axis {k}', None, 'number of edges is not a named expression and has no derivable normal form')
            elif mt.replace(' ', '') in ('floor(len*param:resolution^-1)*offset+1',):
                ctx.ob('R2', fi, f'grid size axis {k}', True, f'n = 1 + L // resolution along axis {k}')
                if nv.axis is not None:
                    ctx.ob('R1', fi, f'grid size axis {k} [length]', nv.axis == k, f'cell length of axis {k}' if nv.axis == k else
                           f'grid size of axis {k} is computed from the cell length of axis {nv.axis}')
            elif 'len' in mt and 'resolution' in mt and 'floor(' not in mt:
                ctx.ob('R2', fi, f'grid size axis {k}', False,
                       f'number of edges along axis {k} has the form `{mt}`, not 1 + floor(L / resolution): rounding to nearest (or plain division) gives one voxel '
                       f'too many whenever the remainder exceeds one half, so the voxel edge drops below the requested resolution')
            else:
                ctx.ob('R2', fi, f'grid size axis {k}', None, f'number of edges has the form `{mt}`')
            continue
        lin = linear(expr)
        want_atom = [a for a in (lin[0] if lin else {}) if '//' in a]
        ok = lin is not None and lin[1] == 1 and len(lin[0]) == 1 and want_atom and lin[0][want_atom[0]] == 1
        ax_ok = None
        if ok:
            # the floor division must use the cell length of this axis and the resolution
            fl = None
            for b in ast.walk(expr):
                if isinstance(b, ast.BinOp) and isinstance(b.op, ast.FloorDiv):
                    fl = b
            lv, rv = it.value_of(fl.left), it.value_of(fl.right)
            ax_ok = lv is not None and lv.axis == k and lv.geo == ('DIST',)
            res_ok = rv is not None and rv.is_param and rv.is_param.endswith(':resolution')
            ctx.ob('R1', fi, fl, ax_ok if lv is not None and lv.axis is not None else None,
                   f'cell length of axis {k}' if ax_ok else f'grid size of axis {k} is computed from the cell length of axis {lv.axis if lv is not None else "?"}')
            ctx.ob('R2', fi, expr, True if res_ok else None, f'n = 1 + L // resolution along axis {k}: voxel edge L / (L // resolution) lies in [resolution, 2 resolution)')
        else:
            arithmetic = isinstance(expr, (ast.BinOp, ast.Constant)) or (isinstance(expr, ast.Call) and norm_text(expr.func) in ('int', 'round', 'math.ceil', 'math.floor'))
            ctx.ob('R2', fi, expr, False if (lin is not None and arithmetic) else None,
                   f'number of edges along axis {k} is `{norm_text(expr)}`, not 1 + L // resolution: the grid size differs from '
                   f'L // resolution (voxel smaller than the requested resolution or one voxel lost)')
    # array extent per axis
    stores = [e for e in uniq_events(it, {'store'}, inside) if e['kind'] in ('sub', 'add_at') and e['base'] is not None and e['base'].alloc in ('zeros', 'empty', 'full')]
    if not stores and not uniq_events(it, {'fancy_aug'}, inside):
        ctx.ob('R4', fi, 'count array', None, 'the count array write was not recognised')
    for e in stores:
        base, idx, val = e['base'], e['index'], e['value']
        shape = base.shape or []
        # find the np.zeros call to read the shape expressions
        zc = None
        shape_node = None
        defs = def_map(fi.node)
        for n in ast.walk(fi.node):
            if isinstance(n, ast.Call) and norm_text(n.func).split('.')[-1] in ('zeros', 'empty', 'full') and n.args:
                cand = n.args[0]
                if isinstance(cand, ast.Name) and cand.id in defs:
                    cand = defs[cand.id]
                if isinstance(cand, ast.Tuple):
                    zc, shape_node = n, cand
        if (zc is None or len(shape_node.elts) != 3) and len(shape) == 3 and all(sv is not None and sv.sx for sv in shape):
            # on values: the three extents as the allocation received them
            from .common import parse_sx
            def _lin_sx2(txt):
                try:
                    return linear(parse_sx(txt, full=True)) if txt else None
                except SyntaxError:
                    return None
            ln_ = {kk: _lin_sx2(nv_.sx) for kk, nv_ in n_values.items() if nv_ is not None}
            for k, sv in enumerate(shape):
                le, mine = _lin_sx2(sv.sx), ln_.get(k)
                what = f'extent of axis {k}'
                nv_ = n_values.get(k)
                b_ = sv.bin
                if b_ is not None and b_[0] == '-' and has_const(b_[2]) and b_[1] is not None and nv_ is not None and b_[1].mono is not None and nv_.mono is not None \
                        and b_[1].mono.text() == nv_.mono.text() and b_[1].axis is not None and not b_[1].mono_unknown:
                    # n_k - c with n_k the number of edges of an axis (same normal form), identified by the axis it was computed for
                    if b_[1].axis != k:
                        ctx.ob('R1', fi, what, False, f'array extent of axis {k} is taken from axis {b_[1].axis}')
                    elif cval(b_[2]) == 1:
                        ctx.ob('R2', fi, what, True, f'extent of axis {k} = number of edges = n - 1')
                    else:
                        ctx.ob('R2', fi, what, False, f'extent of axis {k} is n - {cval(b_[2])}, its number of edges is n - 1: indices can reach the extent, or '
                                                      f'voxels stay empty and the voxel size changes')
                    continue
                if le is not None and mine is not None and le[0] == mine[0] and le[1] == mine[1] - 1:
                    ctx.ob('R2', fi, what, True, f'extent of axis {k} = number of edges = n - 1')
                elif le is not None and mine is not None and le[0] == mine[0]:
                    ctx.ob('R2', fi, what, False, f'extent `{sv.sx}` of axis {k} differs from its number of edges - 1: indices can reach the extent, or '
                                                  f'voxels stay empty and the voxel size changes')
                else:
                    oth = [kk for kk, l_ in ln_.items() if kk != k and l_ is not None and le is not None and l_[0] == le[0]]
                    if oth:
                        ctx.ob('R1', fi, what, False, f'array extent of axis {k} is taken from axis {oth[0]}')
                    else:
                        ctx.ob('R2', fi, what, None, f'extent of axis {k} not comparable with its number of edges')
        elif zc is None or len(shape_node.elts) != 3:
            ctx.ob('R2', fi, 'array extent', None, 'shape of the count array is not a literal 3-tuple')
        else:
            for k, se in enumerate(shape_node.elts):
                lin = linear(se)
                nsym = extents.get(k)
                if lin is None or nsym is None or nsym[0] != 'v':
                    ctx.ob('R2', fi, se, None, f'extent of axis {k} not comparable with its number of edges')
                    continue
                ok = lin[0] == {nsym[1]: 1} and lin[1] == -1
                other = [kk for kk, ns in extents.items() if ns[0] == 'v' and lin[0] == {ns[1]: 1}]
                if not ok:
                    # on values: extent and number of edges written over the same leaves (aliases, loop variables substituted)
                    from .common import parse_sx
                    def _lin_sx(txt):
                        try:
                            return linear(parse_sx(txt, full=True)) if txt else None
                        except SyntaxError:
                            return None
                    le = _lin_sx(it.sx(se))
                    ln_ = {kk: _lin_sx(nv_.sx) for kk, nv_ in n_values.items() if nv_ is not None}
                    mine = ln_.get(k)
                    import os
                    if os.environ.get('GSA_DBG'): print('DBG', k, it.sx(se), '|', {kk: nv_.sx for kk, nv_ in n_values.items() if nv_ is not None}, le, mine)
                    if le is not None and mine is not None and le[0] == mine[0]:
                        if le[1] == mine[1] - 1:
                            ctx.ob('R2', fi, se, True, f'extent of axis {k} = number of edges = n - 1')
                            continue
                    elif le is not None and mine is not None:
                        oth = [kk for kk, l_ in ln_.items() if kk != k and l_ is not None and l_[0] == le[0]]
                        if oth:
                            ctx.ob('R1', fi, se, False, f'array extent of axis {k} is taken from axis {oth[0]}')
                        else:
                            ctx.ob('R2', fi, se, None, f'extent of axis {k} not comparable with its number of edges')
                        continue
                if ok:
                    ctx.ob('R2', fi, se, True, f'extent of axis {k} = number of edges = n - 1')
                elif other and other[0] != k:
                    ctx.ob('R1', fi, se, False, f'array extent of axis {k} is taken from axis {other[0]}')
                else:
                    ctx.ob('R2', fi, se, False, f'extent `{norm_text(se)}` of axis {k} differs from its number of edges ({nsym[1]} - 1): '
                                                f'indices can reach the extent, or voxels stay empty and the voxel size changes')
        # index positions
        items = idx.elts if (idx is not None and idx.ty == 'tuple' and idx.elts is not None) else None
        rv = None
        if items is None and idx is not None:
            rv = idx.ravel or (idx.unique_of.ravel if idx.unique_of is not None else None)
        if rv is not None and len(rv[0]) == 3 and len(rv[1]) == 2 and len(shape) == 3 and base.axes == ('flat',):
            # a row-major linear index into the flattened count array: the multipliers must be the extents of the trailing axes
            def same_extent(a_, b_):
                if a_ is None or b_ is None:
                    return None
                if a_.sx is not None and a_.sx == b_.sx:
                    return True
                if a_.mono is not None and b_.mono is not None and a_.axis is not None and b_.axis is not None and not a_.mono_unknown and not b_.mono_unknown:
                    return a_.mono.text() == b_.mono.text() and a_.axis == b_.axis
                return None
            verdicts = [same_extent(rv[1][j], shape[j + 1]) for j in range(2)]
            if all(v is True for v in verdicts):
                items = list(rv[0])
                ctx.ob('R1', fi, norm_text(e['node']) + ' [linear index]', True, 'row-major linear index built with the extents of the trailing axes')
            elif any(v is False for v in verdicts):
                ctx.ob('R1', fi, norm_text(e['node']) + ' [linear index]', False, 'the linear voxel index is built with multipliers that are not the extents of the '
                                                                                    'trailing axes of the count array: samples land in other voxels')
                items = list(rv[0])
        if items is None or len(items) != 3:
            ctx.ob('R1', fi, e['node'], None, 'the counts are not written at an (i, j, k) index triple')
        else:
            axes = [x.axis for x in items]
            ok = axes == [0, 1, 2]
            ctx.ob('R1', fi, e['node'], ok if None not in axes else None,
                   'index position k holds the digitised coordinate of axis k' if ok else f'index positions hold axes {axes}')
        # R4: a plain assignment executed once per block / iteration overwrites the counts of earlier blocks
        if e['kind'] == 'sub' and e.get('stmt') is not None:
            pm_ = {}
            for n_ in ast.walk(e['where'].node):
                for c_ in ast.iter_child_nodes(n_):
                    pm_[id(c_)] = n_
            cur_, in_loop = e['stmt'], None
            while id(cur_) in pm_:
                cur_ = pm_[id(cur_)]
                if isinstance(cur_, (ast.For, ast.While)):
                    in_loop = cur_
                    break
            zero_alloc = next((n_ for n_ in ast.walk(e['where'].node) if isinstance(n_, ast.Call) and norm_text(n_.func).split('.')[-1] in ('zeros', 'empty', 'full')
                               and in_loop is not None and any(x is n_ for x in ast.walk(in_loop))), None)
            if in_loop is not None and zero_alloc is None and val is not None and val.counts_of is not None:
                ctx.ob('R4', fi, e['node'], False, 'the counts of one block of samples are assigned (not added) inside a loop over blocks: a voxel visited in '
                                                   'several blocks keeps only the count of the last one, the voxel sum falls below frames x atoms')
        # R4 counts
        src = val.counts_of if val is not None else None
        ok = src is not None and src.rows is None and (src.colvals is not None) and all(c.digit is not None for c in src.colvals)
        if not ok and src is not None and src.ravel is not None and rv is not None and src.ravel is rv:
            ok = all(c.digit is not None for c in src.ravel[0])  # counts of the linear voxel index, written at that index
        same = ok and items is not None and all(x.digit is not None for x in items)
        if e['kind'] == 'add_at':
            # np.add.at(data, (i, j, k), 1): one unbuffered increment per sample
            same = val is not None and has_const(val) and cval(val) == 1 and items is not None and all(x.digit is not None for x in items)
        ctx.ob('R4', fi, e['node'], True if same else None,
               'multiplicities of the digitised (x, y, z) triples written at those triples' if same else 'count source not recognised')
    for e in uniq_events(it, {'fancy_aug'}, inside):
        ctx.ob('R4', fi, e['node'], False, 'counts are accumulated with a fancy-index augmented assignment, which numpy applies once per distinct index: '
                                           'two samples of one frame that fall into the same voxel are counted as one (use unique counts / np.add.at)')
    check_peaks(ctx)
    check_voxel_maps(ctx)


def check_peaks(ctx):
    fi = ctx.fn(f'{VOL}.find_peaks')
    ups = {}
    for n in ast.walk(fi.node):
        if isinstance(n, ast.Assign) and len(n.targets) == 1 and isinstance(n.targets[0], ast.Tuple) and len(n.targets[0].elts) == 3:
            for k, t in enumerate(n.targets[0].elts):
                if isinstance(t, ast.Name):
                    ups[t.id] = (k, norm_text(n.value))
    cmps = [n for n in ast.walk(fi.node) if isinstance(n, ast.Compare) and len(n.ops) == 1 and isinstance(n.left, ast.Subscript)]
    for n in cmps:
        sl = n.left.slice
        items = sl.elts if isinstance(sl, ast.Tuple) else [sl]
        if not (isinstance(items[-1], ast.Constant) and isinstance(items[-1].value, int)):
            continue
        k = items[-1].value
        r = n.comparators[0]
        if isinstance(r, ast.Name) and r.id in ups:
            kk, src = ups[r.id]
            is_upper = isinstance(n.ops[0], (ast.Lt, ast.LtE)) and src == 'self.dims'
            if src == 'self.dims' or isinstance(n.ops[0], (ast.Gt, ast.GtE)):
                ok = kk == k
                ctx.ob('R1', fi, n, ok, f'axis {k} compared with its own bound' if ok else f'peak coordinate of axis {k} is compared with the bound of axis {kk}')
                if src == 'self.dims':
                    strict = isinstance(n.ops[0], ast.Lt)
                    if not strict and isinstance(n.ops[0], ast.LtE):
                        ctx.ob('R1', fi, n, False, 'a peak at index == extent is kept (outside the grid)')


def _strip(n):
    """Drop array-conversion wrappers: np.array(x), np.asarray(x), tuple(x), list(x)."""
    while isinstance(n, ast.Call) and len(n.args) >= 1 and norm_text(n.func).split('.')[-1] in ('array', 'asarray', 'tuple', 'list', 'asanyarray'):
        n = n.args[0]
    return n


def _binary(n, op_type, fn_names):
    n = _strip(n)
    if isinstance(n, ast.BinOp) and isinstance(n.op, op_type):
        return _strip(n.left), _strip(n.right)
    if isinstance(n, ast.Call) and norm_text(n.func).split('.')[-1] in fn_names and len(n.args) >= 2:
        return _strip(n.args[0]), _strip(n.args[1])
    return None


def centre_formula(t):
    """t == (voxel + c) / dims in any spelling -> (c, voxel text, dims text) else None"""
    d = _binary(t, ast.Div, ('divide', 'true_divide'))
    if d is None:
        return None
    num, den = d
    a = _binary(num, ast.Add, ('add',))
    if a is None:
        return None
    consts = [x for x in a if isinstance(x, ast.Constant) and isinstance(x.value, (int, float)) and not isinstance(x.value, bool)]
    others = [x for x in a if x not in consts]
    if len(consts) != 1 or len(others) != 1:
        return None
    return float(consts[0].value), norm_text(others[0]), norm_text(den)


def check_voxel_maps(ctx):
    from .common import parse_sx
    fv = ctx.fn(f'{VOL}.voxel_to_frac_coords')
    ff = ctx.fn(f'{VOL}.frac_coords_to_voxel')

    for q_ in (fv.qualname, ff.qualname, f'{VOL}.voxel_to_cart_coords'):
        if q_ in ctx.p.functions:
            kind_errors(ctx, 'R3', ctx.entry(q_), under(q_))

    def ret(f):
        it_ = ctx.entry(f.qualname)
        rs = [r.value for r in ast.walk(f.node) if isinstance(r, ast.Return) and r.value is not None]
        if not rs:
            return None, None
        return rs[-1], parse_sx(it_.sx(rs[-1]), full=True)

    rv, tv = ret(fv)
    c = None
    ok = None
    cf = centre_formula(tv) if tv is not None else None
    if cf is not None:
        c, vox, den = cf
        dims_ok = 'self.dims' in den
        vox_ok = 'voxel' in vox
        ok = (0 < c < 1) and dims_ok and vox_ok
        if not (0 < c < 1):
            ok = False
        elif not (dims_ok and vox_ok):
            ok = None
    ctx.ob('R3', fv, rv if rv is not None else 'return', ok,
           f'(voxel + {c}) / dims: a point strictly inside the voxel' if ok else
           (f'offset {c} puts the converted point on a voxel face: converting back yields a neighbouring voxel' if c is not None else 'formula not recognised'))
    rf, tf = ret(ff)
    okf = None
    if tf is not None:
        x = tf
        if isinstance(x, ast.Call) and isinstance(x.func, ast.Attribute) and x.func.attr == 'astype' and x.args and norm_text(x.args[0]) in ('int', 'np.int64', 'np.intp'):
            x = _strip(x.func.value)
            if isinstance(x, ast.Call) and norm_text(x.func).split('.')[-1] in ('floor', 'trunc') and x.args:
                x = _strip(x.args[0])
            m = _binary(x, ast.Mult, ('multiply',))
            if m is not None:
                texts = {norm_text(m[0]), norm_text(m[1])}
                okf = True if texts == {'frac_coords', 'self.dims'} else None
    ctx.ob('R3', ff, rf if rf is not None else 'return', True if okf else None, 'trunc(fraction * dims) with the same dims' if okf else 'formula not recognised')
    # siblings using the voxel centre
    for q, pat in ((f'gemdat.path.Pathway.frac_sites', None), (f'{VOL}._props_to_frac_coords_centroid', None)):
        f = ctx.fn(q)
        found = False
        itf = ctx.entry(f.qualname)
        seen_txt = set()
        for n in ast.walk(f.node):
            if not isinstance(n, (ast.BinOp, ast.Call)):
                continue
            t_ = parse_sx(itf.sx(n), full=True)
            cf_ = centre_formula(t_) if t_ is not None else None
            if cf_ is None or 'self.dims' not in cf_[2] or norm_text(t_) in seen_txt:
                continue
            seen_txt.add(norm_text(t_))
            found = True
            same = c is not None and cf_[0] == c
            ctx.ob('R3', f, n, same if c is not None else None, f'same voxel centre offset {cf_[0]}' if same else
                   f'uses offset {cf_[0]} while Volume.voxel_to_frac_coords uses {c}')
        if not found:
            deleg = [e for e in itf.events if e['tag'] == 'call' and e['callee'] == fv.qualname and under(f.qualname)(e)]
            if deleg:
                ctx.ob('R3', f, deleg[0]['node'], True if c is not None else None, 'converted by Volume.voxel_to_frac_coords itself (same voxel centre)')
                continue
            ctx.ob('R3', f, q.split('.')[-1], None, 'voxel-centre formula not recognised')
