"""C04 - jumps: same-field copies from the departure event, stop = time + 1, real-site origin, residence polarity."""

from __future__ import annotations

import ast

from ..interp import cval, has_const
from ..source import norm_text
from .common import walk_no_nested
from .geo import under, uniq_events

G2J = 'gemdat.jumps._generic_transitions_to_jumps'


def check(ctx):
    ctx.doc('R1', 'every field copied from the departure event into the reported jump keeps its column (origin <- origin, '
                  'start time <- start time)')
    ctx.doc('R2', "stop time = event time + 1 where the event time is the last frame before the change (C03.R2); "
                  "'start time' is that event time")
    ctx.doc('R3', 'the origin of every reported jump is a real site: only departures guarded by start site != NOSITE feed it')
    ctx.doc('R5', 'every variable that carries scanner state from one event to the next is reset when the scan moves to the next atom')
    ctx.doc('R4', 'the minimal residence occurs only as the lower bound of an elapsed-time test that admits a jump, so '
                  'raising it can only remove jumps')
    ctx.floor('R1', 2)
    ctx.floor('R2', 2)
    ctx.floor('R3', 2)
    ctx.floor('R4', 1)
    ctx.floor('R5', 2, 'fromevent, candidate_jump')
    ctx.include('C03', 'E', only=('R2', 'R3'))   # the event table the scanner reads (frame offsets, wrap removal, column kinds)
    it = ctx.pipeline()
    fi = ctx.fn(G2J)
    inside = under(G2J)
    # ---- R1
    for e in uniq_events(it, {'column_write'}, inside):
        fr, col, val = e['frame'], e['col'], e['value']
        if fr.ty != 'Row':
            continue
        src = val.col if val is not None else None
        if src is None:
            ctx.ob('R1', fi, e['node'], None, f"field '{col}' of the jump is assigned from an unrecognised value")
            continue
        ok = src == col
        ctx.ob('R1', fi, e['node'], ok, f"'{col}' copied from '{src}' of the departure event" if ok else
               f"jump field '{col}' is filled from field '{src}' of the departure event")
    # ---- R2
    for e in uniq_events(it, {'column_write'}, inside):
        fr, col, val = e['frame'], e['col'], e['value']
        if fr.ty != 'DataFrame' or col != 'stop time':
            continue
        ok = val is not None and val.idx is not None and val.idx[0] == 'FRAME' and val.at == 1
        src = val.bin[1].col if (val is not None and val.bin is not None and val.bin[1] is not None) else None
        ctx.ob('R2', fi, e['node'], True if ok else (False if val is not None and val.idx is not None else None),
               'first frame after the change (t + 1)' if ok else
               f"'stop time' is frame t{'+' + str(val.at) if val is not None and val.at else ''} instead of t+1: the first frame "
               f'at the destination')
    data = it.state.heap[it.jumps.oid].get('data')
    cols = data.cols if data is not None else None
    if not cols or 'start time' not in cols:
        ctx.ob('R2', fi, "column 'start time'", None, 'jump table columns not derived')
    else:
        c = cols['start time']
        ok = c.idx is not None and c.idx[0] == 'FRAME' and (c.at or 0) == 0
        ctx.ob('R2', fi, "column 'start time'", True if ok else (False if c.idx is not None else None),
               'last frame at the origin (t)' if ok else ("'start time' is not the event frame t" if c.idx is not None else "kind of 'start time' not derivable"))
        for need in ('atom index', 'start site', 'destination site', 'start time', 'stop time'):
            if need not in cols:
                ctx.ob('R2', fi, f"column '{need}'", False, f"the jump table has no column '{need}'")
        st_ = cols.get('stop time')
        if st_ is not None:
            ok = st_.role is None and st_.idx is not None and st_.idx[0] == 'FRAME' and st_.at == 1
            ctx.ob('R2', fi, "column 'stop time'", True if ok else (False if st_.role else None),
                   'frame after the arrival event of the jump' if ok else
                   f"'stop time' is derived from a field copied from the departure event ({st_.role}): for a jump through a 'no site' gap it is "
                   f'a frame inside the gap, not the first frame at the destination')
        ai = cols.get('atom index')
        if ai is not None:
            ok = ai.idx == ('ATOM',)
            ctx.ob('R2', fi, "column 'atom index'", True if ok else (False if ai.idx is not None else None),
                   'atom indices of the event table' if ok else
                   (f'holds positions inside a filtered selection of atoms, not atom indices: jumps are attributed to the wrong atom'
                    if ai.idx is not None and ai.idx[0] == 'SUBPOS' else f"'atom index' holds {ai.idx}"))
    # role consistency of the reported rows: (destination, stop time) from the arrival event, (origin, start time) from the departure
    seen_nodes = set()
    for e in it.events:
        if e['tag'] not in ('append', 'yield') or e['where'] is None or G2J not in e['ctx'] or id(e['node']) in seen_nodes:
            continue
        v = e['value']
        if v is None or v.ty != 'Row' or not v.cols:
            continue
        seen_nodes.add(id(e['node']))
        c = v.cols
        rd, rs = (c.get('destination site').role if c.get('destination site') is not None else None), (c.get('stop time').role if c.get('stop time') is not None else None)
        ro, rt = (c.get('start site').role if c.get('start site') is not None else None), (c.get('start time').role if c.get('start time') is not None else None)
        ok = (rd == rs) and (ro == rt)
        ctx.ob('R2', fi, e['node'], ok, 'destination and stop time come from one event, origin and start time from one event' if ok else
               ("the reported row takes its destination from one event but its stop time from another: for a jump through a 'no site' gap the stop "
                'time is not the first frame at the destination' if rd != rs else
                'the reported row takes its origin from one event but its start time from another'))
    # ---- R3
    n = 0
    for e in uniq_events(it, {'append', 'yield'}, inside):
        v = e['value']
        if v is None or v.ty != 'Row' or not v.cols:
            continue
        n += 1
        all_ev = [x for x in it.events if x['tag'] in ('append', 'yield') and x['node'] is e['node']]
        bad = unknown = False
        for x in all_ev:
            c = x['value'].cols.get('start site') if x['value'].cols else None
            members = (c.idx[1] if c.idx[0] == 'JOIN' else {c.idx}) if (c is not None and c.idx is not None) else set()
            if not members:
                unknown = True
            elif any(m[0] != 'SITE' or (len(m) > 1 and m[1]) for m in members):
                bad = True
        ctx.ob('R3', fi, e['node'], False if bad else (None if unknown else True), 'origin is a real site' if not (bad or unknown) else
               ("a reported jump can carry the 'no site' marker as origin: departures are not restricted to real sites" if bad else
                "kind of the 'start site' field of the reported jump not derivable"))
    check_scanner_state(ctx, 'R5')
    # ---- R4
    check_residence(ctx, it, fi)


def functions_under(it, qual, p):
    """FunctionInfo of `qual` and of every package function evaluated while it was on the call stack."""
    out = {}
    for e in it.events:
        w = e['where']
        if w is not None and qual in e['ctx']:
            out[w.qualname] = w
    if qual in p.functions:
        out.setdefault(qual, p.functions[qual])
    return list(out.values())


def _parents(root):
    pm = {}
    for n_ in ast.walk(root):
        for c in ast.iter_child_nodes(n_):
            pm[id(c)] = n_
    return pm


def event_scans(ctx, it):
    """(function, loop, iterated frame) for every `for ... in frame.iterrows()` reached from the jump classifier."""
    scans = []
    for f in functions_under(it, G2J, ctx.p):
        for n_ in walk_no_nested(f.node):
            if isinstance(n_, ast.For):
                v = it.value_of(n_.iter)
                if v is not None and v.ty == 'DataFrameIterrows':
                    scans.append((f, n_, v.of))
    return scans


def check_scanner_state(ctx, rule):
    fi = ctx.fn(G2J)
    it = ctx.pipeline()
    scans = event_scans(ctx, it)
    if not scans:
        ctx.ob(rule, fi, 'per-atom event scan', None, 'scan over the events of one atom (frame.iterrows()) not recognised')
    for f, loop, frame in scans:
        pm = _parents(f.node)
        # the events scanned in one go are those of one atom
        g = frame.grouped if frame is not None else None
        ctx.ob(rule, f, loop.iter, True if g == 'atom index' else (False if (g is not None and g is not True) or (frame is not None and frame.ty == 'DataFrame' and g is None) else None),
               'events are scanned atom by atom' if g == 'atom index' else
               (f'the scanned events are grouped by {g!r}, not by atom' if g not in (None, True) else
                'events of different atoms are scanned as one sequence: a pending departure of one atom is completed by an arrival of another'))
        # region executed once per atom: body of the innermost enclosing loop, else the function body
        cur, region, anchor = loop, None, loop
        while id(cur) in pm:
            par = pm[id(cur)]
            if isinstance(par, (ast.For, ast.While)) and cur in par.body:
                region, anchor = par.body, cur
                break
            if isinstance(par, (ast.FunctionDef, ast.AsyncFunctionDef)):
                region, anchor = par.body, cur
                break
            cur = par
        live = ctx.cfg(f.qualname).carried_into(loop)
        if live is None:
            ctx.ob(rule, f, loop.iter, None, 'loop not found in the control-flow graph')
            continue
        carried = sorted(live)
        reset = set()
        if region is not None:
            pos = region.index(anchor) if anchor in region else len(region)
            for s_ in region[:pos]:
                for n_ in ast.walk(s_):
                    if isinstance(n_, ast.Name) and isinstance(n_.ctx, ast.Store):
                        reset.add(n_.id)
        # every event reaches the departure stage (the test of its start site against NOSITE): no early exit before it
        cfg = ctx.cfg(f.qualname)
        head = next((k for k, d in enumerate(cfg.nodes) if d[0] == 'for' and d[1] is loop), None)
        start = next((k for k in cfg.succ[head] if cfg.nodes[k][0] == 'edge' and cfg.nodes[k][2] is True), None) if head is not None else None
        stage = []
        for k, d in enumerate(cfg.nodes):
            if d[0] != 'test' or not any(x is d[1] for x in ast.walk(loop)):
                continue
            v = it.value_of(d[1])
            if v is None or (v.cmp is None and not v.chain_vals):
                continue
            links = [(v.cmp[1], v.cmp[2])] if v.cmp is not None else list(zip(v.chain_vals, v.chain_vals[1:]))
            for a_, b_ in [p_ for l_, r_ in links for p_ in ((l_, r_), (r_, l_))]:
                if a_ is not None and a_.col == 'start site' and b_ is not None and (b_.nosite_marker or b_.gname == 'gemdat.transitions.NOSITE'
                                                                                     or (has_const(b_) and cval(b_) == -1)):
                    stage.append(k)
        if start is None or not stage:
            ctx.ob(rule, f, 'event scan has no early exit', None, 'departure stage (test of the start site against NOSITE) not recognised')
        else:
            ok = cfg.all_paths_pass(start, head, stage) and all(
                cfg.all_paths_pass(start, k, stage) for k, d in enumerate(cfg.nodes) if d[0] == 'stmt' and isinstance(d[1], ast.Break)
                and any(x is d[1] for x in ast.walk(loop)))
            ctx.ob(rule, f, 'event scan has no early exit', ok, 'every event is examined as a possible departure' if ok else
                   'an early exit of the scan loop skips the departure stage for some events: an event that confirms a pending jump is not '
                   'examined as a departure / arrival itself, so jumps are lost or appear when the minimal residence is raised')
        for name in carried:
            ok = name in reset
            ctx.ob(rule, f, f'scanner state `{name}`', ok, 'reset for every atom before its events are scanned' if ok else
                   f'`{name}` carries state from one event to the next but is not reset when the scan moves on to the next atom: a pending '
                   f'departure of one atom is completed by an arrival of the following atom (phantom jump, depends on the atom order)')


def check_residence(ctx, it, fi):
    prm = 'minimal_residence'
    dep = f'param:{fi.name}.{prm}'
    n_tests = 0
    for f in functions_under(it, G2J, ctx.p):
        pm = _parents(f.node)
        for par in walk_no_nested(f.node):
            if not (isinstance(par, ast.Compare) and len(par.ops) == 1):
                continue
            lv, rv = it.value_of(par.left), it.value_of(par.comparators[0])
            l_is = lv is not None and lv.deps is not None and dep in lv.deps and lv.idx != ('FRAMEDIFF',)
            r_is = rv is not None and rv.deps is not None and dep in rv.deps and rv.idx != ('FRAMEDIFF',)
            if l_is == r_is:
                continue
            n_tests += 1
            op = par.ops[0]
            ov = lv if r_is else rv
            lower_bound = (r_is and isinstance(op, (ast.GtE, ast.Gt))) or (l_is and isinstance(op, (ast.LtE, ast.Lt)))
            elapsed = ov is not None and ov.idx == ('FRAMEDIFF',)
            st = pm.get(id(par))
            neg = False
            while st is not None and not isinstance(st, ast.If):
                if isinstance(st, ast.UnaryOp) and isinstance(st.op, ast.Not):
                    neg = not neg
                st = pm.get(id(st))
            if neg:
                lower_bound = not lower_bound if isinstance(op, (ast.GtE, ast.Gt, ast.LtE, ast.Lt)) else lower_bound
            branch = (st.body if not neg else st.orelse) if st is not None else []
            admits = st is not None and any((isinstance(w, ast.Call) and isinstance(w.func, ast.Attribute) and w.func.attr in ('append', 'extend'))
                                            or isinstance(w, (ast.Yield, ast.YieldFrom)) for b in branch for w in ast.walk(b))
            if lower_bound and elapsed and admits:
                ctx.ob('R4', f, par, True, 'elapsed time >= minimal residence admits the pending jump')
            elif elapsed and admits and not lower_bound:
                ctx.ob('R4', f, par, False, 'the minimal residence is an upper bound of the admitting test: raising it adds jumps')
            elif elapsed and lower_bound and not admits:
                ctx.ob('R4', f, par, False, 'the branch taken when the residence is long enough does not report the jump')
            else:
                ctx.ob('R4', f, par, None, 'residence test not recognised')
    if not n_tests:
        used = any(isinstance(n_, ast.Name) and n_.id == prm and isinstance(n_.ctx, ast.Load) for n_ in walk_no_nested(fi.node))
        ctx.ob('R4', fi, prm, None if used else False, 'no elapsed-time test against the minimal residence recognised' if used else 'the minimal residence is ignored')
