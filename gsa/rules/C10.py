"""C10 - paths: move table, method dispatch, per-axis wrapping, attribute-name tables, percolation wiring."""

from __future__ import annotations

import ast
import itertools

from ..interp import const, cval, has_const
from ..source import norm_text
from .common import def_map, expand, walk_no_nested
from .geo import under, uniq_events

FEG = 'gemdat.path.free_energy_graph'
OP = 'gemdat.path.optimal_path'
ONP = 'gemdat.path.optimal_n_paths'
OPP = 'gemdat.path.optimal_percolating_path'
PW = 'gemdat.path.Pathway'


def check(ctx):
    ctx.doc('R1', 'the neighbour move table, closed under negation when the graph is undirected, is exactly the 6 face moves '
                  '(diagonal off) / the 26 face+edge+corner moves (diagonal on)')
    ctx.doc('R2', 'every method of the pathfinding Literal is accepted and selects a search configuration of its own '
                  '(weight attribute, algorithm, post-processing): two methods with identical configurations mean a dead handler')
    ctx.doc('R3', 'wrapped voxel coordinates pair every axis with its own grid size')
    ctx.doc('R4', 'edge / node attribute names read by the searches and the energy report are the ones written by the graph builder; '
                  'the search runs from the requested start to the requested stop')
    ctx.doc('R5', 'percolation: target = start + dims * mask, tiling 1 + mask of the same mask; strict improvement from +inf; '
                  'original dims restored on the returned path')
    ctx.doc('R6', 'neighbour voxel = (node + move) modulo the shape of the energy array, before membership test and edge insertion')
    ctx.doc('R7', '[C20.R7] a hand-rolled memo table is keyed on every parameter the stored value depends on (a graph cached per '
                  'threshold must not be returned for the other neighbourhood mode)')
    ctx.floor('R1', 2)
    ctx.floor('R2', 5, '5 methods')
    ctx.floor('R3', 1)
    ctx.floor('R4', 4)
    ctx.floor('R5', 4)
    ctx.floor('R6', 1)
    check_moves(ctx)
    check_dispatch(ctx)
    check_wrapping(ctx)
    check_tables(ctx)
    check_percolation(ctx)

    from .C20 import check_handrolled_memo
    check_handrolled_memo(ctx, 'R7')

def _wrap_bin(v, depth=0):
    if v is None or depth > 3:
        return None
    if v.bin is not None and v.bin[0] == '%':
        return v.bin
    return _wrap_bin(v.of, depth + 1) if v.of is not None else None


def _table_of(v, depth=0):
    if v is None or depth > 3:
        return None
    if v.tbl is not None:
        return v.tbl
    return _table_of(v.of, depth + 1) if v.of is not None else None


def check_moves(ctx, R1='R1', R6='R6'):
    fi = ctx.fn(FEG)
    for diag in (True, False):
        it = ctx.entry(FEG, args={'diagonal': const(diag)})
        loops = [n for n in ast.walk(fi.node) if isinstance(n, ast.For) and it.value_of(n.iter) is not None
                 and any(isinstance(w, ast.Call) and isinstance(w.func, ast.Attribute) and w.func.attr == 'add_edge' for w in ast.walk(n))
                 and it.value_of(n.iter).litconst is not None]
        directed = None
        for e in it.events:
            if e['tag'] == 'graph_add_edge':
                directed = bool(e['graph'].directed)
        # on values: the literal table that took part in computing the neighbour end of the inserted edges
        tbls = []
        for e in uniq_events(it, {'graph_add_edge'}, under(FEG)):
            for end in (e['v'], e['u']):
                t_ = _table_of(end)
                if t_ is not None and t_ not in tbls:
                    tbls.append(t_)
        if directed is None or (not loops and len(tbls) != 1):
            ctx.ob(R1, fi, f'move table (diagonal={diag})', None, 'literal move table feeding add_edge not recognised')
            continue
        table = tbls[0][1] if len(tbls) == 1 else it.value_of(loops[-1].iter).litconst[1]
        if not all(isinstance(m, (tuple, list)) and len(m) == 3 for m in table):
            ctx.ob(R1, fi, f'move table (diagonal={diag})', None, 'the move table is not a table of 3-component moves')
            continue
        moves = {tuple(int(x) for x in m) for m in table}
        eff = set(moves)
        if not directed:
            eff |= {tuple(-x for x in m) for m in moves}
        if diag:
            want = set(itertools.product((-1, 0, 1), repeat=3)) - {(0, 0, 0)}
        else:
            want = {m for m in itertools.product((-1, 0, 1), repeat=3) if sum(abs(x) for x in m) == 1}
        missing = sorted(want - eff)
        extra = sorted(eff - want)
        ok = not missing and not extra
        msg = f'{len(eff)} neighbour moves = all {"26 face/edge/corner" if diag else "6 face"} neighbours'
        if missing:
            msg = (f'the move table reaches {len(eff & want)} of the {len(want)} neighbours; missing {missing}: paths cannot step to '
                   f'those neighbours, so the reported path can cost more than the cheapest admissible path and the move set is not '
                   f'symmetric under the cubic point group')
        elif extra:
            msg = f'the move table contains non-neighbour moves {extra}'
        ctx.ob(R1, fi, f'move table (diagonal={diag})', ok, msg)
    # R6 neighbour wrap
    it = ctx.entry(FEG, args={'diagonal': const(True)})
    edges = uniq_events(it, {'graph_add_edge'}, under(FEG))
    if not edges:
        ctx.ob(R6, fi, 'add_edge', None, 'edge insertion not found')
    for e in edges:
        v = e['v']
        # v = tuple((node + move) % data.shape)
        node = e['node']
        wb = _wrap_bin(v)
        if wb is not None and wb[2] is not None and wb[2].shapeof is not None and wb[1] is not None and wb[1].bin is not None and wb[1].bin[0] == '+':
            # decided on the value: (a + b) % <shape of an array>
            ctx.ob(R6, fi, node, True, 'neighbour wrapped modulo the shape of the energy array')
            continue
        varg = node.args[1] if len(node.args) > 1 else None
        src = None
        if isinstance(varg, ast.Name):
            for n in ast.walk(fi.node):
                if isinstance(n, ast.Assign) and len(n.targets) == 1 and isinstance(n.targets[0], ast.Name) and n.targets[0].id == varg.id:
                    src = n.value
        else:
            src = varg
        ok = None
        msg = 'neighbour expression not recognised'
        orig_src = src
        if src is not None:
            src = expand(src, def_map(fi.node), keep=('data', 'node', 'move'))
            mods = [b for b in ast.walk(src) if isinstance(b, ast.BinOp) and isinstance(b.op, ast.Mod)]
            npmods = [c for c in ast.walk(src) if isinstance(c, ast.Call) and norm_text(c.func).split('.')[-1] in ('mod', 'remainder') and len(c.args) == 2]
            cands = [(b.left, b.right) for b in mods] + [(c.args[0], c.args[1]) for c in npmods]
            def ax(n_):
                v = it.last.get(id(n_)) or it.value_of(n_)
                if v is None:
                    for cand in ast.walk(fi.node):
                        if type(cand) is type(n_) and norm_text(cand) == norm_text(n_) and it.value_of(cand) is not None:
                            v = it.last.get(id(cand)) or it.value_of(cand)
                            break
                if v is None:
                    return None
                if v.axis is not None:
                    return v.axis
                if v.unpack_n == 3:
                    return v.unpack_pos
                if v.shape_of and v.shape_of[0] and v.shape_of[0][0] == 'd' and v.shape_of[0][1:].isdigit():
                    return int(v.shape_of[0][1:])
                return None
            gens = [g_ for g_ in ast.walk(src) if isinstance(g_, (ast.GeneratorExp, ast.ListComp)) and len(g_.generators) == 1
                    and isinstance(g_.generators[0].iter, ast.Call) and norm_text(g_.generators[0].iter.func) == 'zip'
                    and isinstance(g_.generators[0].target, ast.Tuple)]
            zip_ok = None
            for g_ in gens:
                zargs = [norm_text(a_) for a_ in g_.generators[0].iter.args]
                names = [norm_text(t_) for t_ in g_.generators[0].target.elts]
                pair = dict(zip(names, zargs))
                for b_ in ast.walk(g_.elt):
                    if isinstance(b_, ast.BinOp) and isinstance(b_.op, ast.Mod):
                        rsrc = pair.get(norm_text(b_.right))
                        lnames = {pair.get(x.id) for x in ast.walk(b_.left) if isinstance(x, ast.Name)} - {None}
                        zip_ok = bool(rsrc is not None and rsrc.endswith('.shape') and lnames and all(not n_.endswith('.shape') for n_ in lnames))
            tup = src if isinstance(src, ast.Tuple) else (src.args[0] if isinstance(src, ast.Call) and norm_text(src.func) == 'tuple' and src.args and isinstance(src.args[0], ast.Tuple) else None)
            if tup is not None and len(tup.elts) == 3 and all(isinstance(e_, ast.BinOp) and isinstance(e_.op, ast.Mod) for e_ in tup.elts):
                # per-axis form (i % ni, j % nj, k % nk)
                bad, unk = [], []
                for k_, e_ in enumerate(tup.elts):
                    la, ra = ax(e_.left), ax(e_.right)
                    if la is None or ra is None:
                        unk.append(k_)
                    elif la != k_ or ra != k_:
                        bad.append(f'component {k_} is `{norm_text(e_)}` (voxel axis {la}, grid size of axis {ra})')
                if bad:
                    ok, msg = False, 'neighbour voxels are wrapped with the grid size of another axis: ' + '; '.join(bad)
                elif unk:
                    ok, msg = None, 'axes of the per-axis wrap not derivable'
                else:
                    ok, msg = True, 'every axis wrapped with its own grid size'
                cands = []
            elif zip_ok:
                ok, msg = True, 'every component wrapped with the extent of its own axis (zip over node, move and the shape)'
                cands = []
            elif not cands:
                ok, msg = False, 'the neighbour index is not reduced modulo the grid shape: paths cannot cross the periodic cell faces'
            for l, r in cands:
                rv = it.last.get(id(r)) or it.value_of(r)
                if rv is None:
                    # expanded copy: look the modulus up by text in the original function
                    for cand in ast.walk(fi.node):
                        if isinstance(cand, ast.expr) and type(cand) is type(r) and norm_text(cand) == norm_text(r) and it.value_of(cand) is not None:
                            rv = it.last.get(id(cand)) or it.value_of(cand)
                            break
                if rv is not None and rv.shapeof is not None:
                    # the shape must be that of the array the node energies are read from
                    data_nodes = [x for x in uniq_events(it, {'graph_add_node'}, under(FEG))]
                    ok, msg = True, 'neighbour wrapped modulo the shape of the energy array'
                    adds = isinstance(l, ast.BinOp) and isinstance(l.op, ast.Add)
                    if not adds:
                        ok, msg = None, 'wrapped expression is not node + move'
                elif rv is not None and (rv.lenof is not None or rv.shape_of is not None or rv.ty == 'int'):
                    ok, msg = False, (f'all three voxel axes are wrapped modulo the single number `{norm_text(r)}` (the size of one axis): on a '
                                      f'non-cubic grid periodic neighbours of the other axes are lost or bogus edges appear')
                elif rv is not None:
                    ok, msg = None, f'modulus `{norm_text(r)}` is not the shape of the energy array'
        ctx.ob(R6, fi, orig_src if orig_src is not None else e['node'], ok, msg)


def check_dispatch(ctx):
    fi = ctx.fn(OP)
    mod = fi.module
    alias = mod.assigns.get('_PATHFINDING_METHODS')
    methods = None
    if alias is not None and isinstance(alias, ast.Subscript):
        sl = alias.slice
        try:
            methods = [ast.literal_eval(e) for e in (sl.elts if isinstance(sl, ast.Tuple) else [sl])]
        except Exception:
            methods = None
    if not methods:
        ctx.ob('R2', fi, '_PATHFINDING_METHODS', None, 'Literal of pathfinding methods not found')
        return
    sigs = {}
    for m in methods:
        it = ctx.entry(OP, args={'method': const(m)})
        res = it.result
        if res is None or res.ty == 'NoReturn':
            ctx.ob('R2', fi, f"method '{m}'", False, f"optimal_path(method='{m}') always raises: the documented method is rejected")
            continue
        searches = [e for e in it.events if e['tag'] == 'nx_shortest_path' and e['where'] is not None and e['where'].qualname == OP]
        calls = sorted({e['callee'] for e in it.events if e['tag'] == 'call' and e['where'] is not None and e['where'].qualname == OP})
        sig = []
        for e in searches:
            kw = e['kwargs']
            w, alg = kw.get('weight'), kw.get('method')
            sig.append((cval(w) if (w is not None and has_const(w)) else '?', cval(alg) if (alg is not None and has_const(alg)) else ('dijkstra' if alg is None else '?')))
        sigs[m] = (tuple(sig), tuple(calls))
    seen = {}
    for m in methods:
        if m not in sigs:
            continue
        s = sigs[m]
        if '?' in [x for pair in s[0] for x in pair]:
            ctx.ob('R2', fi, f"method '{m}'", None, 'search configuration not constant for this method')
            continue
        if s in seen:
            other = seen[s]
            # the later-listed / more specific name is the one without its own handler
            generic = other if other in ('dijkstra',) else m
            specific = m if generic == other else other
            ctx.ob('R2', fi, f"method '{specific}'", False,
                   f"method '{specific}' runs exactly the configuration of '{generic}' (weight={s[0][0][0]!r}, algorithm={s[0][0][1]!r}, "
                   f"no post-processing): its own handler is unreachable, the documented criterion is never applied")
        else:
            seen[s] = m
            ctx.ob('R2', fi, f"method '{m}'", True, f'own configuration: weight={s[0][0][0]!r}, algorithm={s[0][0][1]!r}' +
                   (f', then {", ".join(c.split(".")[-1] for c in s[1])}' if s[1] else ''))


def check_wrapping(ctx):
    fi = ctx.fn(f'{PW}.wrapped_sites')
    it = ctx.entry(fi.qualname)
    tuples = []
    for n in ast.walk(fi.node):
        if isinstance(n, ast.Tuple) and len(n.elts) == 3 and isinstance(n.ctx, ast.Load) and any(
                isinstance(e, ast.BinOp) and isinstance(e.op, ast.Mod) or (isinstance(e, ast.Call) and norm_text(e.func).split('.')[-1] in ('mod', 'remainder'))
                for e in n.elts):
            tuples.append(n)
    if not tuples:
        ctx.ob('R3', fi, 'wrapped voxel tuple', None, 'wrapped coordinate tuple not recognised')
    for t in tuples:
        probs = []
        for k, e in enumerate(t.elts):
            if isinstance(e, ast.BinOp) and isinstance(e.op, ast.Mod):
                l, r = it.value_of(e.left), it.value_of(e.right)
                la, ra = (l.axis if l is not None else None), (r.axis if r is not None else None)
                if la is None or ra is None:
                    probs.append((None, f'component {k}: axes not derivable'))
                elif la != k or ra != k:
                    probs.append((False, f'component {k} is `{norm_text(e)}`: voxel axis {la} is wrapped with the grid size of axis {ra}'))
            else:
                probs.append((None, f'component {k} is not a modulo expression'))
        if any(p[0] is False for p in probs):
            ctx.ob('R3', fi, t, False, '; '.join(p[1] for p in probs if p[0] is False) + ': wrapped coordinates leave the grid / alias wrong voxels for non-cubic grids')
        elif probs:
            ctx.ob('R3', fi, t, None, '; '.join(p[1] for p in probs))
        else:
            ctx.ob('R3', fi, t, True, 'each axis wrapped with its own grid size')
    # frac_sites uses the wrapped sites and the voxel centre
    ff = ctx.fn(f'{PW}.frac_sites')
    rets = [r.value for r in ast.walk(ff.node) if isinstance(r, ast.Return) and r.value is not None]
    defs_f = def_map(ff.node)
    from .C08 import centre_formula
    from .common import parse_sx
    itf = ctx.entry(ff.qualname)
    for r in rets:
        t_ = parse_sx(itf.sx(r), full=True)
        cf = centre_formula(t_) if t_ is not None else None
        ok = cf is not None and cf[0] == 0.5 and cf[1] == 'self.wrapped_sites()' and cf[2] == 'self.dims'
        raw = cf is not None and cf[1] == 'self.sites' and cf[2] == 'self.dims'
        ctx.ob('R3', ff, r, True if ok else (False if raw else None), 'voxel centres of the wrapped sites / dims' if ok else
               ('fractional coordinates are computed from the unwrapped voxel indices: for a percolating path (which extends into the next '
                'cell) they lie outside [0, 1)' if raw else 'fractional site formula not recognised'))


def check_tables(ctx):
    fi = ctx.fn(FEG)
    it = ctx.entry(FEG, args={'diagonal': const(True)})
    edge_attrs, node_attrs = set(), set()
    nodes_unknown = False
    for e in it.events:
        if e['tag'] == 'graph_add_edge':
            edge_attrs |= set(e['attrs'])
        if e['tag'] == 'graph_add_node':
            node_attrs |= set(e['attrs'])
            if e.get('opaque'):
                nodes_unknown = True
    # readers
    for q in (OP, ONP, '_optimal_path_minmax_energy'):
        q = q if '.' in q else f'gemdat.path.{q}'
        f = ctx.fn(q)
        for n in ast.walk(f.node):
            if isinstance(n, ast.Call) and norm_text(n.func).split('.')[-1] in ('shortest_path', 'shortest_simple_paths', 'all_shortest_paths', 'dijkstra_path'):
                for k in n.keywords:
                    if k.arg == 'weight':
                        vals = set()
                        if isinstance(k.value, ast.Constant):
                            vals = {k.value.value}
                        elif isinstance(k.value, ast.Name):
                            for a in ast.walk(f.node):
                                if isinstance(a, ast.Assign) and any(isinstance(t, ast.Name) and t.id == k.value.id for t in a.targets):
                                    if isinstance(a.value, ast.Constant):
                                        vals.add(a.value.value)
                                    else:
                                        vals.add('?')
                        bad = sorted(str(v) for v in vals if v is not None and v != '?' and v not in edge_attrs)
                        if bad and ('**' in edge_attrs or not edge_attrs):
                            ctx.ob('R4', f, n, None, f'edge attributes written by the graph builder are not all known; cannot decide about {bad}')
                            continue
                        ctx.ob('R4', f, n, False if bad else (None if '?' in vals else True),
                               f'weight attribute(s) {sorted(str(v) for v in vals)} are written by the graph builder' if not bad else
                               f'the search reads edge attribute {bad} which the graph builder never writes (networkx then treats every edge as weight 1)')
            if isinstance(n, ast.Subscript) and isinstance(n.slice, ast.Constant) and isinstance(n.value, ast.Subscript) \
                    and isinstance(n.value.value, ast.Attribute) and n.value.value.attr == 'nodes':
                a = n.slice.value
                if a not in node_attrs and ('**' in node_attrs or not node_attrs or nodes_unknown):
                    ctx.ob('R4', f, n, None, f"node attributes written by the graph builder are not all known; cannot decide about '{a}'")
                    continue
                ctx.ob('R4', f, n, a in node_attrs, f"node attribute '{a}' is written by the graph builder" if a in node_attrs else
                       f"node attribute '{a}' is never written by the graph builder")
    # the exponential weight is capped from above by the threshold
    for e in uniq_events(it, {'graph_add_edge'}, under(FEG)):
        w = e['attrs'].get('weight_exp')
        if w is None:
            continue
        mm = w.minmax
        if mm is not None and mm[0] == 'max' and any(a.is_param and a.is_param.endswith(':max_energy_threshold') for a in mm[1]):
            ctx.ob('R4', fi, e['node'], False, 'the exponential edge weight is clamped with max(exp(w), threshold): every edge weighs at least the threshold, so '
                                               "the 'dijkstra-exp' search degenerates to counting steps and its paths are not cost-minimal")
        else:
            ctx.ob('R4', fi, f'{norm_text(e["node"])} [weight_exp]', True if (mm is None or mm[0] == 'min') else None, 'exponential weight capped by the threshold')
    # node admission and energy stored
    for e in uniq_events(it, {'graph_add_node'}, under(FEG)):
        en = e['attrs'].get('energy')
        key = e['key']
        ok = en is not None and key is not None and key.voxel
        ctx.ob('R4', fi, e['node'], True if ok else None, 'node = voxel index, energy = its free energy')
    # start / stop wiring
    fo = ctx.fn(OP)
    ito = ctx.entry(OP, args={'method': const('dijkstra')})
    for e in ito.events:
        if e['tag'] == 'nx_shortest_path' and e['where'] is not None and e['where'].qualname == OP:
            s, t = e['kwargs'].get('source'), e['kwargs'].get('target')
            oks = s is not None and s.deps and 'param:optimal_path.start' in s.deps and 'param:optimal_path.stop' not in s.deps
            okt = t is not None and t.deps and 'param:optimal_path.stop' in t.deps and 'param:optimal_path.start' not in t.deps
            ctx.ob('R4', fo, e['node'], True if (oks and okt) else (False if (s is not None and t is not None and s.deps and t.deps) else None),
                   'search from the requested start to the requested stop' if (oks and okt) else 'source/target of the search are not the requested start/stop')
            break


def check_percolation(ctx):
    fi = ctx.fn(OPP)
    body = fi.node
    txt = {}
    for n in ast.walk(body):
        if isinstance(n, ast.Assign) and len(n.targets) == 1:
            txt.setdefault(norm_text(n.targets[0]), n.value)
    from .common import parse_sx
    it = ctx.entry(OPP)

    def product_with_dims(t):
        """t == F.dims * M (operator or np.multiply, either order) -> text of M, else None"""
        ops = None
        if isinstance(t, ast.BinOp) and isinstance(t.op, ast.Mult):
            ops = (t.left, t.right)
        elif isinstance(t, ast.Call) and norm_text(t.func).split('.')[-1] == 'multiply' and len(t.args) == 2:
            ops = (t.args[0], t.args[1])
        if ops is None:
            return None
        l, r = norm_text(ops[0]), norm_text(ops[1])
        return r if l == 'F.dims' else (l if r == 'F.dims' else None)

    # the searches: optimal_path(graph, start=peak, stop=peak + image)
    searches = [e for e in it.events if e['tag'] == 'call' and e['callee'] == OP and OPP in e['ctx']]
    seen = set()
    searches = [e for e in searches if not (id(e['node']) in seen or seen.add(id(e['node'])))]
    mask = None
    img_node = None
    for e in searches:
        ofi = ctx.fn(OP)
        from .common import bound_args
        b = bound_args(ofi, e['args'], e['kwargs'])
        st_, sp_ = b.get('start'), b.get('stop')
        call = e['node']
        kwn = {k.arg: k.value for k in call.keywords if k.arg}
        sp_node = kwn.get('stop') or (call.args[2] if len(call.args) > 2 else None)
        st_node = kwn.get('start') or (call.args[1] if len(call.args) > 1 else None)
        t = parse_sx(it.sx(sp_node), full=True) if sp_node is not None else None
        stx = norm_text(parse_sx(it.sx(st_node), full=True)) if st_node is not None and parse_sx(it.sx(st_node), full=True) is not None else None
        okstop = None
        if isinstance(t, ast.BinOp) and isinstance(t.op, ast.Add) and stx is not None:
            l, r = norm_text(t.left), norm_text(t.right)
            other = t.right if l == stx else (t.left if r == stx else None)
            if other is not None:
                m_ = product_with_dims(other)
                okstop = True
                img_node = other
                if m_ is not None:
                    mask = m_
            else:
                okstop = False
        ctx.ob('R5', e['where'], call, okstop, 'stop = start + image' if okstop else 'the percolation target is not the periodic image of the start peak')
        g0 = call.args[0] if call.args else kwn.get('F_graph')
        gtxt = it.sx(g0) if g0 is not None else ''
        gv = e['args'][0] if e['args'] else e['kwargs'].get('F_graph')
        ok = gv is not None and gv.ty == 'Graph'
        ctx.ob('R5', e['where'], norm_text(call) + ' [graph]', True if ok else None, 'path from the peak to its image on the tiled graph')
    if not searches:
        ctx.ob('R5', fi, 'optimal_path', None, 'search from a peak to its periodic image not recognised')
    no_product = img_node is not None and not any((isinstance(x, ast.BinOp) and isinstance(x.op, ast.Mult)) or
                                                  (isinstance(x, ast.Call) and norm_text(x.func).split('.')[-1] in ('multiply', 'where', 'prod'))
                                                  for x in ast.walk(img_node))
    ctx.ob('R5', fi, 'image', True if mask else (False if (img_node is not None and 'F.dims' in norm_text(img_node) and no_product) else None),
           f'periodic image offset = dims * {mask}' if mask else 'the image offset is not the grid size masked by the percolation directions '
           '(the target is then a full cell away along axes that were not requested / not tiled)')
    from .C04 import functions_under
    tiles = [(f_, n) for f_ in functions_under(it, OPP, ctx.p) for n in ast.walk(f_.node) if isinstance(n, ast.Call) and norm_text(n.func).endswith('tile')]
    for f_, n in tiles:
        rt = parse_sx(it.sx(n.args[1]), full=True) if len(n.args) > 1 else None
        reps = norm_text(rt).replace(' ', '') if rt is not None else ''
        mk = (mask or '').replace(' ', '')
        ok = None
        if mask is not None:
            if reps in (f'tuple(1+{mk})', f'1+{mk}', f'tuple({mk}+1)', f'{mk}+1', f'np.where({mk},2,1)', f'tuple(np.where({mk},2,1))'):
                ok = True
            elif isinstance(rt, ast.Call) and norm_text(rt.func) == 'tuple' and rt.args and isinstance(rt.args[0], (ast.GeneratorExp, ast.ListComp)):
                g = rt.args[0]
                src = norm_text(g.generators[0].iter).replace(' ', '')
                el = g.elt
                two_one = isinstance(el, ast.IfExp) and isinstance(el.body, ast.Constant) and el.body.value == 2 and isinstance(el.orelse, ast.Constant) \
                    and el.orelse.value == 1 and norm_text(el.test) == norm_text(g.generators[0].target)
                one_plus = norm_text(el).replace(' ', '') in (f'1+{norm_text(g.generators[0].target)}', f'{norm_text(g.generators[0].target)}+1',
                                                              f'1+int({norm_text(g.generators[0].target)})')
                if (two_one or one_plus) and (src == mk or mk in (f'np.array({src})', f'np.asarray({src})')):
                    ok = True
            elif 'F.dims' not in reps and reps and all(ch.isdigit() or ch in '(),' for ch in reps):
                ok = False  # a fixed tiling independent of the requested directions
        ctx.ob('R5', f_, n, ok, 'grid tiled once more along exactly the percolation directions' if ok else f'tiling `{reps}` does not match the image mask `{mask}`')
    cmps = [n for n in ast.walk(body) if isinstance(n, ast.Compare) and 'best_cost' in norm_text(n)]
    for n in cmps:
        t = norm_text(n).replace(' ', '')
        ok = t in ('cost<best_cost', 'best_cost>cost')
        init = txt.get('best_cost')
        okinit = init is not None and norm_text(init).replace(' ', '') in ("float('inf')", 'np.inf', 'math.inf', 'float("inf")')
        ctx.ob('R5', fi, n, True if (ok and okinit) else (False if t in ('cost>best_cost', 'best_cost<cost', 'cost>=best_cost') else None),
               'cheapest path over all peaks kept (strict improvement from +inf)' if (ok and okinit) else 'the comparison does not keep the cheapest path')
    if not cmps:
        # selection by min()/sorted() over the collected candidates: the key must be the total cost of the path
        sel = [n for n in ast.walk(body) if isinstance(n, ast.Call) and isinstance(n.func, ast.Name) and n.func.id in ('min', 'sorted')
               and any(k.arg == 'key' for k in n.keywords)]
        for n in sel:
            key = next(k.value for k in n.keywords if k.arg == 'key')
            kt = norm_text(key.body if isinstance(key, ast.Lambda) else key).replace(' ', '').replace('"', "'")
            arg = key.args.args[0].arg if (isinstance(key, ast.Lambda) and key.args.args) else None
            total = (arg is not None and kt in (f'{arg}.total_energy', f'sum({arg}.energy)', f'np.sum({arg}.energy)')) or \
                kt in ("attrgetter('total_energy')", "operator.attrgetter('total_energy')")
            steps = (arg is not None and kt in (f'{arg}.energy', f'list({arg}.energy)', f'tuple({arg}.energy)')) or \
                kt in ("attrgetter('energy')", "operator.attrgetter('energy')")
            if not (total or steps):
                continue  # a selection through a helper or another form: no verdict from this clause (other forms are not read here)
            ctx.ob('R5', fi, n, True if total else False,
                   'cheapest path over all peaks selected by total energy' if total else
                   ('the candidates are ordered by their per-step energy list (lexicographic), not by the total energy: the path '
                    'from the deepest peak wins even when another peak has the cheaper percolating path' if steps else
                    f'selection key `{kt}` not recognised as the total energy of the path'))
    # every peak is examined: the loop over the peaks has no early exit
    for lp in ast.walk(body):
        if isinstance(lp, ast.For) and norm_text(lp.iter) == 'peaks':
            exits = [w for w in walk_no_nested(lp) if isinstance(w, (ast.Break, ast.Return))]
            ctx.ob('R5', fi, f'for {norm_text(lp.target)} in peaks', not exits,
                   'all peaks are examined' if not exits else
                   f'the search over the peaks stops early (`{norm_text(exits[0])}`): a later peak with a cheaper percolating path is never tried')
    # ... and no return is decided by one particular peak before (or instead of) the search over all of them
    for st_ in walk_no_nested(body):
        if isinstance(st_, ast.If) and any(isinstance(w, ast.Return) for b_ in st_.body for w in [b_] + list(walk_no_nested(b_))):
            one_peak = [x for x in ast.walk(st_.test) if isinstance(x, ast.Subscript) and norm_text(x.value) == 'peaks'
                        and isinstance(x.slice, (ast.Constant, ast.UnaryOp))]
            if one_peak:
                ctx.ob('R5', fi, st_.test, False, f'the result is decided from the single peak `{norm_text(one_peak[0])}` before the other peaks are tried: '
                                                  f'when that peak has no percolating path the paths through the other peaks are never found')
    restores = [n for n in ast.walk(body) if isinstance(n, ast.Assign) and norm_text(n.targets[0]) == 'best_path.dims']
    if not restores:
        # on values: the `dims` of the returned path object
        res_ = it.result
        oids_ = sorted(res_.oids) if (res_ is not None and res_.oids) else ([res_.oid] if (res_ is not None and res_.ty == 'obj' and res_.oid is not None) else [])
        dv = [it.final_state.heap.get(o, {}).get('dims') for o in oids_]
        dv = [d_ for d_ in dv if d_ is not None]
        sxs = {(d_.sx or '').replace(' ', '') for d_ in dv}
        if dv and sxs == {'F.dims'}:
            ctx.ob('R5', fi, 'best_path.dims', True, 'original grid dimensions restored')
        elif dv and all(d_.shapeof is not None or 'tile' in (d_.sx or '') or 'shape' in (d_.sx or '') for d_ in dv):
            ctx.ob('R5', fi, 'best_path.dims', False, 'the dimensions of the original grid are not restored on the returned path: wrapped '
                                                      'coordinates are then taken modulo the tiled grid')
        else:
            ctx.ob('R5', fi, 'best_path.dims', None, 'dims of the returned path not derivable')
    for n in restores:
        ok = norm_text(n.value) == 'F.dims'
        ctx.ob('R5', fi, n, True if ok else (False if it.sx(n.value).replace(' ', '') != 'F.dims' else True),
               'original grid dimensions restored' if (ok or it.sx(n.value).replace(' ', '') == 'F.dims') else 'dims restored from something other than the original volume')
