"""C07 - invariance under rotation of the lattice frame, translation through cell faces: aggregated geometry obligations."""

from __future__ import annotations

import ast

from ..kinds import is_cart, is_frac, wrapped
from ..source import norm_text
from .C10 import check_moves
from .geo import ALL_ERRORS as KIND_ERRORS, all_geos, geo_text, under, uniq_events

MODULES = ('gemdat.transitions', 'gemdat.jumps', 'gemdat.collective', 'gemdat.rdf', 'gemdat.volume', 'gemdat.path',
           'gemdat.trajectory', 'gemdat.metrics')
# functions of those modules that may produce lattice-frame Cartesian values, with the reason they are rotation safe
CART_PRODUCERS = {
    'gemdat.trajectory.Trajectory.mean_squared_displacement': 'squares are summed over xyz (rule R1 checks the result is a squared length)',
    'gemdat.volume.Volume.voxel_to_cart_coords': 'returns Cartesian coordinates of the lattice by contract (not an analysis result)',
}


def in_scope(f):
    return f.module.name in MODULES


def check(ctx):
    ctx.doc('R1', 'rotation: inside the analysis modules a lattice-frame Cartesian value is produced only where it is consumed by '
                  'a frame-invariant reduction, coordinates given to the periodic tree are in the tree frame, and no Euclidean '
                  'operation touches fractional coordinates')
    ctx.doc('R2', 'translation through faces: wrapped positions are consumed only by periodic-safe operations (periodic distances, '
                  'periodic tree, uniform binning, image-corrected differences); never averaged, never differenced without reduction')
    ctx.doc('R3', 'the free-energy graph wraps neighbour voxels modulo the grid shape')
    ctx.doc('R4', 'the neighbour move set is symmetric under the cubic point group (all 6 / 26 neighbours)')
    ctx.doc('R5', 'relabelling atoms: the per-atom event scan resets its state for every atom (no result depends on which atom is scanned next)')
    ctx.doc('R6', 'reordering sites: helpers that number the site labels derive the list of unique labels identically (state names do not depend on the site order)')
    ctx.floor('R1', 4)
    ctx.floor('R2', 8, 'reads of wrapped positions outside trajectory.py')
    scan = [it for it in ctx.package_scan()]
    # ---- kind errors anywhere in scope
    seen = set()
    nerr = 0
    for it in scan:
        for e in it.events:
            if e['tag'] in KIND_ERRORS and e['where'] is not None and in_scope(e['where']) and id(e['node']) not in seen:
                seen.add(id(e['node']))
                nerr += 1
                rule = 'R2' if e['tag'] in ('wrapped_reduce', 'unreduced_diff', 'cw_to_cart') else 'R1'
                extra = e.get('what')
                ctx.ob(rule, e['where'], e['node'], False, KIND_ERRORS[e['tag']] + (f': {extra}' if extra else ''))
    ctx.ob('R1', 'gemdat', f'kind errors in {len(MODULES)} analysis modules', nerr == 0, 'no Euclidean operation on fractional values, no frame mix')
    # ---- Cartesian producers
    seen = set()
    for it in scan:
        for e in it.events:
            if e['tag'] != 'to_cart' or e['where'] is None or not in_scope(e['where']) or id(e['node']) in seen:
                continue
            seen.add(id(e['node']))
            if e.get('lattice') is not None and e['lattice'].frame not in (None, 'LAT'):
                continue  # coordinates in the box frame of the periodic tree: covered by the tree-frame rule below
            q = e['where'].qualname
            if q in CART_PRODUCERS:
                ctx.ob('R1', e['where'], e['node'], True, CART_PRODUCERS[q])
            elif under(*CART_PRODUCERS)(e):
                # a private helper of a classified producer
                owner = next(c_ for c_ in reversed(e['ctx']) if c_ in CART_PRODUCERS)
                ctx.ob('R1', e['where'], e['node'], True, CART_PRODUCERS[owner] + f' (helper of {owner.split(".")[-1]})')
            else:
                ctx.ob('R1', e['where'], e['node'], None, 'lattice-frame Cartesian coordinates produced in an analysis module: consumer not classified')
    # MSD result
    it = ctx.entry('gemdat.trajectory.Trajectory.mean_squared_displacement')
    gs = all_geos(it.result)
    ctx.ob('R1', ctx.fn('gemdat.trajectory.Trajectory.mean_squared_displacement'), 'return value', True if gs == {('DIST2',)} else (None if not gs else False),
           'frame-invariant squared length' if gs == {('DIST2',)} else f'MSD result is {", ".join(geo_text(g) for g in gs)}')
    # periodic tree frame
    pipe = ctx.pipeline()
    cas = ctx.fn('gemdat.transitions._calculate_atom_states')
    for e in uniq_events(pipe, {'kdtree_coords'}, under(cas.qualname)):
        gs = all_geos(e['coords'])
        ok = bool(gs) and all(is_cart(g) and g[1] == 'MDA' for g in gs)
        coordlike = bool(gs) and all(g[0] in ('FRAC', 'FDIFF', 'CART', 'RAW', 'CARTSQ', 'DIST') for g in gs)
        ctx.ob('R1', cas, e['node'], True if ok else (None if not coordlike else False),
               'tree coordinates in the tree frame' if ok else f'{e["which"]} receives {", ".join(geo_text(g) for g in gs)}: site assignment depends on the '
               'orientation of the lattice vectors')
    for e in uniq_events(pipe, {'pbc_distance'}, in_scope):
        pass
    # ---- R2 consumers of wrapped positions
    n = 0
    seen = set()
    for it in scan:
        for e in it.events:
            if e['tag'] != 'property_read' or not e['prop'].endswith('Trajectory.positions') or e['where'] is None:
                continue
            if e['where'].qualname.startswith('gemdat.trajectory.') or e['where'].module.name.startswith('gemdat.plots'):
                continue
            if id(e['node']) in seen:
                continue
            seen.add(id(e['node']))
            n += 1
            v = it.value_of(e['node'])
            gs = all_geos(v)
            ok = bool(gs) and all(wrapped(g) for g in gs)
            ctx.ob('R2', e['where'], e['node'], True if ok else (None if not gs else False),
                   'wrapped positions; no unsafe consumer (averaging / unreduced difference / Euclidean distance) downstream' if ok else
                   f'positions read here are {", ".join(geo_text(g) for g in gs)}')
    # periodic distance calls only see fractional values
    seen = set()
    for it in scan:
        for e in it.events:
            if e['tag'] == 'pbc_distance' and e['where'] is not None and in_scope(e['where']) and id(e['node']) not in seen:
                seen.add(id(e['node']))
                bad = [x for x in (e['a'], e['b']) if x is not None and x.geo is not None and not (is_frac(x.geo) or x.geo[0] == 'SYMIMG')]
                ctx.ob('R2', e['where'], e['node'], not bad, 'periodic distance on fractional coordinates' if not bad else
                       f'periodic distance receives {geo_text(bad[0].geo)}')
    # site permutation / orientation: the site assignment itself (frame of the tree coordinates, aligned local -> global lookup)
    ctx.include('C02', 'S', only=('R1', 'R2', 'R4'))
    # ---- R3 / R4
    check_moves(ctx, R1='R4', R6='R3')
    # ---- R5 atom permutation: per-atom scans do not carry state from one atom to the next
    from .C04 import check_scanner_state
    check_scanner_state(ctx, 'R5')
    from .C11 import check_label_numbering
    check_label_numbering(ctx, 'R6')
