"""C16 - trajectory cache: key completeness, same-path read/write, broad-except discipline, pickle identity."""

from __future__ import annotations

import ast

from ..source import AnalysisError, norm_text
from .common import calls_in, parent_map, stmt_of, walk_no_nested
from .geo import _helper_like

TRAJ = 'gemdat.trajectory.Trajectory'


def loaders(ctx):
    """(loader, function holding the cache write): public classmethods that write the cache themselves or through private helpers."""
    ci = ctx.p.cls(TRAJ)
    out = []
    for name, fi in ci.methods.items():
        if not fi.is_classmethod or name.startswith('_'):
            continue
        if any(isinstance(c.func, ast.Attribute) and c.func.attr == 'to_cache' for c in calls_in(fi.node)):
            out.append((fi, fi))
            continue
        it = ctx.entry(fi.qualname)
        owners = []
        for e in it.events:
            if e['tag'] == 'call' and e['callee'] == f'{TRAJ}.to_cache' and e['where'] is not None and fi.qualname in e['ctx']:
                chain = e['ctx'][e['ctx'].index(fi.qualname) + 1:]
                if chain and all(_helper_like(q) for q in chain) and e['where'] not in owners:
                    owners.append(e['where'])
        if len(owners) == 1:
            out.append((fi, owners[0]))
    return out


def check(ctx):
    ctx.doc('R1', 'every loader parameter that flows into the parsed trajectory (data or raise/return control) also '
                  'flows into the default cache path (hashed dict or suffix)')
    ctx.doc('R2', 'the cache path tested, read and written is one unrebound variable; every path from the parse to the '
                  'return of the parsed object passes to_cache (guards proven always-true are followed)')
    ctx.doc('R3', 'each cls.from_cache(cache) sits in a try whose handler is broad (Exception/BaseException/bare), '
                  'neither raises nor returns, and falls through to the parse')
    ctx.doc('R4', 'from_cache returns the unpickled object unchanged; to_cache pickles self into the given path')
    ls = loaders(ctx)
    ctx.floor('R1', 3, '3 loaders')
    ctx.floor('R3', 3, '3 cache reads')
    ctx.floor('R2', 3, '3 loaders')
    for fi, wf in ls:
        check_loader(ctx, fi, wf)
    check_pickle(ctx)


def _with_try(ctx, owner, expr):
    """The ast.Try that a `with <expr>:` block amounts to, or None."""
    if not isinstance(expr, ast.Call):
        return None
    name = norm_text(expr.func)
    head = name.split('.')[0]
    resolved = owner.module.imports.get(head, head) + name[len(head):]
    if resolved == 'contextlib.suppress':
        # with suppress(E1, E2): body  ==  try: body / except (E1, E2): pass
        t = ast.Try(body=[], handlers=[ast.ExceptHandler(type=ast.Tuple(elts=list(expr.args), ctx=ast.Load()) if len(expr.args) != 1 else expr.args[0],
                                                         name=None, body=[ast.Pass()])], orelse=[], finalbody=[])
        return ast.copy_location(t, expr)
    q = ctx.p.canonical(resolved) if hasattr(ctx.p, 'canonical') else resolved
    fi = ctx.p.functions.get(q) or ctx.p.functions.get(f'{owner.module.name}.{name}')
    if fi is None or not any(d.endswith('contextmanager') for d in fi.decorators):
        return None
    for t in ast.walk(fi.node):
        if isinstance(t, ast.Try) and any(isinstance(y, (ast.Yield, ast.YieldFrom)) for b in t.body for y in ast.walk(b)):
            return t
    return None


def check_loader(ctx, lf, fi):
    """`lf`: the public loader (its parameters are the cache key); `fi`: the function that tests, reads and writes the cache -
    the loader itself or the private helper it delegates to. Values are those of the loader's own run."""
    it = ctx.entry(lf.qualname)
    fnode = fi.node
    pm = parent_map(fnode)
    cfg = ctx.cfg(fi.qualname)
    # the loader and the private helpers it calls (a cache-reading helper may hold the read and its try)
    helpers = {}
    for e in it.events:
        if e['tag'] == 'call' and e['where'] is not None and e['where'].qualname == fi.qualname and e['callee'] in ctx.p.functions:
            name_ = e['callee'].split('.')[-1]
            if name_.startswith('_') and not name_.startswith('__'):
                helpers[e['callee']] = ctx.p.functions[e['callee']]
    readers = [fi] + list(helpers.values())
    from_cache_calls = [c for c in calls_in(fnode) if isinstance(c.func, ast.Attribute) and c.func.attr == 'from_cache']
    helper_reads = [(h, c) for h in helpers.values() for c in calls_in(h.node) if isinstance(c.func, ast.Attribute) and c.func.attr == 'from_cache']
    to_cache_calls = [c for c in calls_in(fnode) if isinstance(c.func, ast.Attribute) and c.func.attr == 'to_cache']
    exists_calls = [c for c in calls_in(fnode) if isinstance(c.func, ast.Attribute) and c.func.attr == 'exists']
    lf_reads = []
    if lf is not fi:
        # the write lives in a helper (`fi`); the read may have stayed in the loader itself
        lf_reads = [(lf, c) for c in calls_in(lf.node) if isinstance(c.func, ast.Attribute) and c.func.attr == 'from_cache']
        helper_reads = helper_reads + lf_reads
    if not from_cache_calls and not helper_reads:
        ctx.ob('R3', fi, fi.node.name, None, 'no read of the cache found in the loader or its helpers')

    # ---------------- R3 exception discipline
    for owner, c in [(fi, c) for c in from_cache_calls] + helper_reads:
        pm_ = pm if owner is fi else parent_map(owner.node)
        st = stmt_of(pm_, c)
        tries = []
        withs = []
        n = st
        while n is not None:
            par = pm_.get(id(n))
            if isinstance(par, ast.Try) and any(n is b for b in par.body):
                tries.append(par)
            if isinstance(par, (ast.With, ast.AsyncWith)) and any(n is b for b in par.body):
                # a context manager can swallow exceptions: a @contextmanager generator with `try: yield / except ...`
                # stands for that try; contextlib.suppress(...) for a handler that does nothing
                for item in par.items:
                    cm = _with_try(ctx, owner, item.context_expr)
                    if cm is not None:
                        tries.append(cm)
                    else:
                        withs.append(item.context_expr)
            n = par
        if not tries and withs:
            ctx.ob('R3', owner, c, None, f'cache read inside `with {norm_text(withs[0])}`: whether that context manager absorbs a failed read is not known')
            continue
        if not tries:
            ctx.ob('R3', owner, c, False, 'cache read is not protected by a try: an unreadable cache file aborts the load')
            continue
        t = tries[0]
        broad = False
        bad = None
        for h in t.handlers:
            types = []
            if h.type is None:
                types = ['<bare>']
            elif isinstance(h.type, ast.Tuple):
                types = [norm_text(e) for e in h.type.elts]
            else:
                types = [norm_text(h.type)]
            is_broad = any(x in ('<bare>', 'Exception', 'BaseException') for x in types)
            if is_broad:
                broad = True
                for sub in h.body:
                    for w in walk_no_nested(sub):
                        if isinstance(w, ast.Raise):
                            bad = 'the broad handler re-raises instead of falling back to the source files'
                        elif isinstance(w, ast.Return):
                            rv = it.value_of(w.value) if w.value is not None else None
                            from_pickle = rv is not None and (rv.ty == 'unpickled' or bool(rv.prov and 'pickle' in rv.prov))
                            if owner is fi or from_pickle:
                                bad = 'the broad handler returns instead of falling back to the source files'
                break  # a narrow handler before the broad one does not matter; first broad handler decides
        if not broad:
            have = ', '.join(norm_text(h.type) if h.type is not None else '<bare>' for h in t.handlers)
            ctx.ob('R3', owner, c, False, f'handler(s) `{have}` do not catch every failure of reading a truncated / '
                                        f'unreadable cache (pickle raises EOFError, UnpicklingError, AttributeError, ...)')
        elif bad:
            ctx.ob('R3', owner, c, False, bad)
        else:
            # fall-through must reach the parse: the handler end must reach a later statement of the function
            ctx.ob('R3', owner, c, True, 'broad handler, falls through to the parse')

    # ---------------- R2 same path, write on every path
    path_names = set()
    for c in from_cache_calls + to_cache_calls:
        if c.args and isinstance(c.args[0], ast.Name):
            path_names.add(c.args[0].id)
        elif c.args:
            path_names.add(norm_text(c.args[0]))
    for h_, c_ in lf_reads:
        # read in the loader, write in the helper: the loader's path variable is the argument it hands to the helper
        x = c_.args[0] if c_.args else None
        hp = [p_ for p_ in fi.params() if p_ not in ('cls', 'self')]
        mapped = None
        for call in calls_in(lf.node):
            if isinstance(call.func, ast.Attribute) and call.func.attr == fi.name and x is not None:
                for pos, a_ in enumerate(call.args):
                    if norm_text(a_) == norm_text(x) and pos < len(hp):
                        mapped = hp[pos]
                for k_ in call.keywords:
                    if k_.arg in hp and norm_text(k_.value) == norm_text(x):
                        mapped = k_.arg
        path_names.add(mapped if mapped is not None else (norm_text(x) if x is not None else '?'))
    for h_, c_ in [hr for hr in helper_reads if hr not in lf_reads]:
        # the path the helper reads is its parameter: the argument given at the call in the loader
        hp = h_.params()
        for e in it.events:
            if e['tag'] == 'call' and e['callee'] == h_.qualname and e['where'] is not None and e['where'].qualname == fi.qualname:
                arg0 = c_.args[0] if c_.args else None
                if isinstance(arg0, ast.Name) and arg0.id in hp and isinstance(e['node'], ast.Call):
                    pos = [x for x in hp if x not in ('cls', 'self')].index(arg0.id)
                    call = e['node']
                    an = call.args[pos] if pos < len(call.args) else next((k.value for k in call.keywords if k.arg == arg0.id), None)
                    if an is not None:
                        path_names.add(an.id if isinstance(an, ast.Name) else norm_text(an))
    for c in exists_calls:
        # Path(cache).exists()
        recv = c.func.value
        if isinstance(recv, ast.Call) and recv.args and isinstance(recv.args[0], ast.Name):
            path_names.add(recv.args[0].id)
        elif isinstance(recv, ast.Name):
            path_names.add(recv.id)
    if not to_cache_calls:
        ctx.ob('R2', fi, fi.node.name, False, 'the parsed trajectory is never written to the cache')
        return
    if len(path_names) != 1:
        ctx.ob('R2', fi, to_cache_calls[0], False, f'cache path read and written differ: {sorted(path_names)}')
        return
    pname = next(iter(path_names))
    # no rebinding of the path variable after the first read
    first_read = min([c.lineno for c in from_cache_calls + exists_calls] + [e['node'].lineno for e in it.events if e['tag'] == 'call' and e['callee'] in helpers and e['where'] is not None and e['where'].qualname == fi.qualname and any(h is helpers[e['callee']] for h, _ in helper_reads)], default=None)
    rebinds = [n for n in walk_no_nested(fnode) if isinstance(n, ast.Name) and n.id == pname and isinstance(n.ctx, ast.Store)
               and first_read is not None and n.lineno > first_read]
    if rebinds:
        ctx.ob('R2', fi, stmt_of(pm, rebinds[0]), False, f'`{pname}` is rebound between the cache read and the cache write')
        return
    # every path from the function entry to a `return <parsed obj>` passes a to_cache call, except paths
    # through the cache-hit return; infeasible guard edges (test proven constant) are pruned.
    blockers = set()
    for c in to_cache_calls:
        blockers.add(cfg.node_of(c))
    for c in from_cache_calls:
        st = stmt_of(pm, c)
        if isinstance(st, ast.Return):
            blockers.add(cfg.node_of(st))
    for rid, rnode in cfg.returns():
        rv = it.value_of(rnode.value) if rnode.value is not None else None
        if rv is not None and (rv.ty == 'unpickled' or bool(rv.prov and 'pickle' in rv.prov)):
            blockers.add(rid)  # returns what was read from the cache
    for i, d in enumerate(cfg.nodes):
        if d[0] == 'edge' and isinstance(d[1], ast.expr):
            v = it.value_of(d[1])
            t = it.model.truth(v) if v is not None else None
            if t is not None and t != d[2]:
                blockers.add(i)
    ok = True
    bad_ret = None
    for rid, rnode in cfg.returns():
        if rid in blockers:
            continue
        if rnode.value is None:
            continue
        if not cfg.all_paths_pass(cfg.entry, rid, blockers):
            ok = False
            bad_ret = rnode
    if ok:
        ctx.ob('R2', fi, to_cache_calls[0], True, f'`{pname}` is the path tested, read and written; write on every parse path')
    else:
        ctx.ob('R2', fi, bad_ret, False, 'a path from the parse to this return does not write the cache '
                                         '(the guard of the write can be false)')

    # the object written to the cache is the object returned: nothing modifies it after the write
    for c in to_cache_calls:
        if not (isinstance(c.func, ast.Attribute) and isinstance(c.func.value, ast.Name)):
            continue
        obj = c.func.value.id
        cid = cfg.node_of(c)
        later = cfg.reachable(cid) - {cid}
        for i in sorted(later):
            d = cfg.nodes[i]
            if d[0] != 'stmt':
                continue
            stn = d[1]
            mut = None
            if isinstance(stn, ast.Expr) and isinstance(stn.value, ast.Call) and isinstance(stn.value.func, ast.Attribute) \
                    and isinstance(stn.value.func.value, ast.Name) and stn.value.func.value.id == obj and stn.value.func.attr != 'to_cache':
                mut = stn
            elif isinstance(stn, (ast.Assign, ast.AugAssign)):
                tg = stn.targets if isinstance(stn, ast.Assign) else [stn.target]
                if any(isinstance(t, (ast.Attribute, ast.Subscript)) and isinstance(t.value, ast.Name) and t.value.id == obj for t in tg) or \
                        any(isinstance(t, ast.Name) and t.id == obj for t in tg):
                    mut = stn
            if mut is not None:
                ctx.ob('R2', fi, mut, False, f'`{norm_text(mut)}` changes the trajectory after it was written to the cache: a later load from '
                                             f'the cache returns a different trajectory than parsing the source files')
    # ---------------- R1 key completeness
    lname = pname
    if lf is not fi:
        # the loader's own name of the path: the argument it passes for the helper's path parameter
        hp = [x for x in fi.params() if x not in ('cls', 'self')]
        for e in it.events:
            if e['tag'] == 'call' and e['callee'] == fi.qualname and isinstance(e['node'], ast.Call) and pname in hp:
                pos = hp.index(pname)
                an = e['node'].args[pos] if pos < len(e['node'].args) else next((k.value for k in e['node'].keywords if k.arg == pname), None)
                if isinstance(an, ast.Name):
                    lname = an.id
    params = [p for p in lf.params() if p not in ('cls', lname)]
    if lf.node.args.kwarg:
        params.append(lf.node.args.kwarg.arg)
    # value of the path variable where it is consumed
    key_deps = set()
    for c in from_cache_calls + exists_calls + to_cache_calls:
        for n in ast.walk(c):
            if isinstance(n, ast.Name) and n.id == pname:
                v = it.value_of(n)
                if v is not None and v.deps:
                    key_deps |= set(v.deps)
    # data flow into the parsed result + control of raise/return in the parse section
    res_deps = set()
    for rid, rnode in cfg.returns():
        if rnode.value is None or rid in blockers:
            continue
        v = it.value_of(rnode.value)
        if v is not None and v.deps:
            res_deps |= set(v.deps)
        # attributes stored into the object (constructor keywords) are part of the result
    if lf is not fi and it.result is not None and it.result.deps:
        res_deps |= set(it.result.deps)
    for e in it.events:
        if e['tag'] in ('construct', 'traj_init') and e['where'] is not None and \
                (e['where'].qualname == fi.qualname or (lf is not fi and lf.qualname in e['ctx'])):
            for a in list(e.get('args', [])) + list(e.get('kwargs', {}).values()):
                if a is not None and a.deps:
                    res_deps |= set(a.deps)
    ctl_deps = {}
    gate_ifs = [n for n in walk_no_nested(fnode) if isinstance(n, ast.If) and first_read is not None and n.lineno > first_read]
    if lf is not fi:
        # the parse lives in the loader (typically as a closure handed to the helper): its guards decide what is parsed
        gate_ifs += [n for n in ast.walk(lf.node) if isinstance(n, ast.If)
                     and not any(isinstance(w, ast.Name) and w.id == lname for w in ast.walk(n.test))]
    for n in gate_ifs:
        if True:
            gates = any(isinstance(w, (ast.Raise, ast.Return)) for b in n.body + n.orelse for w in walk_no_nested(b))
            if gates:
                v = it.value_of(n.test)
                for nm in ast.walk(n.test):
                    vv = it.value_of(nm) if isinstance(nm, ast.Name) else None
                    if vv is not None and vv.deps:
                        for dname in vv.deps:
                            ctl_deps[dname] = n
            # a test on the path variable itself is the cache logic, not the parse
    for p in params:
        dep = f'param:{lf.name}.{p}'
        affects = dep in res_deps or dep in ctl_deps
        in_key = dep in key_deps
        if not affects:
            continue
        how = 'flows into the parsed trajectory' if dep in res_deps else f'decides `{norm_text(ctl_deps[dep].test)}` before the parse'
        lossy = sorted(d.split('#')[1] for d in key_deps if d.startswith(dep + '#'))
        if in_key:
            ctx.ob('R1', lf, f'parameter {p}', True, f'{how}; part of the default cache path')
        elif lossy:
            what = {'keys': 'only the keys', 'len': 'only the length', 'bool': 'only the truth value', 'type': 'only the type', 'dir': 'only the directory',
                    'part': 'only a part of the text'}.get(lossy[0], lossy[0])
            ctx.ob('R1', lf, f'parameter {p}', False,
                   f'`{p}` {how}, but {what} of it reach the default cache path: two different values of `{p}` with the same '
                   f'{lossy[0]} share one cache file and the second call returns the trajectory of the first')
        else:
            ctx.ob('R1', lf, f'parameter {p}', False,
                   f'`{p}` {how} but not into the default cache path: a second call with a different `{p}` '
                   f'silently returns the trajectory cached for the first')


def check_pickle(ctx):
    import re
    for nm in ('from_cache', 'to_cache'):
        f_ = ctx.fn(f'{TRAJ}.{nm}')
        memo = [norm_text(d) for d in f_.node.decorator_list if re.search(r'cache\b|lru', norm_text(d)) and 'classmethod' not in norm_text(d)]
        ctx.ob('R4', f_, f'decorators of {nm}', not memo, 'reads / writes the file on every call' if not memo else
               f'{nm} is memoised in-process (`@{memo[0]}`): after the cache file is rewritten or damaged the old object is still returned, a '
               f'damaged cache is never replaced')
    # a custom __setstate__ may supply defaults for attributes missing from an old cache, but the pickled state must win
    ss = ctx.p.functions.get(f'{TRAJ}.__setstate__')
    if ss is not None and len(ss.node.args.args) >= 2:
        st_name = ss.node.args.args[1].arg
        for d_ in ast.walk(ss.node):
            if isinstance(d_, ast.Dict) and any(k is None for k in d_.keys):
                pos = [i for i, (k, v) in enumerate(zip(d_.keys, d_.values)) if k is None and isinstance(v, ast.Name) and v.id == st_name]
                if pos and pos[-1] != len(d_.keys) - 1:
                    ctx.ob('R4', ss, d_, False, f'`{norm_text(d_)}`: the entries after `**{st_name}` override the pickled attributes, so every load from the cache '
                                                f'resets them: the trajectory read back is not the trajectory that was written')
                elif pos:
                    ctx.ob('R4', ss, d_, True, 'defaults first, pickled state last')
    fc = ctx.fn(f'{TRAJ}.from_cache')
    it = ctx.entry(fc.qualname)
    res = it.result
    from .geo import under as _under
    loads = [e for e in it.events if e['tag'] == 'pickle_load' and _under(fc.qualname)(e)]
    if not loads:
        ctx.ob('R4', fc, fc.node.name, None, 'no pickle.load found in from_cache')
    else:
        ok = res is not None and res.ty == 'unpickled'
        if ok and res.maybe_none:
            ctx.ob('R4', fc, loads[0]['node'], False, 'from_cache can return None instead of raising: loaders that hand its result straight back '
                                                      '(`return cls.from_cache(cache)`) then return None and never re-parse the source files')
        else:
            ctx.ob('R4', fc, loads[0]['node'], True if ok else False,
                   'returns the unpickled object unchanged' if ok else 'the returned value is not the object read by pickle.load')
        # nothing is done to the unpickled object between the load and the return
        for e in it.events:
            if e['tag'] == 'extmethod' and e['where'] is not None and e['where'].qualname == fc.qualname and e['recv'] is not None and e['recv'].ty == 'unpickled':
                ctx.ob('R4', fc, e['node'], False, f'from_cache calls `{e["name"]}` on the unpickled object: the object returned is not the object that was '
                                                   f'cached (e.g. a trajectory saved in displacement mode comes back converted)')
    tc = ctx.fn(f'{TRAJ}.to_cache')
    it2 = ctx.entry(tc.qualname)
    from .geo import under
    dumps = [e for e in it2.events if e['tag'] == 'pickle_dump' and under(tc.qualname)(e)]
    if not dumps:
        other_calls = [c for c in calls_in(tc.node) if norm_text(c.func) not in ('open',)]
        ctx.ob('R4', tc, tc.node.name, None if other_calls else False, 'to_cache does not pickle anything' if not other_calls else
               'no pickle dump recognised in to_cache or its helpers')
    else:
        e = dumps[0]
        obj, f = e['obj'], e['file']
        ok_obj = obj is not None and obj.ty == 'obj' and obj.cls == TRAJ and obj.symbolic
        ok_file = f is not None and f.ty == 'file' and f.mode and 'w' in f.mode and 'b' in f.mode and f.path is not None and \
            f.path.is_param == f'{tc.qualname}:cache'
        ctx.ob('R4', tc, e['node'], True if (ok_obj and ok_file) else False,
               'dumps self into the file opened (wb) at the given path' if (ok_obj and ok_file) else
               ('the pickled object is not self' if not ok_obj else 'the file written is not the given cache path opened for binary writing'))
