"""C01 - positions wrapped half-open, displacements minimum image, cumulative/length provenance."""

from __future__ import annotations

import ast

from ..kinds import is_frac
from ..source import norm_text
from .geo import all_geos, geo_text, kind_errors, under, uniq_events

TRAJ = 'gemdat.trajectory.Trajectory'
ACCESSORS = {f'{TRAJ}.positions', f'{TRAJ}.displacements', f'{TRAJ}.to_positions'}


def check(ctx):
    ctx.doc('R1', 'Trajectory.positions yields coordinates that passed the wrap on every path and for every storage mode; '
                  'the wrap is half-open [0,1) (np.mod alone is closed: np.mod(-1e-17, 1) == 1.0)')
    ctx.doc('R2', 'Trajectory.displacements yields minimum-image steps')
    ctx.doc('R3', 'raw .coords of a trajectory is read only by the mode-normalising accessors or on a fresh position-mode object')
    ctx.doc('R6', 'no package code writes in place into the coordinate storage of a trajectory (views returned by the accessors)')
    ctx.doc('R4', 'cumulative_displacements = running sum over frames of the minimum-image steps; '
                  'distances_from_base_position = metric length of those; no Euclidean operation on fractional values')
    ctx.doc('R5', 'trajectory_to_volume bins half-open wrapped coordinates')
    check_accessors(ctx)
    check_raw_reads(ctx)
    check_cumulative(ctx)
    check_volume_input(ctx)
    ctx.floor('R1', 1)
    ctx.floor('R2', 1)
    ctx.floor('R4', 3, 'cumulative_displacements, distances_from_base_position, _lengths')


def check_accessors(ctx):
    fi = ctx.fn(f'{TRAJ}.positions')
    it = ctx.entry(fi.qualname)
    gs = all_geos(it.result)
    if not gs:
        ctx.ob('R1', fi, 'return value', None, 'kind of the returned coordinates could not be derived')
    else:
        bad = [g for g in gs if not (is_frac(g) and g[1] == 'W')]
        if not bad:
            ctx.ob('R1', fi, 'return value', True, 'wrapped to the half-open unit cell on every path')
        else:
            g = sorted(bad, key=str)[-1]
            if is_frac(g) and g[1] == 'C':
                msg = ('positions are wrapped with a closed wrap: np.mod(x, 1) returns exactly 1.0 for tiny negative x, so a '
                       'reported coordinate can equal 1.0 (outside [0,1)), and a second read returns 0.0 instead')
            elif is_frac(g) and g[1] == 'N':
                msg = 'on some path / storage mode the returned coordinates are not wrapped into the unit cell'
            else:
                msg = f'returned value is {geo_text(g)}, not wrapped fractional positions'
            # report at the wrap construct when there is one
            tp = ctx.fn(f'{TRAJ}.to_positions')
            node = None
            for n in ast.walk(tp.node):
                if isinstance(n, ast.Assign) and any(isinstance(t, ast.Attribute) and t.attr == 'coords' for t in n.targets):
                    node = n
            ctx.ob('R1', tp if node is not None else fi, node if node is not None else 'return value', False, msg)
    fd = ctx.fn(f'{TRAJ}.displacements')
    it2 = ctx.entry(fd.qualname)
    gs = all_geos(it2.result)
    ok = gs == {('FDIFF', 'MI')}
    ctx.ob('R2', fd, 'return value', True if ok else (None if not gs else False),
           'minimum-image steps' if ok else f'returned value is {", ".join(geo_text(g) for g in gs) or "of unknown kind"}')


def check_raw_reads(ctx):
    n = 0
    seen = set()
    for it in ctx.package_scan():
        for e in it.events:
            if e['tag'] != 'attr_read' or e['attr'] != 'coords':
                continue
            obj = e['obj']
            if obj.cls != TRAJ or e['where'] is None:
                continue
            if id(e['node']) in seen:
                continue
            seen.add(id(e['node']))
            w = e['where'].qualname
            if w in ACCESSORS:
                continue
            n += 1
            gs = all_geos(e['value'])
            ok = (bool(gs) and all(is_frac(g) and g[1] in ('W', 'C') for g in gs)) if gs else None  # unknown kind: undecided
            ctx.ob('R3', e['where'], e['node'], ok,
                   'raw storage of a freshly built position-mode trajectory (wrapped positions)' if ok else
                   'raw .coords read outside the accessors: its meaning depends on the current storage mode '
                   '(positions or displacements), so the result depends on which query ran before')
    ctx.ob('R3', 'gemdat', f'{n} raw coords reads outside accessors', True, 'enumerated over the whole package')
    # in-place writes into the coordinate storage change what positions / displacements report afterwards
    seen = set()
    nw = 0
    for it in ctx.package_scan():
        for e in it.events:
            if e['tag'] != 'store' or e['where'] is None or e['kind'] == 'attr' or e['base'] is None:
                continue
            st_ = e['base'].store or ''
            if st_ in ('attr:Trajectory.coords', 'attr:Trajectory.base_positions') and id(e['node']) not in seen:
                seen.add(id(e['node']))
                nw += 1
                ctx.ob('R6', e['where'], e['node'], False,
                       f'in-place write into {st_[5:]} (through a view returned by positions / displacements): the trajectory itself is '
                       f'modified, so positions reported afterwards no longer equal the input coordinates')
    ctx.ob('R6', 'gemdat', 'in-place writes into trajectory coordinate storage', nw == 0, 'none in the package')


def check_cumulative(ctx, rule='R4'):
    fi = ctx.fn(f'{TRAJ}.cumulative_displacements')
    it = ctx.entry(fi.qualname)
    gs = all_geos(it.result)
    ok = gs == {('FDIFF', 'CUM')}
    ctx.ob(rule, fi, 'return value', True if ok else (None if not gs else False),
           'running sum over the frame axis of minimum-image steps' if ok else
           f'not built from minimum-image steps accumulated over frames: {", ".join(geo_text(g) for g in gs) or "unknown"}'
           ' (wrapped positions differ by lattice translations, so the result changes under whole-cell shifts)')
    for e in uniq_events(it, {'store'}, under(fi.qualname)):
        b = e['base']
        if b is not None and e['kind'] != 'attr' and (b.store or '').startswith('attr:Trajectory'):
            ctx.ob(rule, fi, e['node'], False, 'the running sum is written into the stored displacements of the trajectory: a second query on the '
                                               'same object accumulates already accumulated values')
    fd = ctx.fn(f'{TRAJ}.distances_from_base_position')
    it2 = ctx.entry(fd.qualname)
    in_scope = lambda f: f.qualname in (fd.qualname, 'gemdat.trajectory._lengths', fi.qualname)
    nerr = kind_errors(ctx, rule, it2, in_scope)
    gs = all_geos(it2.result)
    if not nerr:
        ok = gs == {('DIST',)}
        ctx.ob(rule, fd, 'return value', True if ok else (None if not gs else False),
               'metric lengths of the unwrapped displacements' if ok else f'returned value is {", ".join(geo_text(g) for g in gs)}')
    # _lengths: contraction with the metric tensor on both sides
    fl = ctx.fn('gemdat.trajectory._lengths')
    ein = [e for e in uniq_events(it2, {'einsum', 'dot'}, under(fl.qualname))]
    lens_ret = None
    for r in ast.walk(fl.node):
        if isinstance(r, ast.Return) and r.value is not None:
            lens_ret = it2.value_of(r.value)
    if lens_ret is None:
        # not on the path of the query any more (the query calls an inner helper directly): decide _lengths on its own,
        # for unwrapped fractional difference vectors
        from ..interp import AV
        from ..model_numpy import XYZ
        it3 = ctx.entry(fl.qualname, args={'vectors': AV(ty='ndarray', geo=('FDIFF', 'CUM'), axes=('atom', XYZ), dtype='float')})
        nerr += kind_errors(ctx, rule, it3, under(fl.qualname))
        lens_ret = it3.result
    ok = lens_ret is not None and lens_ret.geo == ('DIST',)
    if not nerr:
        ctx.ob(rule, fl, 'return value', True if ok else None,
               'sqrt(v . G . v) with the metric tensor G' if ok else 'the length formula was not recognised as a metric contraction')
    # the vectors measured are the cumulative displacements
    calls = [e for e in it2.events if e['tag'] == 'call' and e['callee'] == fl.qualname]
    for e in calls[:1]:
        a = e['args'][0] if e['args'] else e['kwargs'].get('vectors')
        g = a.geo if a is not None else None
        ok = g == ('FDIFF', 'CUM')
        ctx.ob(rule, fd, e['node'], True if ok else (None if g is None else False),
               'lengths of cumulative displacements' if ok else f'lengths are taken of {geo_text(g)}')


def check_volume_input(ctx):
    fi = ctx.fn('gemdat.volume.trajectory_to_volume')
    it = ctx.entry(fi.qualname)
    evs = uniq_events(it, {'digitize'}, under(fi.qualname))
    for e in evs:
        gs = all_geos(e['x'])
        ok = bool(gs) and all(is_frac(g) and g[1] == 'W' for g in gs)
        closed = any(is_frac(g) and g[1] == 'C' for g in gs)
        # the closed-wrap case is the same defect as R1 (reported there once)
        ctx.ob('R5', fi, e['node'], True if (ok or closed) else (None if not gs else False),
               'bins wrapped positions' if ok else ('bins positions wrapped by Trajectory.positions (see R1)' if closed else
                                                   f'bins {", ".join(geo_text(g) for g in gs)}'))
