"""C06 - MSD from Cartesian unwrapped displacements; metric distance; tracer diffusivity formula."""

from __future__ import annotations

import ast

from ..interp import cval, has_const
from ..source import norm_text
from .C01 import check_cumulative
from .formula import check_degree, check_label, label_obligations, match_mono
from .geo import all_geos, geo_text, kind_errors, under, uniq_events

TRAJ = 'gemdat.trajectory.Trajectory'
TM = 'gemdat.metrics.TrajectoryMetrics'


def check(ctx):
    ctx.doc('R1', 'mean_squared_displacement squares / transforms Cartesian unwrapped displacements only and reduces the '
                  'squared components by a sum over the xyz axis (result is a squared length)')
    ctx.doc('R2', 'distance from the start = metric length of the cumulative minimum-image displacement (as C01.R4)')
    ctx.doc('R3', 'tracer_diffusivity = mean over atoms of the squared final distance * angstrom^2 / (2 * dimensions * total_time)')
    ctx.floor('R1', 2)
    ctx.doc('K1', '[C20.R1] tracer diffusivity and the other metrics are served through weak_lru_cache: its cache must be keyed on weakref.ref(self) '
                  '(an id()-keyed cache hands a dead object\'s result to a new object at the same address)')
    from .C20 import check_decorator
    check_decorator(ctx, 'K1')
    ctx.floor('R3', 3)
    fi = ctx.fn(f'{TRAJ}.mean_squared_displacement')
    it = ctx.entry(fi.qualname)
    inside = under(fi.qualname)
    nerr = kind_errors(ctx, 'R1', it, inside)
    # the quantity transformed is Cartesian and comes from the cumulative displacements
    for e in uniq_events(it, {'to_cart'}, inside):
        g = e['arg'].geo if e['arg'] is not None else None
        ok = g == ('FDIFF', 'CUM')
        ctx.ob('R1', fi, e['node'], True if ok else (None if g is None else False),
               'unwrapped (cumulative) displacements converted to Cartesian' if ok else f'Cartesian conversion applied to {geo_text(g)}')
    if not uniq_events(it, {'to_cart'}, inside) and not nerr:
        ctx.ob('R1', fi, 'Cartesian conversion', None, 'no recognised conversion to Cartesian coordinates')
    gs = all_geos(it.result)
    if not nerr:
        ok = gs == {('DIST2',)}
        ctx.ob('R1', fi, 'return value', True if ok else (None if not gs else False),
               'squared length (sum of squared Cartesian components over xyz)' if ok else
               f'result is {", ".join(geo_text(g) for g in gs) or "of unknown kind"}, not a squared length')
    from .C18 import check_real_fft_lengths
    check_real_fft_lengths(ctx, 'R1', fi, what='mean squared displacement')
    # R2
    check_cumulative(ctx, rule='R2')
    # R3
    ft = ctx.fn(f'{TM}.tracer_diffusivity')
    it2 = ctx.entry(ft.qualname)
    res = it2.result
    ok, msg = match_mono(res.mono if res is not None else None, 0.5, {
        'angstrom': 2, r'mean\[[^\]]*\]\(len\^2\)': 1, 'n_frames': -1, 'time_step': -1, r'param:dimensions': -1})
    ctx.ob('R3', ft, 'return value', ok, msg if ok is not True else 'mean(d_final^2) * angstrom^2 / (2 * dimensions * n_frames * time_step)')
    # the mean runs over the last frame of distances_from_base_position
    idx_ok = None
    for e in uniq_events(it2, {'index'}, under(ft.qualname)):
        b = e['base']
        if b is not None and b.geo == ('DIST',) and e.get('items'):
            items = e['items']
            if len(items) == 2 and items[0].ty == 'slice' and has_const(items[1]):
                idx_ok = (cval(items[1]) == -1, e['node'])
            else:
                idx_ok = (None, e['node'])
    if idx_ok is None:
        ctx.ob('R3', ft, 'final-frame selection', None, 'selection of the final distances not recognised')
    else:
        ctx.ob('R3', ft, idx_ok[1], idx_ok[0], 'distance at the last frame for every atom' if idx_ok[0] else
               'the squared displacement is not taken at the final frame')
    label_obligations(ctx, 'R3', it2, under(ft.qualname))
