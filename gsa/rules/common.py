"""Helpers shared by the rule modules."""

from __future__ import annotations

import ast

from ..interp import cval, has_const
from ..source import AnalysisError, norm_text


def calls_in(fnode, pred=None):
    """Call nodes syntactically inside a function (not inside nested defs)."""
    out = []

    def walk(n):
        for c in ast.iter_child_nodes(n):
            if isinstance(c, (ast.FunctionDef, ast.AsyncFunctionDef, ast.Lambda, ast.ClassDef)):
                continue
            if isinstance(c, ast.Call) and (pred is None or pred(c)):
                out.append(c)
            walk(c)

    walk(fnode)
    return out


def walk_no_nested(node):
    todo = [node]
    while todo:
        n = todo.pop()
        yield n
        for c in ast.iter_child_nodes(n):
            if isinstance(c, (ast.FunctionDef, ast.AsyncFunctionDef, ast.Lambda, ast.ClassDef)) and c is not node:
                continue
            todo.append(c)


def attr_call_name(call):
    f = call.func
    if isinstance(f, ast.Attribute):
        return f.attr
    if isinstance(f, ast.Name):
        return f.id
    return None


def names_in(node):
    return {n.id for n in ast.walk(node) if isinstance(n, ast.Name)}


def enclosing(fnode, target, kinds):
    """Innermost ancestors of `target` (an ast node inside fnode) of the given kinds, outermost first."""
    path = []

    def rec(n, stack):
        if n is target:
            path.extend(stack)
            return True
        for c in ast.iter_child_nodes(n):
            if rec(c, stack + ([n] if isinstance(n, kinds) else [])):
                return True
        return False

    rec(fnode, [])
    return path


def parent_map(root):
    pm = {}
    for n in ast.walk(root):
        for c in ast.iter_child_nodes(n):
            pm[id(c)] = n
    return pm


def stmt_of(pm, node):
    n = node
    while n is not None and not isinstance(n, ast.stmt):
        n = pm.get(id(n))
    return n


def param_dep(fi, name):
    return f'param:{fi.name}.{name}'


def value(it, node):
    v = it.value_of(node)
    return v


def const_of(it, node):
    v = it.value_of(node)
    if v is not None and has_const(v):
        return True, cval(v)
    return False, None


def need(cond, msg):
    if not cond:
        raise AnalysisError(msg)


# ---------------------------------------------------------------------------- single-assignment inlining
def def_map(fnode):
    """Names bound exactly once in the function by `name = expr` (simple target, not augmented, not a loop target)."""
    counts, values = {}, {}
    for n in walk_no_nested(fnode):
        if isinstance(n, ast.Name) and isinstance(n.ctx, (ast.Store, ast.Del)):
            counts[n.id] = counts.get(n.id, 0) + 1
        if isinstance(n, ast.Assign) and len(n.targets) == 1 and isinstance(n.targets[0], ast.Name):
            values[n.targets[0].id] = n.value
        elif isinstance(n, ast.AnnAssign) and isinstance(n.target, ast.Name) and n.value is not None:
            values[n.target.id] = n.value
        elif isinstance(n, ast.AugAssign) and isinstance(n.target, ast.Name):
            counts[n.target.id] = counts.get(n.target.id, 0) + 1
    params = {a.arg for a in fnode.args.posonlyargs + fnode.args.args + fnode.args.kwonlyargs} if hasattr(fnode, 'args') else set()
    return {k: v for k, v in values.items() if counts.get(k, 0) == 1 and k not in params}


class _Expander(ast.NodeTransformer):
    def __init__(self, defs, depth, keep):
        self.defs, self.depth, self.keep = defs, depth, keep

    def visit_Name(self, node):
        if isinstance(node.ctx, ast.Load) and node.id in self.defs and node.id not in self.keep and self.depth > 0:
            import copy
            sub = copy.deepcopy(self.defs[node.id])
            return _Expander(self.defs, self.depth - 1, self.keep).visit(sub)
        return node


def expand(node, defs, depth=3, keep=()):
    """Copy of `node` with once-assigned local names replaced by their defining expressions."""
    import copy
    return ast.fix_missing_locations(_Expander(defs, depth, set(keep)).visit(copy.deepcopy(node)))
