"""Helpers shared by the rule modules."""

from __future__ import annotations

import ast

from ..interp import cval, has_const
from ..source import AnalysisError, norm_text


def calls_in(fnode, pred=None):
    """Call nodes syntactically inside a function (not inside nested defs)."""
    out = []

    def walk(n):
        for c in ast.iter_child_nodes(n):
            if isinstance(c, (ast.FunctionDef, ast.AsyncFunctionDef, ast.Lambda, ast.ClassDef)):
                continue
            if isinstance(c, ast.Call) and (pred is None or pred(c)):
                out.append(c)
            walk(c)

    walk(fnode)
    return out


def walk_no_nested(node):
    todo = [node]
    while todo:
        n = todo.pop()
        yield n
        for c in ast.iter_child_nodes(n):
            if isinstance(c, (ast.FunctionDef, ast.AsyncFunctionDef, ast.Lambda, ast.ClassDef)) and c is not node:
                continue
            todo.append(c)


def attr_call_name(call):
    f = call.func
    if isinstance(f, ast.Attribute):
        return f.attr
    if isinstance(f, ast.Name):
        return f.id
    return None


def names_in(node):
    return {n.id for n in ast.walk(node) if isinstance(n, ast.Name)}


def enclosing(fnode, target, kinds):
    """Innermost ancestors of `target` (an ast node inside fnode) of the given kinds, outermost first."""
    path = []

    def rec(n, stack):
        if n is target:
            path.extend(stack)
            return True
        for c in ast.iter_child_nodes(n):
            if rec(c, stack + ([n] if isinstance(n, kinds) else [])):
                return True
        return False

    rec(fnode, [])
    return path


def parent_map(root):
    pm = {}
    for n in ast.walk(root):
        for c in ast.iter_child_nodes(n):
            pm[id(c)] = n
    return pm


def stmt_of(pm, node):
    n = node
    while n is not None and not isinstance(n, ast.stmt):
        n = pm.get(id(n))
    return n


def param_dep(fi, name):
    return f'param:{fi.name}.{name}'


def value(it, node):
    v = it.value_of(node)
    return v


def const_of(it, node):
    v = it.value_of(node)
    if v is not None and has_const(v):
        return True, cval(v)
    return False, None


def need(cond, msg):
    if not cond:
        raise AnalysisError(msg)


# ---------------------------------------------------------------------------- single-assignment inlining
def def_map(fnode):
    """Names bound exactly once in the function by `name = expr` (simple target, not augmented, not a loop target)."""
    counts, values = {}, {}
    for n in walk_no_nested(fnode):
        if isinstance(n, ast.Name) and isinstance(n.ctx, (ast.Store, ast.Del)):
            counts[n.id] = counts.get(n.id, 0) + 1
        if isinstance(n, ast.Assign) and len(n.targets) == 1 and isinstance(n.targets[0], ast.Name):
            values[n.targets[0].id] = n.value
        elif isinstance(n, ast.AnnAssign) and isinstance(n.target, ast.Name) and n.value is not None:
            values[n.target.id] = n.value
        elif isinstance(n, ast.AugAssign) and isinstance(n.target, ast.Name):
            counts[n.target.id] = counts.get(n.target.id, 0) + 1
    params = {a.arg for a in fnode.args.posonlyargs + fnode.args.args + fnode.args.kwonlyargs} if hasattr(fnode, 'args') else set()
    return {k: v for k, v in values.items() if counts.get(k, 0) == 1 and k not in params}


class _Expander(ast.NodeTransformer):
    def __init__(self, defs, depth, keep):
        self.defs, self.depth, self.keep = defs, depth, keep

    def visit_Name(self, node):
        if isinstance(node.ctx, ast.Load) and node.id in self.defs and node.id not in self.keep and self.depth > 0:
            import copy
            sub = copy.deepcopy(self.defs[node.id])
            return _Expander(self.defs, self.depth - 1, self.keep).visit(sub)
        return node


def expand(node, defs, depth=3, keep=()):
    """Copy of `node` with once-assigned local names replaced by their defining expressions."""
    import copy
    return ast.fix_missing_locations(_Expander(defs, depth, set(keep)).visit(copy.deepcopy(node)))


# ---------------------------------------------------------------------------- symbolic return cases / linear forms
class _Unabbreviate(ast.NodeTransformer):
    def __init__(self, depth):
        self.depth = depth

    def visit_Name(self, node):
        from ..interp import SX_LONG
        if node.id in SX_LONG and self.depth > 0:
            try:
                sub = ast.parse(SX_LONG[node.id], mode='eval').body
            except SyntaxError:
                return node
            return _Unabbreviate(self.depth - 1).visit(sub)
        return node


def parse_sx(txt, full=False):
    """Expression tree of a symbolic text; with full=True abbreviated definitions (digests) are written out again."""
    if txt is None:
        return None
    try:
        tree = ast.parse(txt, mode='eval').body
    except SyntaxError:
        return None
    if full:
        tree = _Unabbreviate(6).visit(tree)
    return tree


def linear(node, atoms):
    """node == sum(coef[a] * a for a in atoms) + const, with literal coefficients: returns ({atom: coef}, const) or None.
    Atoms are matched by the canonical text of a sub-expression."""
    zero = {a: 0.0 for a in atoms}

    def lit(n):
        if isinstance(n, ast.Constant) and isinstance(n.value, (int, float)) and not isinstance(n.value, bool):
            return float(n.value)
        return None

    def lin(n):
        t = norm_text(n)
        if t in atoms:
            c = dict(zero)
            c[t] = 1.0
            return c, 0.0
        v = lit(n)
        if v is not None:
            return dict(zero), v
        if isinstance(n, ast.UnaryOp) and isinstance(n.op, (ast.USub, ast.UAdd)):
            a = lin(n.operand)
            if a is None:
                return None
            s = -1.0 if isinstance(n.op, ast.USub) else 1.0
            return {k: s * x for k, x in a[0].items()}, s * a[1]
        if isinstance(n, ast.BinOp):
            a, b = lin(n.left), lin(n.right)
            if a is None or b is None:
                return None
            if isinstance(n.op, (ast.Add, ast.Sub)):
                s = 1.0 if isinstance(n.op, ast.Add) else -1.0
                return {k: a[0][k] + s * b[0][k] for k in atoms}, a[1] + s * b[1]
            if isinstance(n.op, ast.Mult):
                if not any(a[0].values()):
                    return {k: a[1] * b[0][k] for k in atoms}, a[1] * b[1]
                if not any(b[0].values()):
                    return {k: b[1] * a[0][k] for k in atoms}, a[1] * b[1]
                return None
            if isinstance(n.op, ast.Div) and not any(b[0].values()) and b[1] != 0:
                return {k: a[0][k] / b[1] for k in atoms}, a[1] / b[1]
        return None

    return lin(node)


def _split_cases(expr, conds):
    if isinstance(expr, ast.IfExp):
        return _split_cases(expr.body, conds + [(expr.test, True)]) + _split_cases(expr.orelse, conds + [(expr.test, False)])
    return [(conds, expr)]


def _atomic(conds):
    """Push polarities through `not`, and split and/or where they decompose into a conjunction."""
    out = []
    for t, pol in conds:
        while isinstance(t, ast.UnaryOp) and isinstance(t.op, ast.Not):
            t, pol = t.operand, not pol
        if isinstance(t, ast.BoolOp) and ((isinstance(t.op, ast.And) and pol) or (isinstance(t.op, ast.Or) and not pol)):
            out.extend(_atomic([(v, pol) for v in t.values]))
        else:
            out.append((t, pol))
    return out


def return_cases(it, fi, cfg):
    """Every way the function returns a value: list of (return statement, [(condition expr, polarity)], value expr), with the
    conditions and values given as expressions over the function's inputs (local names replaced by what they stand for)."""
    out = []
    for nid, r in cfg.returns():
        if r.value is None:
            continue
        conds = []
        for t, pol in cfg.guards(nid):
            e = parse_sx(it.sx(t), full=True)
            if e is not None:
                conds.append((e, pol))
        v = parse_sx(it.sx(r.value), full=True)
        if v is None:
            out.append((r, _atomic(conds), None))
            continue
        for cs, e in _split_cases(v, conds):
            out.append((r, _atomic(cs), e))
    return out


_NEG = {ast.Lt: ast.GtE, ast.LtE: ast.Gt, ast.Gt: ast.LtE, ast.GtE: ast.Lt}


def nonneg_form(test, pol, atoms):
    """A comparison (with polarity) as `sum(coef * atom) + const >= 0` (strictness ignored): ({atom: coef}, const) or None."""
    if not (isinstance(test, ast.Compare) and len(test.ops) == 1):
        return None
    op = type(test.ops[0])
    if op not in _NEG:
        return None
    if not pol:
        op = _NEG[op]
    a, b = linear(test.left, atoms), linear(test.comparators[0], atoms)
    if a is None or b is None:
        return None
    d = {k: a[0][k] - b[0][k] for k in atoms}, a[1] - b[1]  # left - right
    if op in (ast.Lt, ast.LtE):  # left - right <= 0  ->  right - left >= 0
        d = {k: -x for k, x in d[0].items()}, -d[1]
    return d


def bound_args(fi, args, kwargs, skip_self=False):
    """Parameter name -> abstract value for a recorded call (positional, keyword and **mapping arguments resolved)."""
    a = fi.node.args
    params = [x.arg for x in a.posonlyargs + a.args]
    if skip_self or (fi.cls is not None and not fi.is_staticmethod and params):
        params = params[1:]
    out = {}
    pos = list(args or [])
    kw = dict(kwargs or {})
    star = kw.pop('**', None)
    for p in params + [x.arg for x in a.kwonlyargs]:
        if pos and p in params:
            out[p] = pos.pop(0)
        elif p in kw:
            out[p] = kw[p]
        elif star is not None and star.kw and p in star.kw:
            out[p] = star.kw[p]
    return out


# ---------------------------------------------------------------------------- guard facts (conditions under which a statement runs)
def _conj(expr, pol):
    """(expr, pol) as a list of atoms whose conjunction it implies / equals where decomposable."""
    if isinstance(expr, ast.UnaryOp) and isinstance(expr.op, ast.Not):
        return _conj(expr.operand, not pol)
    if isinstance(expr, ast.BoolOp):
        if (isinstance(expr.op, ast.And) and pol) or (isinstance(expr.op, ast.Or) and not pol):
            out = []
            for v in expr.values:
                out += _conj(v, pol)
            return out
    if isinstance(expr, ast.Call) and isinstance(expr.func, ast.Name) and expr.func.id == 'bool' and len(expr.args) == 1:
        return _conj(expr.args[0], pol)
    return [(expr, pol)]


def guard_facts(ctx, it, qual, node, depth=3, _seen=None):
    """Facts that hold whenever `node` (inside function `qual`) executes: list of (value, polarity, expr, function qualname),
    plus a flag telling whether every guard was decomposed into such facts. A guard that is a call of a package predicate is
    replaced by the facts under which that predicate returns a true value."""
    cfg = ctx.cfg(qual)
    nid = cfg.node_of(node)
    facts, complete = [], True
    if nid is None:
        return facts, False
    defs = def_map(ctx.p.functions[qual].node) if qual in ctx.p.functions else {}
    atoms = []
    for expr, pol in cfg.guards(nid):
        atoms += _conj(expr, pol)
    work = list(atoms)
    while work:
        expr, pol = work.pop(0)
        # a name standing for a boolean expression
        if isinstance(expr, ast.Name) and expr.id in defs and isinstance(defs[expr.id], (ast.BoolOp, ast.UnaryOp, ast.Compare, ast.Call)):
            sub = _conj(defs[expr.id], pol)
            if not (len(sub) == 1 and sub[0][0] is defs[expr.id] and not isinstance(defs[expr.id], (ast.Compare, ast.Call))):
                work = sub + work
                continue
        fv = it.value_of(expr.func) if isinstance(expr, ast.Call) else None
        if fv is not None and fv.ty == 'func' and fv.fn is not None and fv.fn.qualname in ctx.p.functions:
            callee = fv.fn
            key = (callee.qualname, pol)
            if depth <= 0 or (_seen and key in _seen):
                complete = False
                continue
            sub, ok = predicate_facts(ctx, it, callee, pol, depth - 1, (_seen or set()) | {key})
            facts += sub
            complete = complete and ok
            continue
        facts.append((it.value_of(expr), pol, expr, qual))
    return facts, complete


def predicate_facts(ctx, it, callee, pol, depth, seen):
    """Facts implied by `callee(...)` evaluating to a true (pol=True) or false (pol=False) value."""
    cfg = ctx.cfg(callee.qualname)
    rets = [(nid, r) for nid, r in cfg.returns() if r.value is not None]

    def konst(r):
        v = r.value
        if isinstance(v, ast.Constant) and isinstance(v.value, (bool, type(None))):
            return bool(v.value)
        return None
    want = [(nid, r) for nid, r in rets if konst(r) is None or konst(r) == pol]
    if len(want) != 1:
        return [], False
    nid, r = want[0]
    facts, ok = guard_facts(ctx, it, callee.qualname, r, depth, seen)
    if konst(r) is None:
        for expr, p in _conj(r.value, pol):
            fv = it.value_of(expr.func) if isinstance(expr, ast.Call) else None
            if fv is not None and fv.ty == 'func' and fv.fn is not None and fv.fn.qualname in ctx.p.functions and depth > 0:
                sub, ok2 = predicate_facts(ctx, it, fv.fn, p, depth - 1, seen | {(fv.fn.qualname, p)})
                facts += sub
                ok = ok and ok2
            else:
                facts.append((it.value_of(expr), p, expr, callee.qualname))
    return facts, ok


def linear_atoms(node):
    """node as sum(coef * atom) + const where an atom is any maximal sub-expression that is not itself a sum, difference or
    scaling by a literal: ({atom text: coef}, const). Never fails."""
    def lit(n):
        if isinstance(n, ast.Constant) and isinstance(n.value, (int, float)) and not isinstance(n.value, bool):
            return float(n.value)
        return None

    def lin(n):
        v = lit(n)
        if v is not None:
            return {}, v
        if isinstance(n, ast.UnaryOp) and isinstance(n.op, (ast.USub, ast.UAdd)):
            a, c = lin(n.operand)
            s = -1.0 if isinstance(n.op, ast.USub) else 1.0
            return {k: s * x for k, x in a.items()}, s * c
        if isinstance(n, ast.BinOp):
            if isinstance(n.op, (ast.Add, ast.Sub)):
                (a, ca), (b, cb) = lin(n.left), lin(n.right)
                s = 1.0 if isinstance(n.op, ast.Add) else -1.0
                out = dict(a)
                for k, x in b.items():
                    out[k] = out.get(k, 0.0) + s * x
                return out, ca + s * cb
            if isinstance(n.op, ast.Mult):
                for x, y in ((n.left, n.right), (n.right, n.left)):
                    v = lit(x)
                    if v is not None:
                        a, c = lin(y)
                        return {k: v * w for k, w in a.items()}, v * c
            if isinstance(n.op, ast.Div) and lit(n.right) not in (None, 0.0):
                a, c = lin(n.left)
                v = lit(n.right)
                return {k: w / v for k, w in a.items()}, c / v
        return {norm_text(n): 1.0}, 0.0
    atoms, c = lin(node)
    return {k: v for k, v in atoms.items() if v != 0}, c


def absent(it, *quals):
    """Verdict for "the required construct was not found under the functions `quals`": False (a definite violation) only when
    everything executed there was understood; None (undecided) when some call or attribute under them could not be resolved,
    because the construct may hide in what was not understood."""
    for what, fn, _line in it.notes:
        if fn is None or not (what.startswith('call of unknown callee') or what.startswith('unknown attribute') or what.startswith('unmodelled')):
            continue
        if any(fn == q or fn.startswith(q + '.') for q in quals):
            return None
    # helpers evaluated while one of the functions was on the stack
    under_ = set()
    for e in it.events:
        c = e['ctx']
        if any(q in c for q in quals):
            under_.update(c)
    for what, fn, _line in it.notes:
        if fn in under_ and (what.startswith('call of unknown callee') or what.startswith('unknown attribute') or what.startswith('unmodelled')):
            return None
    return False
