"""C05 - bookkeeping: NOSITE never indexes, jump diffusivity formula, occupancy normalisation, graph/counter tables."""

from __future__ import annotations

import ast

from ..interp import cval, has_const
from ..source import norm_text
from .formula import check_label, label_obligations, match_mono
from .geo import kind_errors, under, uniq_events

TR = 'gemdat.transitions.Transitions'
JU = 'gemdat.jumps.Jumps'
CO = 'gemdat.collective.Collective'


def _kind_tainted(m):
    if m is None:
        return False
    if m[0] == 'SITE':
        return len(m) > 1 and bool(m[1])
    if m[0] == 'MIX':
        # arithmetic on site numbers (row * n + column): the marker -1 survives inside the combined number
        return any(_kind_tainted(x) for x in m[1:] if isinstance(x, tuple))
    return False


def tainted(av):
    if av is None or av.idx is None:
        return False
    members = av.idx[1] if av.idx[0] == 'JOIN' else {av.idx}
    return any(_kind_tainted(m) for m in members)


def declare_jumps_clean(ctx, it):
    """Assumption (DESIGN C05.R1): the destination column of Jumps.data never holds NOSITE."""
    ctx.assume("Jumps.data['destination site'] never holds the NOSITE marker (arrivals are recorded only inside an inner "
               "site, or at an outer site different from where the departure led; relies on inner site => outer site, C02.R3). "
               "Jumps.data['start site'] is derived clean from the departure guard (C04.R3), not assumed.")


def index_sinks(ctx, rule, it, start, label):
    """Violations for every subscript / fancy store whose index may be the NOSITE marker, among events[start:]."""
    seen = set()
    n = 0
    for e in it.events[start:]:
        if e['tag'] == 'index':
            base = e['base']
            items = e.get('items') or [e['index']]
            if base is None or base.ty in ('dict', 'DataFrame', 'Row', 'Series'):
                continue
        elif e['tag'] == 'store' and e['kind'] in ('sub', 'aug'):
            base = e['base']
            idx = e['index']
            if base is None or idx is None or base.ty in ('dict', 'DataFrame', 'Row'):
                continue
            items = idx.elts if (idx.ty == 'tuple' and idx.elts is not None) else [idx]
        else:
            continue
        if e['where'] is None or id(e['node']) in seen:
            continue
        n += 1
        bad = [x for x in items if tainted(x)]
        if bad:
            seen.add(id(e['node']))
            ctx.ob(rule, e['where'], e['node'], False,
                   f'({label}) a site index that can be the NOSITE marker (-1) selects an element: -1 silently addresses the '
                   f'last row/column/label instead of "no site"')
    return n


def check(ctx):
    ctx.doc('R1', 'no value that can be the NOSITE marker is used as a subscript / fancy-store position (taint from states, '
                  'event site columns; sanitiser = mask against NOSITE on the same array)')
    ctx.doc('R2', 'jump diffusivity = sum(d_ij^2 * n_ij) * angstrom^2 / (2 * dimensions * n_floating * total_time), unit m^2 s^-1, '
                  'distances from the periodic distance matrix of the sites')
    ctx.doc('R3', 'occupancy = state counts / number of frames; atom_locations divides by the number of diffusing atoms; '
                  'the label counter aggregates the index counter through labels[i], labels[j]')
    ctx.doc('R4', 'the jump graph has one node per site index and edges only from the index counter keys')
    ctx.floor('R1', 6, 'consumers of site indices')
    ctx.floor('R2', 2)
    ctx.floor('R3', 3)
    ctx.include('C19', 'P', only=('R3',))   # rates / activation energies aggregate the counters of Jumps.split parts: the parts must use the same settings
    it = ctx.pipeline()
    declare_jumps_clean(ctx, it)
    tr, ju = it.transitions, it.jumps
    consumers = [
        (tr, 'matrix', {}), (ju, 'matrix', {}), (ju, '_counter', {}), (ju, 'counter', {}), (ju, 'to_graph', {}),
        (ju, 'collective', {}), (ju, 'jump_diffusivity', {}), (tr, 'occupancy', {}),
    ]
    results = {}
    for obj, name, kw in consumers:
        start = len(it.events)
        r = ctx.method_on(it, obj, name, **kw)
        results[(obj.cls, name)] = (r, start, len(it.events))
        fi = ctx.p.find_method(ctx.p.classes[obj.cls], name)
        n = index_sinks(ctx, 'R1', it, start, f'{obj.cls.split(".")[-1]}.{name}')
        if not any(o.function and o.rule.endswith('R1') and o.status == 'violated' and o.detail.startswith(f'({obj.cls.split(".")[-1]}.{name})') for o in ctx.obs):
            ctx.ob('R1', fi, f'{obj.cls.split(".")[-1]}.{name}: {n} subscript / store sites', True, 'no index can be the NOSITE marker')
    # collective consumers
    coll = results[(JU, 'collective')][0]
    if coll is not None and coll.ty == 'obj':
        for name in ('site_pair_count_matrix', 'multiple_collective'):
            start = len(it.events)
            ctx.method_on(it, coll, name)
            n = index_sinks(ctx, 'R1', it, start, f'Collective.{name}')
            fi = ctx.p.find_method(ctx.p.classes[CO], name)
            if not any(o.rule.endswith('R1') and o.status == 'violated' and o.detail.startswith(f'(Collective.{name})') for o in ctx.obs):
                ctx.ob('R1', fi, f'Collective.{name}: {n} subscript / store sites', True, 'no index can be the NOSITE marker')
    # plots and rdf that index by site
    for q in ('gemdat.plots.matplotlib._jumps_3d_animation.jumps_3d_animation', 'gemdat.plots.matplotlib._jumps_3d.jumps_3d',
              'gemdat.plots.plotly._jumps_3d.jumps_3d', 'gemdat.plots.matplotlib._jumps_vs_distance.jumps_vs_distance',
              'gemdat.plots.plotly._jumps_vs_distance.jumps_vs_distance'):
        fi = ctx.p.functions.get(q)
        if fi is None:
            continue
        start = len(it.events)
        try:
            it.call_function(fi, [], {'jumps': ju}, it.state, node=None, symbolic_missing=True)
        except Exception as exc:  # plots use libraries outside the model
            ctx.ob('R1', fi, q.split('.')[-1], None, f'plot consumer could not be interpreted: {exc}')
            continue
        n = index_sinks(ctx, 'R1', it, start, q.split('.')[-1])
        if not any(o.rule.endswith('R1') and o.status == 'violated' and o.detail.startswith(f'({q.split(".")[-1]})') for o in ctx.obs):
            ctx.ob('R1', fi, f'{q.split(".")[-2]}.{q.split(".")[-1]}: {n} subscript / store sites', True, 'no index can be the NOSITE marker')

    # ---- R2
    kind_errors(ctx, 'R2', it, under(f'{JU}.jump_diffusivity'), strict=True)
    fj = ctx.fn(f'{JU}.jump_diffusivity')
    r, s0, s1 = results[(JU, 'jump_diffusivity')]
    ok, msg = match_mono(r.mono if r is not None else None, 0.5, {
        'angstrom': 2, r'sum\[[^\]]*\]\((count\*len\^2|len\^2\*count)\)': 1, 'n_atoms': -1, 'n_frames': -1, 'time_step': -1,
        'param:dimensions': -1})
    ctx.ob('R2', fj, 'return value', ok, 'sum(n_ij d_ij^2) angstrom^2 / (2 dimensions n_floating total_time)' if ok else msg)
    for e in it.events[s0:s1]:
        if e['tag'] == 'float_with_unit' and e['where'] is not None and e['where'].qualname == fj.qualname:
            okl, msgl = check_label(e['value'].mono if e['value'] is not None else None, e['label'])
            ctx.ob('R2', fj, e['node'], okl, msgl)
        if e['tag'] == 'pbc_distance' and e['where'] is not None and e['where'].qualname == fj.qualname:
            a, b = e['a'], e['b']
            oka = a is not None and b is not None and a.of_struct and b.of_struct
            ctx.ob('R2', fj, e['node'], True if oka else None, 'minimum-image distances between the jump sites')
    # the counts multiplied are the jump matrix of the same object
    muls = [n for n in ast.walk(fj.node) if isinstance(n, ast.BinOp) and isinstance(n.op, ast.Mult)]
    has_matrix = any('self.matrix()' in norm_text(n) for n in muls)
    if not has_matrix:
        # through temporaries / np.dot: the symbolic text of the product names the jump matrix of the same object
        prods = muls + [n for n in ast.walk(fj.node) if isinstance(n, ast.Call) and norm_text(n.func).split('.')[-1] in ('dot', 'matmul', 'vdot', 'inner', 'einsum', 'multiply')]
        has_matrix = any('self.matrix()' in (it.sx(n) or '') and ('get_all_distances' in (it.sx(n) or '') or 'H' in (it.sx(n) or '')) for n in prods)
    ctx.ob('R2', fj, 'pdist ** 2 * self.matrix()', True if has_matrix else None, 'squared distances weighted by the jump counts')

    # ---- R3 occupancy
    fo = ctx.fn(f'{TR}.occupancy')
    r, s0, s1 = results[(TR, 'occupancy')]
    div = None
    from .C04 import functions_under
    from .geo import _helper_like
    for f_ in [fo] + [x for x in functions_under(it, fo.qualname, ctx.p) if x is not fo and _helper_like(x.qualname)]:
        for n in ast.walk(f_.node):
            if isinstance(n, ast.BinOp) and isinstance(n.op, ast.Div):
                v = it.value_of(n)
                l, rr = it.value_of(n.left), it.value_of(n.right)
                if l is not None and (l.counts_of is not None or l.bincount_of is not None) and div is None:
                    div = (n, l, rr)
    # a fixed number of leading / trailing entries of the np.unique output must not be cut off anywhere on the way
    seen_ps = set()
    for f_ in [fo] + [x for x in functions_under(it, fo.qualname, ctx.p) if x is not fo and _helper_like(x.qualname)]:
        for sub in ast.walk(f_.node):
            if isinstance(sub, ast.Subscript) and id(sub) not in seen_ps:
                v_ = it.value_of(sub)
                if v_ is not None and v_.positional_slice and (v_.counts_of is not None or v_.unique_of is not None) and not (div is not None and sub is div[0].left):
                    seen_ps.add(id(sub))
                    ctx.ob('R3', f_, sub, False, 'a fixed number of entries of the np.unique output is discarded by position: which state that is depends '
                                                 'on the data (the NOSITE entry exists only when some atom is off-site), so a real site can lose its occupancy')
    if div is None:
        ctx.ob('R3', fo, 'counts / frames', None, 'normalisation of the state counts not recognised')
    else:
        n, l, rr = div
        if l.positional_slice:
            ctx.ob('R3', fo, n.left, False, 'a fixed number of leading entries of the np.unique output is discarded: which state that is depends '
                                            'on the data (the NOSITE entry exists only when some atom is off-site), so a real site can lose its occupancy')
        m = rr.mono if rr is not None else None
        ok = m is not None and set(m.atoms) == {'n_frame'} and rr.lenof is not None
        if rr is not None and rr.sizeof is not None:
            m = m or 'the total number of array elements (frames x atoms)'
        ctx.ob('R3', fo, n, True if ok else (False if m is not None else None),
               'state counts divided by the number of frames' if ok else
               f'counts are divided by {m.text() if hasattr(m, "text") else m}, not by the number of frames')
        src = l.counts_of if l.counts_of is not None else l.bincount_of
        oks = src is not None and src.idx is not None and src.idx[0] == 'SITE'
        ctx.ob('R3', fo, 'np.unique(states, return_counts=True)', True if oks else None, 'counts of the site states')
    fa = ctx.fn(f'{TR}.atom_locations')
    divs = [n for n in ast.walk(fa.node) if isinstance(n, ast.BinOp) and isinstance(n.op, ast.Div)]
    names = {}
    for n in ast.walk(fa.node):
        if isinstance(n, ast.Assign) and len(n.targets) == 1 and isinstance(n.targets[0], ast.Name):
            names[n.targets[0].id] = norm_text(n.value)
    ita = ctx.entry(fa.qualname)
    for n in divs:
        rt = ita.sx(n.right)
        is_sum = isinstance(n.left, ast.Call) and norm_text(n.left.func) == 'sum' and len(n.left.args) == 1
        lv_ = ita.cur(n.left)
        if not is_sum and lv_ is not None and lv_.summed:
            is_sum = True  # an entry of a per-label accumulation (d[label] += x)
        ok = rt == 'self.n_floating' and is_sum
        ctx.ob('R3', fa, n, True if ok else (False if is_sum else None),
               'summed site occupancies divided by the number of diffusing atoms' if ok else f'divided by {rt}')
    # label counter: a counting dict keyed by (label of the origin, label of the destination) that adds the counts up
    fc = ctx.fn(f'{JU}.counter')
    rc = results[(JU, 'counter')][0]
    ke = rc.keyelem if rc is not None else None
    if rc is None or rc.ty != 'dict' or ke is None or ke.elts is None or len(ke.elts) != 2:
        ctx.ob('R3', fc, 'label counter', None, 'aggregation of the jumps by site labels not recognised')
    else:
        cols = [(e.of_index.col if e.of_index is not None else None) for e in ke.elts]
        if not all(e.label for e in ke.elts) or None in cols:
            ctx.ob('R3', fc, 'label counter', None, 'keys of the label counter are not recognised as site labels of jump sites')
        elif cols != ['start site', 'destination site']:
            ctx.ob('R3', fc, 'label counter', False, f'the label counter is keyed by the labels of ({cols[0]}, {cols[1]}) instead of (origin, destination)')
        elif rc.overwrite:
            ctx.ob('R3', fc, 'label counter', False, 'label pairs are not unique per index pair (several sites share a label): counts of index pairs '
                                                      'that share a label pair overwrite each other instead of adding up')
        else:
            ctx.ob('R3', fc, 'label counter', True if rc.accum else None,
                   'label pair (origin, destination) accumulates the jump counts' if rc.accum else 'accumulation of the counts not recognised')

    # the matrices count the right table
    for cls, attr, what in ((JU, 'data', 'jumps'), (TR, 'events', 'transition events')):
        fm = ctx.fn(f'{cls}.matrix')
        r, s0, s1 = results[(cls, 'matrix')]
        calls = [e for e in it.events[s0:s1] if e['tag'] == 'call' and e['callee'] == 'gemdat.transitions._calculate_transitions_matrix'
                 and e['where'] is not None and e['where'].qualname == fm.qualname]
        if not calls:
            ctx.ob('R3', fm, 'matrix', None, 'matrix helper call not recognised')
            continue
        e = calls[0]
        a = e['args'][0] if e['args'] else e['kwargs'].get('events')
        want = f'attr:{cls.split(".")[-1]}.{attr}'
        ok = a is not None and a.store == want
        ctx.ob('R3', fm, e['node'], True if ok else (False if a is not None and a.store else None),
               f'counts the {what} of this object' if ok else f'the matrix is built from {a.store if a is not None else "?"} instead of the {what}')
        ns = e['kwargs'].get('n_sites') or (e['args'][1] if len(e['args']) > 1 else None)
        okn = ns is not None and ns.mono is not None and set(ns.mono.atoms) == {'n_sites'}
        ctx.ob('R3', fm, f'{cls.split(".")[-1]}.matrix n_sites', True if okn else None, 'square matrix over all sites')

    # ---- R4 graph
    fg = ctx.fn(f'{JU}.to_graph')
    r, s0, s1 = results[(JU, 'to_graph')]
    nodes = [e for e in it.events[s0:s1] if e['tag'] == 'graph_add_node' and e['where'].qualname == fg.qualname]
    edges = [e for e in it.events[s0:s1] if e['tag'] == 'graph_add_edge' and e['where'].qualname == fg.qualname]
    if nodes:
        k = nodes[0]['key']
        ok = k is not None and k.idx is not None and k.idx[0] == 'SITE'
        ctx.ob('R4', fg, nodes[0]['node'], True if ok else None, 'one node per site index')
    else:
        ctx.ob('R4', fg, 'add_node', None, 'node insertion not found')
    if edges:
        e = edges[0]
        oku = all(x is not None and x.idx is not None and x.idx[0] == 'SITE' and not tainted(x) for x in (e['u'], e['v']))
        ctx.ob('R4', fg, e['node'], True if oku else None, 'edges between the site indices of the counter keys')
    else:
        ctx.ob('R4', fg, 'add_edge', None, 'edge insertion not found')
