"""C12 - collective jumps: sorted-scan exit, same-atom / window guards, pair-once loop, distances, window degree."""

from __future__ import annotations

import ast

from ..interp import cval, has_const
from ..source import norm_text
from .common import def_map, expand, parent_map, stmt_of, walk_no_nested
from .formula import check_degree
from .geo import kind_errors, pbc_distance_obligations, uniq_events

COMP = 'gemdat.collective.Collective._compute'
JC = 'gemdat.jumps.Jumps.collective'


def row_cols(test, var):
    """Column names of `var[...]` reads inside an expression."""
    out = []
    for n in ast.walk(test):
        if isinstance(n, ast.Subscript) and isinstance(n.value, ast.Name) and n.value.id == var and isinstance(n.slice, ast.Constant):
            out.append(n.slice.value)
    return out


def sorted_scans(ctx, fi, it):
    """(for-loop node, loop var, sort keys) for loops over `<frame>.iterrows()` of a frame with a known sort order."""
    out = []
    for n in ast.walk(fi.node):
        if isinstance(n, ast.For) and isinstance(n.iter, ast.Call) and isinstance(n.iter.func, ast.Attribute) and n.iter.func.attr == 'iterrows':
            fr = it.value_of(n.iter.func.value)
            keys = fr.sorted_by if fr is not None else None
            var = None
            if isinstance(n.target, ast.Tuple) and len(n.target.elts) == 2 and isinstance(n.target.elts[1], ast.Name):
                var = n.target.elts[1].id
            out.append((n, var, keys, fr))
    return out


def check_scan_exits(ctx, rule, fi, it):
    cfg = ctx.cfg(fi.qualname)
    pm = parent_map(fi.node)
    scans = sorted_scans(ctx, fi, it)
    n_ob = 0
    for loop, var, keys, fr in scans:
        breaks = [b for b in walk_no_nested(loop) if isinstance(b, ast.Break)]
        # only breaks whose innermost loop is this loop
        own = []
        for b in breaks:
            p = pm.get(id(b))
            while p is not None and not isinstance(p, (ast.For, ast.While)):
                p = pm.get(id(p))
            if p is loop:
                own.append(b)
        if not own:
            n_ob += 1
            ctx.ob(rule, fi, f'scan over {norm_text(loop.iter)}', True, 'no early exit: every later row is examined')
            continue
        for b in own:
            n_ob += 1
            nid = cfg.node_of(b)
            guards = [g for g in cfg.guards(nid) if any(isinstance(x, ast.Name) and x.id == var for x in ast.walk(g[0]))]
            # the test that directly decides the break
            st = pm.get(id(b))
            test = st.test if isinstance(st, ast.If) else None
            if test is not None:
                test = expand(test, def_map(fi.node), keep=(var,))
            if test is None or var is None:
                ctx.ob(rule, fi, b, None, 'break not directly guarded by a test on the scanned row')
                continue
            cols = row_cols(test, var)
            if keys is None:
                ctx.ob(rule, fi, test, None, 'sort order of the scanned frame unknown')
                continue
            if not cols:
                ctx.ob(rule, fi, test, None, 'exit test does not read the scanned row')
                continue
            primary = keys[0]
            wrong = [c for c in cols if c != primary]
            if wrong:
                ctx.ob(rule, fi, test, False,
                       f"the scan leaves the loop when `{norm_text(test)}`, but the rows are sorted by {list(keys)}: "
                       f"'{wrong[0]}' is not the primary sort key, so a later row can still satisfy the window and is skipped "
                       f'(pairs are missed)')
                continue
            # monotone direction: ascending order -> exit when the row's key exceeds a bound
            asc = fr.sort_asc is not False
            ok_dir = None
            if isinstance(test, ast.Compare) and len(test.ops) == 1:
                op = test.ops[0]
                left_has = bool(row_cols(test.left, var))
                right_has = bool(row_cols(test.comparators[0], var))
                # row key on the larger side of the inequality
                grows = (left_has and isinstance(op, (ast.Gt, ast.GtE))) or (right_has and isinstance(op, (ast.Lt, ast.LtE)))
                minus = any(isinstance(x, ast.BinOp) and isinstance(x.op, ast.Sub) and row_cols(x.right, var) for x in ast.walk(test))
                if minus:
                    grows = not grows
                ok_dir = grows if asc else not grows
            ctx.ob(rule, fi, test, ok_dir, f"exit on the primary sort key '{primary}' in the direction of the sort" if ok_dir else
                   'exit test runs against the sort direction: all later rows are skipped although they qualify')
    return n_ob


def check(ctx):
    ctx.doc('R1', 'an early `break` in a scan over rows sorted by keys K may only test the primary key K[0] of the scanned row, in '
                  'the monotone direction (sound early exit)')
    ctx.doc('R2', 'recording a pair is dominated by the failed same-atom test and the failed forward window test')
    ctx.doc('R3', 'the inner scan starts after the outer row (each unordered pair once)')
    ctx.doc('R4', 'minimum-image distances between origin/destination sites of both jumps; a pair is collective when any distance < cut-off')
    ctx.doc('R5', 'the correlation window ceil(1 / (attempt frequency * time step)) is dimensionless; solo = total - collective')
    ctx.floor('R1', 2, 'Collective._compute and the animation update loop')
    ctx.floor('R2', 2)
    ctx.floor('R3', 1)
    ctx.floor('R4', 2)
    ctx.floor('R5', 2)
    it = ctx.pipeline()
    ju = it.jumps
    start = len(it.events)
    coll = ctx.method_on(it, ju, 'collective')
    fi = ctx.fn(COMP)
    n1 = check_scan_exits(ctx, 'R1', fi, it)
    # second instance of the template: the animation loop
    q = 'gemdat.plots.matplotlib._jumps_3d_animation.jumps_3d_animation'
    if q in ctx.p.functions:
        fa = ctx.p.functions[q]
        ita = ctx.entry(q)
        upd = ctx.p.functions.get(q + '.<locals>.update')
        if upd is not None:
            # evaluate the nested function so that its loop is seen
            clos = None
            for e in ita.events:
                pass
            check_scan_exits_nested(ctx, 'R1', fa, upd, ita)

    # ---- R2 / R3
    cfg = ctx.cfg(COMP)
    appends = [n for n in walk_no_nested(fi.node) if isinstance(n, ast.Call) and isinstance(n.func, ast.Attribute) and n.func.attr == 'append'
               and norm_text(n.func.value) == 'collective']
    loops = sorted_scans(ctx, fi, it)
    inner = loops[-1] if len(loops) >= 2 else None
    outer = loops[0] if len(loops) >= 2 else None
    if not appends or inner is None:
        ctx.ob('R2', fi, 'collective.append', None, 'pair recording not recognised')
    else:
        vi, vj = outer[1], inner[1]
        for a in appends:
            g = cfg.guards(cfg.node_of(a))
            same_atom = False
            window = False
            dist = False
            defs = def_map(fi.node)
            for expr, pol in g:
                expr = expand(expr, defs, keep=(vi, vj))
                t = norm_text(expr).replace(' ', '')
                if isinstance(expr, ast.Compare) and len(expr.ops) == 1:
                    cols_i, cols_j = row_cols(expr, vi), row_cols(expr, vj)
                    if cols_i == ['atom index'] and cols_j == ['atom index']:
                        if (isinstance(expr.ops[0], ast.Eq) and pol is False) or (isinstance(expr.ops[0], ast.NotEq) and pol is True):
                            same_atom = True
                    # forward window: start_j - stop_i > max_steps is False
                    if isinstance(expr.left, ast.BinOp) and isinstance(expr.left.op, ast.Sub):
                        l, r = expr.left.left, expr.left.right
                        if row_cols(l, vj) == ['start time'] and row_cols(r, vi) == ['stop time'] and 'max_steps' in norm_text(expr.comparators[0]):
                            if (isinstance(expr.ops[0], (ast.Gt, ast.GtE)) and pol is False) or (isinstance(expr.ops[0], (ast.Lt, ast.LtE)) and pol is True):
                                window = True
            ctx.ob('R2', fi, a, same_atom, 'pairs of the same atom are excluded' if same_atom else
                   'a pair can be recorded for two jumps of the same atom (the same-atom test does not dominate the append)')
            ctx.ob('R2', fi, norm_text(a) + ' [window]', window, 'pairs outside the correlation window are excluded' if window else
                   'a pair can be recorded although the later jump starts more than the window after the earlier one stops')
        # R3 inner iterates events[i + 1:]
        src = inner[0].iter.func.value
        t = norm_text(src).replace(' ', '')
        oi = outer[0].target.elts[0].id if isinstance(outer[0].target, ast.Tuple) and isinstance(outer[0].target.elts[0], ast.Name) else None
        ok = oi is not None and t.endswith(f'[{oi}+1:]')
        ctx.ob('R3', fi, src, True if ok else (False if oi is not None and t.endswith(f'[{oi}:]') else None),
               'inner scan starts at the row after the outer one' if ok else
               'the inner scan includes the outer row itself / earlier rows: pairs are reported twice or a jump is paired with itself')
    # ---- R4
    kind_errors(ctx, 'R4', it, lambda f: f.qualname == COMP, strict=True)
    ev = [e for e in it.events[start:] if e['tag'] == 'pbc_distance' and e['where'] is not None and e['where'].qualname == COMP]
    seen = set()
    for e in ev:
        if id(e['node']) in seen:
            continue
        seen.add(id(e['node']))
        a, b = e['a'], e['b']
        ok = all(x is not None and x.geo is not None and x.geo[0] == 'FRAC' and x.store in ('fresh', 'attr:Structure.frac_coords') for x in (a, b))
        ctx.ob('R4', fi, e['node'], True if ok else None, 'minimum-image distances between the site pairs of the two jumps')
    if not ev:
        ctx.ob('R4', fi, 'site distances', False, 'distances between the jump sites are not minimum-image lattice distances')
    for n in ast.walk(fi.node):
        if isinstance(n, ast.Compare) and 'max_dist' in norm_text(n):
            t = norm_text(n).replace(' ', '')
            v = it.value_of(n.left)
            if v is not None and v.zipped_fancy:
                ctx.ob('R4', fi, n.left, False, 'the distance block is read with two index lists, which numpy pairs element by element: only origin-origin '
                                                'and destination-destination distances are tested, the cross terms (origin of one jump vs destination of the other) are lost')
            ok = isinstance(n.ops[0], (ast.Lt, ast.LtE)) and v is not None and v.geo == ('DIST',)
            par_any = any(isinstance(c, ast.Call) and norm_text(c.func).endswith('any') and c.args and c.args[0] is n for c in ast.walk(fi.node))
            ctx.ob('R4', fi, n, True if (ok and par_any) else (False if isinstance(n.ops[0], (ast.Gt, ast.GtE)) else None),
                   'collective when any site distance is below the cut-off' if (ok and par_any) else 'cut-off test not recognised / inverted')
    # ---- R5
    fj = ctx.fn(JC)
    cons = [e for e in it.events[start:] if e['tag'] == 'construct' and e['cls'] == 'gemdat.collective.Collective']
    for e in cons[:1]:
        ms = e['kwargs'].get('max_steps')
        ok, msg = check_degree(ms.mono if ms is not None else None, (0, 0, 0))
        ctx.ob('R5', fj, 'max_steps', ok, 'window in frames is dimensionless: 1 / (frequency * time step)' if ok else msg)
    if not cons:
        ctx.ob('R5', fj, 'max_steps', None, 'Collective construction not found')
    marks = [norm_text(n.targets[0].slice).replace(' ', '') for n in ast.walk(fi.node) if isinstance(n, ast.Assign) and len(n.targets) == 1
             and isinstance(n.targets[0], ast.Subscript) and norm_text(n.targets[0].value) == 'collective_matrix']
    if marks:
        pairs = set(marks)
        for m in list(marks):
            mm = m.strip('()')
            if mm.startswith('[') and '],[' in mm:
                a_, b_ = mm[1:-1].split('],[')
                for x_, y_ in zip(a_.split(','), b_.split(',')):
                    pairs.add(f'{x_},{y_}')
        marks = sorted(pairs)
        sym = any(f'{b},{a}' in pairs or f'({b},{a})' in pairs for a, b in [m.strip('()').split(',') for m in marks if m.count(',') == 1])
        red = [n for n in ast.walk(fi.node) if isinstance(n, ast.Call) and norm_text(n.func).endswith('any') and n.args and 'collective_matrix' in norm_text(n.args[0])]
        both_axes = any('.T' in norm_text(r.args[0]) or '|' in norm_text(r.args[0]) for r in red)
        ctx.ob('R5', fi, 'collective_matrix marks', True if (sym or both_axes) else False,
               'both jumps of a pair are marked collective' if (sym or both_axes) else
               'only one jump of every pair is marked in the pair matrix, but solo jumps are counted from a single axis of it: the earlier jump of '
               'each pair is counted as solo')
    asg = {}
    for n in ast.walk(fi.node):
        if isinstance(n, ast.Assign) and len(n.targets) == 1 and isinstance(n.targets[0], ast.Attribute):
            asg[n.targets[0].attr] = n.value
    s, c = asg.get('n_solo_jumps'), asg.get('n_coll_jumps')
    if s is not None and c is not None:
        ct = norm_text(c).replace(' ', '')
        ok = ct == 'len(events)-self.n_solo_jumps'
        st = norm_text(s).replace(' ', '')
        ok2 = st.startswith('len(events)-') and 'collective_matrix' in st
        pairs_formula = 'len(collective)' in ct or 'len(coll_jumps)' in ct or 'len(self.collective)' in ct
        ctx.ob('R5', fi, c, True if (ok and ok2) else (False if pairs_formula else None),
               'solo + collective = total by construction' if (ok and ok2) else
               ('the number of collective jumps is derived from the number of *pairs*: a jump that belongs to several pairs is counted several times, '
                'solo + collective no longer equals the number of jumps' if pairs_formula else 'counting identity not recognised'))
    else:
        ctx.ob('R5', fi, 'n_solo_jumps / n_coll_jumps', None, 'counters not found')


def check_scan_exits_nested(ctx, rule, outer_fi, fi, it):
    """The animation's update() closure: sort order comes from the enclosing function."""
    # find `events = <...>.sort_values(...)` in the enclosing function
    keys = None
    for n in ast.walk(outer_fi.node):
        if isinstance(n, ast.Call) and isinstance(n.func, ast.Attribute) and n.func.attr == 'sort_values':
            arg = n.args[0] if n.args else next((k.value for k in n.keywords if k.arg == 'by'), None)
            try:
                v = ast.literal_eval(arg)
                keys = (v,) if isinstance(v, str) else tuple(v)
            except Exception:
                keys = None
    pm = parent_map(fi.node)
    for loop in ast.walk(fi.node):
        if isinstance(loop, ast.For) and isinstance(loop.iter, ast.Call) and isinstance(loop.iter.func, ast.Attribute) and loop.iter.func.attr == 'iterrows':
            var = loop.target.elts[1].id if isinstance(loop.target, ast.Tuple) and isinstance(loop.target.elts[1], ast.Name) else None
            for b in walk_no_nested(loop):
                if isinstance(b, ast.Break):
                    st = pm.get(id(b))
                    test = st.test if isinstance(st, ast.If) else None
                    if test is None or keys is None or var is None:
                        ctx.ob(rule, fi, b, None, 'break / sort order not recognised')
                        continue
                    cols = row_cols(test, var)
                    wrong = [c for c in cols if c != keys[0]]
                    ctx.ob(rule, fi, test, (not wrong) if cols else None,
                           f"exit on the primary sort key '{keys[0]}'" if cols and not wrong else
                           f"exit test reads '{wrong[0] if wrong else '?'}' but rows are sorted by {list(keys)}")
