"""C12 - collective jumps: sorted-scan exit, same-atom / window guards, pair-once loop, distances, window degree."""

from __future__ import annotations

import ast

from ..interp import cval, has_const
from ..source import norm_text
from .common import def_map, expand, guard_facts, parent_map, stmt_of, walk_no_nested
from .formula import check_degree
from .geo import kind_errors, pbc_distance_obligations, under, uniq_events

COMP = 'gemdat.collective.Collective._compute'
JC = 'gemdat.jumps.Jumps.collective'


_FLIPC = {'<': '>', '<=': '>=', '>': '<', '>=': '<=', '==': '==', '!=': '!='}


def is_window(v):
    return v is not None and (v.store == 'attr:Collective.max_steps' or bool(v.deps and any(d.endswith('.max_steps') for d in v.deps)))


def is_cutoff(v):
    return v is not None and (v.store == 'attr:Collective.max_dist' or bool(v.deps and any(d.endswith('.max_dist') for d in v.deps)))


def norm_cmp2(cmp):
    """(op, left, right) with the bound (window / cut-off / plain column pair) on the right."""
    if cmp is None:
        return None
    o, l, r = cmp[:3]
    if l is None or r is None:
        return None
    if (is_window(l) or is_cutoff(l)) and not (is_window(r) or is_cutoff(r)) and o in _FLIPC:
        return _FLIPC[o], r, l
    return o, l, r


def row_cols(test, var):
    """Column names of `var[...]` reads inside an expression."""
    out = []
    for n in ast.walk(test):
        if isinstance(n, ast.Subscript) and isinstance(n.value, ast.Name) and n.value.id == var and isinstance(n.slice, ast.Constant):
            out.append(n.slice.value)
    return out


def sorted_scans(ctx, fi, it):
    """(for-loop node, loop var, sort keys) for loops over `<frame>.iterrows()` of a frame with a known sort order."""
    out = []
    for n in ast.walk(fi.node):
        if isinstance(n, ast.For) and isinstance(n.iter, ast.Call) and isinstance(n.iter.func, ast.Attribute) and n.iter.func.attr == 'iterrows':
            fr = it.value_of(n.iter.func.value)
            keys = fr.sorted_by if fr is not None else None
            var = None
            if isinstance(n.target, ast.Tuple) and len(n.target.elts) == 2 and isinstance(n.target.elts[1], ast.Name):
                var = n.target.elts[1].id
            out.append((n, var, keys, fr))
    return out


def _rows_source(v, depth=0):
    """The value iterates the rows of a table: frame.iterrows(), possibly numbered (enumerate) or re-packed by a comprehension."""
    if v is None or depth > 3:
        return False
    if v.ty == 'DataFrameIterrows':
        return True
    if v.ty == 'enumerate':
        return _rows_source(v.inner, depth + 1)
    if v.ty in ('generator', 'list', 'tuple') and v.comp_over is not None:
        return _rows_source(v.comp_over, depth + 1)
    return False


def combination_scans(fi, it):
    """for-loops over itertools.combinations(<frame>.iterrows(), 2): (loop, kind of pairing)."""
    out = []
    from .C04 import functions_under
    from .geo import _helper_like
    fns = [fi] + [f for f in functions_under(it, fi.qualname, it.p) if f is not fi and _helper_like(f.qualname)]
    for f in fns:
        for n in ast.walk(f.node):
            if isinstance(n, ast.For):
                v = it.value_of(n.iter)
                if v is not None and v.combos_of is not None and _rows_source(v.combos_of[1]):
                    out.append((n, v.combos_of[0]))
    return out


def check_scan_exits(ctx, rule, fi, it):
    cfg = ctx.cfg(fi.qualname)
    pm = parent_map(fi.node)
    scans = sorted_scans(ctx, fi, it)
    n_ob = 0
    for loop, kind in combination_scans(fi, it):
        own = [b for b in walk_no_nested(loop) if isinstance(b, ast.Break)]
        n_ob += 1
        ctx.ob(rule, fi, f'scan over {norm_text(loop.iter)}', True if not own else None,
               'no early exit: every pair of rows is examined' if not own else 'a break leaves a scan over all pairs of rows')
    for loop, var, keys, fr in scans:
        breaks = [b for b in walk_no_nested(loop) if isinstance(b, ast.Break)]
        # only breaks whose innermost loop is this loop
        own = []
        for b in breaks:
            p = pm.get(id(b))
            while p is not None and not isinstance(p, (ast.For, ast.While)):
                p = pm.get(id(p))
            if p is loop:
                own.append(b)
        if not own:
            n_ob += 1
            ctx.ob(rule, fi, f'scan over {norm_text(loop.iter)}', True, 'no early exit: every later row is examined')
            continue
        for b in own:
            n_ob += 1
            nid = cfg.node_of(b)
            guards = [g for g in cfg.guards(nid) if any(isinstance(x, ast.Name) and x.id == var for x in ast.walk(g[0]))]
            # the test that directly decides the break
            st = pm.get(id(b))
            test = st.test if isinstance(st, ast.If) else None
            if test is not None:
                test = expand(test, def_map(fi.node), keep=(var,))
            if test is None or var is None:
                ctx.ob(rule, fi, b, None, 'break not directly guarded by a test on the scanned row')
                continue
            cols = row_cols(test, var)
            if keys is None:
                ctx.ob(rule, fi, test, None, 'sort order of the scanned frame unknown')
                continue
            if not cols:
                ctx.ob(rule, fi, test, None, 'exit test does not read the scanned row')
                continue
            primary = keys[0]
            wrong = [c for c in cols if c != primary]
            if wrong:
                ctx.ob(rule, fi, test, False,
                       f"the scan leaves the loop when `{norm_text(test)}`, but the rows are sorted by {list(keys)}: "
                       f"'{wrong[0]}' is not the primary sort key, so a later row can still satisfy the window and is skipped "
                       f'(pairs are missed)')
                continue
            # monotone direction: ascending order -> exit when the row's key exceeds a bound
            asc = fr.sort_asc is not False
            ok_dir = None
            if isinstance(test, ast.Compare) and len(test.ops) == 1:
                op = test.ops[0]
                left_has = bool(row_cols(test.left, var))
                right_has = bool(row_cols(test.comparators[0], var))
                # row key on the larger side of the inequality
                grows = (left_has and isinstance(op, (ast.Gt, ast.GtE))) or (right_has and isinstance(op, (ast.Lt, ast.LtE)))
                minus = any(isinstance(x, ast.BinOp) and isinstance(x.op, ast.Sub) and row_cols(x.right, var) for x in ast.walk(test))
                if minus:
                    grows = not grows
                ok_dir = grows if asc else not grows
            ctx.ob(rule, fi, test, ok_dir, f"exit on the primary sort key '{primary}' in the direction of the sort" if ok_dir else
                   'exit test runs against the sort direction: all later rows are skipped although they qualify')
    return n_ob


def check(ctx):
    ctx.doc('R1', 'an early `break` in a scan over rows sorted by keys K may only test the primary key K[0] of the scanned row, in '
                  'the monotone direction (sound early exit)')
    ctx.doc('R2', 'recording a pair is dominated by the failed same-atom test and the failed forward window test')
    ctx.doc('R3', 'the inner scan starts after the outer row (each unordered pair once)')
    ctx.doc('R4', 'minimum-image distances between origin/destination sites of both jumps; a pair is collective when any distance < cut-off')
    ctx.doc('R5', 'the correlation window ceil(1 / (attempt frequency * time step)) is dimensionless; solo = total - collective')
    ctx.floor('R1', 2, 'Collective._compute and the animation update loop')
    ctx.floor('R2', 2)
    ctx.floor('R3', 1)
    ctx.floor('R4', 2)
    ctx.floor('R5', 2)
    it = ctx.pipeline()
    ju = it.jumps
    start = len(it.events)
    coll = ctx.method_on(it, ju, 'collective')
    fi = ctx.fn(COMP)
    n1 = check_scan_exits(ctx, 'R1', fi, it)
    # second instance of the template: the animation loop
    q = 'gemdat.plots.matplotlib._jumps_3d_animation.jumps_3d_animation'
    if q in ctx.p.functions:
        fa = ctx.p.functions[q]
        ita = ctx.entry(q)
        upd = ctx.p.functions.get(q + '.<locals>.update')
        if upd is not None:
            # evaluate the nested function so that its loop is seen
            clos = None
            for e in ita.events:
                pass
            check_scan_exits_nested(ctx, 'R1', fa, upd, ita)

    # ---- R2 / R3 / R4: conditions under which a pair is recorded
    loops = sorted_scans(ctx, fi, it)
    inner = loops[-1] if len(loops) >= 2 else None
    outer = loops[0] if len(loops) >= 2 else None
    pair_appends = []
    for e in uniq_events(it, {'append'}, under(COMP)):
        v = e['value']
        if v is not None and v.ty == 'tuple' and v.elts is not None and len(v.elts) == 2 and all(x.ty == 'Row' for x in v.elts):
            pair_appends.append(e)
    if not pair_appends:
        # the pairs are stored in one go: self.collective = [(row_i, row_j) for pair in <filtered pairs>]
        for e in uniq_events(it, {'store'}, under(COMP)):
            v = e.get('value')
            el = v.elem if (v is not None and v.ty in ('list', 'generator', 'tuple')) else None
            if e['kind'] == 'attr' and el is not None and el.ty == 'tuple' and el.elts is not None and len(el.elts) == 2 and all(x.ty == 'Row' for x in el.elts) \
                    and isinstance(e['node'], ast.Attribute) and e['node'].attr == 'collective':
                pair_appends.append(dict(e, value=el, stored=v))
    if not pair_appends:
        ctx.ob('R2', fi, 'collective.append', None, 'pair recording not recognised')
    for e in pair_appends:
        a = e['node']
        where = e['where']
        facts, complete = guard_facts(ctx, it, where.qualname, a)
        # pairs that come out of a pipeline of generators: the guards of every stage's `yield` (and the `if` clauses of generator
        # expressions) have filtered them; a stage that cannot be read makes the list of facts incomplete
        pm_w = parent_map(where.node)
        loop_ = pm_w.get(id(a))
        while loop_ is not None and not isinstance(loop_, (ast.For, ast.AsyncFor)):
            loop_ = pm_w.get(id(loop_))
        src_ = it.cur(loop_.iter) if loop_ is not None else None
        if e.get('stored') is not None:
            src_ = e['stored']  # stored list: its items went through the stages recorded on the value
        if src_ is not None and src_.ty in ('generator', 'list') and (src_.pipeline or src_.genfn):
            for stage in (src_.pipeline or (('yield', src_.genfn),)):
                if stage[0] == 'yield':
                    ys = [y for y in it.events if y['tag'] == 'yield' and y['where'] is not None and y['where'].qualname == stage[1]]
                    ys = list({id(y['node']): y for y in ys}.values())
                    if len(ys) != 1:
                        if len(ys) > 1:
                            complete = False
                        continue
                    f_, ok_ = guard_facts(ctx, it, stage[1], ys[0]['node'])
                    facts += f_
                    complete = complete and ok_
                elif stage[0] == 'ifs' and stage[1] is not None:
                    from .common import _conj
                    for c_ in stage[2].generators[0].ifs:
                        for expr_, pol_ in _conj(c_, True):
                            facts.append((it.value_of(expr_), pol_, expr_, stage[1]))
                else:
                    complete = False
        elif src_ is not None and src_.ty in ('generator',) and loop_ is not None:
            complete = False
        if where.qualname != COMP:
            # recorded inside a helper: add the conditions under which the helper is reached (one level)
            complete = False
        r0, r1 = e['value'].elts
        if r0.scan is None or r1.scan is None or r0.scan == r1.scan:
            # the two rows are not the loop rows of two nested scans (e.g. picked from a precomputed candidate list): which pairs
            # reach this point is decided by data flow, not by the guards
            complete = False
        same_atom = window = dist = False
        extra = None
        for v, pol, expr, q in facts:
            cc_ = norm_cmp2(v.cmp) if v is not None else None
            if cc_ is not None and is_window(cc_[2]) and cc_[1].abs_of is not None:
                inner_ = cc_[1].abs_of
                if inner_.bin is not None and inner_.bin[0] == '-' and {inner_.bin[1].col, inner_.bin[2].col} == {'start time', 'stop time'}:
                    extra = expr
            if v is None or (v.cmp is None and v.red is None and not has_const(v)):
                complete = False  # an opaque condition: nothing can be concluded from the absence of a recognised test
            if v is None:
                continue
            c = norm_cmp2(v.cmp)
            if c is not None:
                o, l, r = c
                if l.col == r.col == 'atom index' and l.scan is not None and r.scan is not None and l.scan != r.scan:
                    if (o == '==' and pol is False) or (o == '!=' and pol is True):
                        same_atom = True
                # forward window: start[later] - stop[earlier] > W is False
                if l.bin is not None and l.bin[0] == '-' and is_window(r):
                    x, y = l.bin[1], l.bin[2]
                    if x.col == 'start time' and y.col == 'stop time' and x.scan is not None and y.scan is not None and x.scan > y.scan:
                        if (o in ('>', '>=') and pol is False) or (o in ('<=', '<') and pol is True):
                            window = True
            # any(distance < cut-off)
            red = v.red
            if red is not None and red[0] == 'any' and pol is True:
                cc = norm_cmp2(red[1].cmp) if red[1] is not None else None
                if cc is not None and cc[0] in ('<', '<=') and cc[1].geo == ('DIST',) and is_cutoff(cc[2]):
                    dist = True
        und = None if not complete else False
        if extra is not None:
            ctx.ob('R2', where, extra, False, 'the time test is symmetric (absolute value of start - stop against the window): pairs in which one jump '
                                              'started long before the other stopped are rejected although they overlap in time (collective pairs are missed)')
        ctx.ob('R2', where, a, True if same_atom else und, 'pairs of the same atom are excluded' if same_atom else
               'a pair can be recorded for two jumps of the same atom (no same-atom test dominates the append)')
        ctx.ob('R2', where, norm_text(a) + ' [window]', True if window else und, 'pairs outside the correlation window are excluded' if window else
               'a pair can be recorded although the later jump starts more than the window after the earlier one stops')
        ctx.ob('R4', where, norm_text(a) + ' [distance]', True if dist else und, 'a pair is collective when any site distance is below the cut-off' if dist else
               'a pair is recorded without the test that some site distance is below the cut-off')
    for loop, kind in combination_scans(fi, it):
        ctx.ob('R3', fi, loop.iter, True if kind == 'combinations' else False,
               'itertools.combinations yields every unordered pair of rows once' if kind == 'combinations' else
               f'itertools.{kind} pairs rows in both orders / with themselves: pairs are reported twice or a jump is paired with itself')
    if inner is not None:
        # R3 inner iterates events[i + 1:]
        src = inner[0].iter.func.value
        t = norm_text(src).replace(' ', '')
        oi = outer[0].target.elts[0].id if isinstance(outer[0].target, ast.Tuple) and isinstance(outer[0].target.elts[0], ast.Name) else None
        ok = oi is not None and t.endswith(f'[{oi}+1:]')
        ofr = outer[3]
        if ok and ofr is not None and ofr.labels_permuted:
            ctx.ob('R3', fi, src, False, 'the row label of the outer scan is used as a position, but the table was sorted without renumbering its rows '
                                         '(sort_values without ignore_index / reset_index): pairs are skipped and others are reported twice')
            ok = None
        else:
          ctx.ob('R3', fi, src, True if ok else (False if oi is not None and t.endswith(f'[{oi}:]') else None),
               'inner scan starts at the row after the outer one' if ok else
               'the inner scan includes the outer row itself / earlier rows: pairs are reported twice or a jump is paired with itself')
    # ---- R4
    kind_errors(ctx, 'R4', it, under(COMP), strict=True)
    in_comp = under(COMP)
    ev = [e for e in it.events[start:] if e['tag'] == 'pbc_distance' and e['where'] is not None and in_comp(e)]
    seen = set()
    for e in ev:
        if id(e['node']) in seen:
            continue
        seen.add(id(e['node']))
        a, b = e['a'], e['b']
        ok = all(x is not None and x.geo is not None and x.geo[0] == 'FRAC' and x.store in ('fresh', 'attr:Structure.frac_coords') for x in (a, b))
        ctx.ob('R4', fi, e['node'], True if ok else None, 'minimum-image distances between the site pairs of the two jumps')
    if not ev:
        ctx.ob('R4', fi, 'site distances', None, 'no minimum-image lattice distance between the jump sites recognised')
    from .C04 import functions_under
    for f_ in functions_under(it, COMP, ctx.p):
        for n in ast.walk(f_.node):
            if not isinstance(n, ast.Compare):
                continue
            cc = norm_cmp2(it.value_of(n).cmp) if it.value_of(n) is not None else None
            if cc is None or cc[1].geo != ('DIST',) or not is_cutoff(cc[2]):
                continue
            if cc[1].zipped_fancy:
                ctx.ob('R4', f_, n, False, 'the distance block is read with two index lists, which numpy pairs element by element: only origin-origin '
                                           'and destination-destination distances are tested, the cross terms (origin of one jump vs destination of the other) are lost')
            elif cc[0] in ('>', '>='):
                ctx.ob('R4', f_, n, False, 'cut-off test inverted: pairs are collective when the sites are far apart')
            else:
                ctx.ob('R4', f_, n, True, 'site distances compared with the cut-off from below')
    # ---- R5
    fj = ctx.fn(JC)
    cons = [e for e in it.events[start:] if e['tag'] == 'construct' and e['cls'] == 'gemdat.collective.Collective']
    for e in cons[:1]:
        ms = e['kwargs'].get('max_steps')
        ok, msg = check_degree(ms.mono if ms is not None else None, (0, 0, 0))
        ctx.ob('R5', fj, 'max_steps', ok, 'window in frames is dimensionless: 1 / (frequency * time step)' if ok else msg)
    for e in cons[:1]:
        lat = e['kwargs'].get('lattice')
        if lat is None:
            ctx.ob('R4', fj, 'lattice=', None, 'lattice handed to the collective analysis not found')
        else:
            fm = lat.from_matrix
            from_traj = lat.ty == 'Lattice' and fm is not None and fm.store == 'attr:Trajectory.lattice'
            from_sites = lat.ty == 'Lattice' and (lat.of_struct or (lat.sx or '').endswith('sites.lattice') or (fm is not None and (fm.store or '').startswith('attr:Structure')))
            ctx.ob('R4', fj, e['node'], True if from_traj else (False if from_sites else None),
                   'distances are measured in the simulation cell of the trajectory' if from_traj else
                   ('the cut-off is judged in the reference cell of the sites structure, not in the simulation cell: when the two cells differ '
                    '(a relaxed or scaled reference) pairs are accepted / rejected at the wrong distance' if from_sites else 'origin of the lattice not derivable'))
    if not cons:
        ctx.ob('R5', fj, 'max_steps', None, 'Collective construction not found')
    check_counts(ctx, it, fi, coll, start)


def check_scan_exits_nested(ctx, rule, outer_fi, fi, it):
    """The animation's update() closure: sort order comes from the enclosing function."""
    # find `events = <...>.sort_values(...)` in the enclosing function
    keys = None
    for n in ast.walk(outer_fi.node):
        if isinstance(n, ast.Call) and isinstance(n.func, ast.Attribute) and n.func.attr == 'sort_values':
            arg = n.args[0] if n.args else next((k.value for k in n.keywords if k.arg == 'by'), None)
            try:
                v = ast.literal_eval(arg)
                keys = (v,) if isinstance(v, str) else tuple(v)
            except Exception:
                keys = None
    pm = parent_map(fi.node)
    for loop in ast.walk(fi.node):
        if isinstance(loop, ast.For) and isinstance(loop.iter, ast.Call) and isinstance(loop.iter.func, ast.Attribute) and loop.iter.func.attr == 'iterrows':
            var = loop.target.elts[1].id if isinstance(loop.target, ast.Tuple) and isinstance(loop.target.elts[1], ast.Name) else None
            for b in walk_no_nested(loop):
                if isinstance(b, ast.Break):
                    st = pm.get(id(b))
                    test = st.test if isinstance(st, ast.If) else None
                    if test is None or keys is None or var is None:
                        ctx.ob(rule, fi, b, None, 'break / sort order not recognised')
                        continue
                    cols = row_cols(test, var)
                    wrong = [c for c in cols if c != keys[0]]
                    ctx.ob(rule, fi, test, (not wrong) if cols else None,
                           f"exit on the primary sort key '{keys[0]}'" if cols and not wrong else
                           f"exit test reads '{wrong[0] if wrong else '?'}' but rows are sorted by {list(keys)}")


def check_counts(ctx, it, fi, coll, start):
    """solo + collective = number of jumps; collective = number of jumps that occur in at least one recorded pair."""
    from .C04 import functions_under
    from .common import linear_atoms, parse_sx
    heap = it.state.heap.get(coll.oid, {}) if (coll is not None and coll.ty == 'obj') else {}
    solo, collv = heap.get('n_solo_jumps'), heap.get('n_coll_jumps')
    es = parse_sx(solo.sx, full=True) if solo is not None and solo.sx else None
    ec = parse_sx(collv.sx, full=True) if collv is not None and collv.sx else None
    if es is None or ec is None:
        ctx.ob('R5', fi, 'n_solo_jumps / n_coll_jumps', None, 'counters not found or without a derivable expression')
        return
    (ls, cs), (lc, cc) = linear_atoms(es), linear_atoms(ec)
    total = dict(ls)
    for k, v in lc.items():
        total[k] = total.get(k, 0.0) + v
    total = {k: v for k, v in total.items() if v != 0}
    # values of the atoms: look the expression up among the evaluated nodes of _compute and its helpers
    by_sx = {}
    for f_ in functions_under(it, COMP, ctx.p):
        for n in ast.walk(f_.node):
            if isinstance(n, ast.expr) and it.value_of(n) is not None:
                t_ = parse_sx(it.sx(n), full=True)
                by_sx.setdefault(norm_text(t_) if t_ is not None else it.sx(n), it.value_of(n))

    def kind(atom):
        v = by_sx.get(atom)
        if v is None:
            return None, None
        if v.lenof is not None:
            return ('len', v.lenof), v
        if v.red is not None and v.red[0] == 'sum':
            return ('count', v.red[1]), v
        return ('other', None), v
    ok_total = len(total) == 1 and cs + cc == 0 and list(total.values()) == [1.0] and kind(next(iter(total)))[0] is not None \
        and kind(next(iter(total)))[0][0] == 'len' and kind(next(iter(total)))[0][1].ty == 'DataFrame'
    pairs_len = [a for a in list(ls) + list(lc) if kind(a)[0] is not None and kind(a)[0][0] == 'len' and kind(a)[0][1].ty == 'list']
    if pairs_len:
        ctx.ob('R5', fi, 'n_solo_jumps + n_coll_jumps', False,
               'the number of collective jumps is derived from the number of *pairs*: a jump that belongs to several pairs is counted several times, '
               'solo + collective no longer equals the number of jumps')
    else:
        ctx.ob('R5', fi, 'n_solo_jumps + n_coll_jumps', True if ok_total else None,
               'solo + collective = number of jumps by construction' if ok_total else 'counting identity not recognised')
    # the collective count: one per jump that is marked, marks set for both jumps of every pair
    counts = [a for a in set(ls) | set(lc) if kind(a)[0] is not None and kind(a)[0][0] == 'count']
    if len(counts) != 1:
        ctx.ob('R5', fi, 'collective count', None, 'count of the jumps that take part in a pair not recognised')
        return
    arg = kind(counts[0])[0][1]  # what is summed
    marks = arg.red[1] if (arg is not None and arg.red is not None and arg.red[0] == 'any') else arg
    reduced_axes = arg.red[3] if (arg is not None and arg.red is not None and arg.red[0] == 'any') else None
    if marks is None or marks.alloc not in ('full', 'zeros', 'zeros_like', 'full_like'):
        ctx.ob('R5', fi, 'collective count', None, 'the counted array is not a freshly allocated mark array')
        return
    in_comp = under(COMP)
    stores = [e for e in it.events[start:] if e['tag'] == 'store' and e['kind'] == 'sub' and in_comp(e) and e['base'] is not None
              and e['base'].alloc == marks.alloc and e['base'].axes == marks.axes and e['base'].dtype == marks.dtype]
    idx_sets = []
    seen = set()
    for e in stores:
        if id(e['node']) in seen:
            continue
        seen.add(id(e['node']))
        tgt = e['node']
        sl = tgt.slice if isinstance(tgt, ast.Subscript) else None
        if sl is None:
            continue
        parts = sl.elts if isinstance(sl, ast.Tuple) else [sl]
        idx_sets.append([tuple(it.sx(y) for y in x.elts) if isinstance(x, (ast.List, ast.Tuple)) else it.sx(x) for x in parts])
    ndim = len(marks.axes) if marks.axes is not None else None
    if not idx_sets or ndim is None:
        ctx.ob('R5', fi, 'collective marks', None, 'writes into the mark array not recognised')
        return
    if ndim == 1:
        flat = set()
        for s_ in idx_sets:
            for x in s_:
                flat |= set(x) if isinstance(x, tuple) else {x}
        ok = len(flat - {None}) >= 2
        ctx.ob('R5', fi, 'collective marks', True if ok else False, 'both jumps of a pair are marked collective' if ok else
               'only one jump of every pair is marked: the other jump of each pair is counted as solo')
    else:
        pairs = set()
        for s_ in idx_sets:
            if len(s_) == 2 and all(isinstance(x, str) for x in s_):
                pairs.add((s_[0], s_[1]))
            elif len(s_) == 2 and all(isinstance(x, tuple) for x in s_):
                pairs |= set(zip(s_[0], s_[1]))
        sym = any((b, a) in pairs for a, b in pairs if a != b)
        both_axes = reduced_axes is not None and len(reduced_axes) != 1
        ok = sym or both_axes
        ctx.ob('R5', fi, 'collective marks', True if ok else (False if pairs else None),
               'both jumps of a pair are marked collective' if ok else
               'only one jump of every pair is marked in the pair matrix, but solo jumps are counted from a single axis of it: the earlier jump of '
               'each pair is counted as solo')
