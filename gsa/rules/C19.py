"""C19 - time partitioning: complementary half-open tests, re-basing offsets, split siblings."""

from __future__ import annotations

import ast

from ..interp import cval, has_const
from ..source import norm_text
from .common import linear_atoms, parse_sx, walk_no_nested
from .geo import under, uniq_events

STE = 'gemdat.transitions._split_transitions_events'
TS = 'gemdat.transitions.Transitions.split'
JS = 'gemdat.jumps.Jumps.split'
TRS = 'gemdat.trajectory.Trajectory.split'
TRAJ = 'gemdat.trajectory.Trajectory'

_FLIP = {'<': '>', '<=': '>=', '>': '<', '>=': '<=', '==': '==', '!=': '!='}


def check(ctx):
    ctx.doc('R1', 'event parts are selected by (key >= start) & (key < stop) over consecutive pairs of one increasing edge sequence '
                  'that starts at 0 and ends above the last possible event time: each event falls into exactly one part')
    ctx.doc('R2', 'times are re-based by the lower edge of the same part, on a copy of the selected rows')
    ctx.doc('R3', 'Transitions.split cuts states, inner states, events and both trajectories into the same number of parts and '
                  'combines the i-th pieces under their own names; Jumps.split re-derives jumps with the same settings')
    ctx.doc('R4', 'Trajectory.split cuts consecutive frame ranges self[start:stop] from one non-decreasing integer sequence')
    ctx.floor('R1', 4)
    ctx.floor('R2', 2)
    ctx.floor('R3', 6)
    ctx.floor('R4', 2)
    check_events(ctx)
    check_transitions_split(ctx)
    check_jumps_split(ctx)
    check_traj_split(ctx)


# ---------------------------------------------------------------------------------------------------------------- masks
def mask_constraints(m):
    """A boolean row mask as a list of (column value, op, bound value) with the bound on the right, or None."""
    if m is None:
        return None
    if m.between is not None:
        recv, lo, hi, inc = m.between
        if inc is None:
            return None
        lo_op = '>=' if inc in ('both', 'left', True) else '>'
        hi_op = '<=' if inc in ('both', 'right', True) else '<'
        return [(recv, lo_op, lo), (recv, hi_op, hi)]
    if m.bin is not None and m.bin[0] == '&':
        a, b = mask_constraints(m.bin[1]), mask_constraints(m.bin[2])
        return None if a is None or b is None else a + b
    if m.cmp is not None:
        o, l, r = m.cmp[:3]
        if l is None or r is None:
            return None
        if l.pair_pos is not None and r.pair_pos is None and o in _FLIP:
            return [(r, _FLIP[o], l)]
        return [(l, o, r)]
    return None


def edge_sequence_ok(ctx, fi, seq, total_name, what):
    """The edge sequence is np.linspace(0, hi, n_parts + 1) with hi linear in `total_name`. Returns (status, message)."""
    if seq is None or seq.linspace is None or len(seq.linspace) < 2 or seq.lin_n is None:
        return None, 'edge sequence is not np.linspace(lo, hi, n)'
    lo, hi = seq.linspace[:2]
    n = seq.lin_n
    ok_lo = has_const(lo) and cval(lo) == 0
    hi_l = linear_atoms(parse_sx(hi.sx, full=True)) if hi.sx else ((({}, float(cval(hi))) if has_const(hi) else None))
    n_l = linear_atoms(parse_sx(n.sx, full=True)) if n.sx else None
    if hi.sx is None and not has_const(hi) and hi.is_param:
        hi_l = ({hi.is_param.split(':')[-1]: 1.0}, 0.0)
    if n.sx is None and n.is_param:
        n_l = ({n.is_param.split(':')[-1]: 1.0}, 0.0)
    return ok_lo, hi_l, n_l


def check_events(ctx):
    fi = ctx.fn(STE)
    it = ctx.entry(STE)
    inside = under(STE)
    filters = uniq_events(it, {'row_filter'}, inside)
    if not filters:
        ctx.ob('R1', fi, 'part selection', None, 'selection of the rows of one part not recognised')
        return
    seqs = []
    for e in filters:
        cons = mask_constraints(e['mask'])
        node = e['node']
        if cons is None or len(cons) != 2:
            ctx.ob('R1', e['where'], node, None, 'row mask is not the conjunction of two bound tests')
            continue
        lo_c = [c for c in cons if c[2] is not None and c[2].pair_pos == 0]
        hi_c = [c for c in cons if c[2] is not None and c[2].pair_pos == 1]
        if len(lo_c) != 1 or len(hi_c) != 1 or lo_c[0][2].pair_src != hi_c[0][2].pair_src:
            ctx.ob('R1', e['where'], node, None, 'lower / upper bound of one consecutive edge pair not recognised')
            continue
        (cl, olo, blo), (ch, ohi, bhi) = lo_c[0], hi_c[0]
        seqs.append(blo.pair_seq)
        ok_lo, ok_hi = olo == '>=', ohi == '<'
        ctx.ob('R1', e['where'], norm_text(node) + ' [lower]', ok_lo if olo in ('>=', '>') else None, 'lower edge inclusive' if ok_lo else
               ('lower edge exclusive: an event exactly on a part boundary (and at time 0) belongs to no part' if olo == '>' else 'lower bound test is not >='))
        ctx.ob('R1', e['where'], norm_text(node) + ' [upper]', ok_hi if ohi in ('<', '<=') else None, 'upper edge exclusive' if ok_hi else
               ('upper edge inclusive: an event exactly on a part boundary is counted in two parts' if ohi == '<=' else 'upper bound test is not <'))
        same = cl.col is not None and cl.col == ch.col or (cl.sx is not None and cl.sx == ch.sx)
        ctx.ob('R1', e['where'], norm_text(node) + ' [column]', True if same else (False if (cl.col and ch.col) else None),
               'both tests read the same column' if same else f'the two tests read different columns ({cl.col}, {ch.col})')
    # the edge sequence
    for seq in seqs[:1]:
        if seq is None or seq.linspace is None or len(seq.linspace) < 2 or seq.lin_n is None:
            ctx.ob('R1', fi, 'edge sequence', None, 'edge sequence is not np.linspace(lo, hi, n)')
            continue
        lo, hi, n = seq.linspace[0], seq.linspace[1], seq.lin_n
        ok_lo = has_const(lo) and cval(lo) == 0
        hi_l = _lin(hi)
        n_l = _lin(n)
        # last event time is n_states - 2 (a change between frames t and t+1 with t + 1 <= n_states - 1)
        ok_hi = hi_l is not None and hi_l[0] == {'n_states': 1.0} and hi_l[1] >= -1
        ok_n = n_l is not None and n_l[0] == {'n_parts': 1.0} and n_l[1] == 1
        ok = ok_lo and ok_hi and ok_n
        ctx.ob('R1', fi, 'edge sequence', True if ok else (False if (hi_l is not None and n_l is not None and set(hi_l[0]) <= {'n_states'} and set(n_l[0]) <= {'n_parts'}) else None),
               'n_parts + 1 edges from 0 to beyond the last event time' if ok else
               ('edges do not start at 0' if not ok_lo else ('the last edge does not exceed the last possible event time: late events are in no part' if not ok_hi
                                                              else 'number of edges is not n_parts + 1')))
    # ---- R2: re-basing
    def _rebases(e):
        # part[keys] -= offset, or the same spelled out: part[keys] = part[keys] - offset
        v_ = e.get('value')
        return bool(e['aug']) or (v_ is not None and v_.bin is not None and v_.bin[0] == '-')
    writes = [e for e in uniq_events(it, {'column_write'}, inside) if e['frame'] is not None and e['frame'].ty == 'DataFrame' and _rebases(e)]
    other_writes = [e for e in uniq_events(it, {'column_write'}, inside) if e['frame'] is not None and e['frame'].ty == 'DataFrame' and not _rebases(e)]
    if not writes:
        from .common import absent
        ctx.ob('R2', fi, 're-basing', None if other_writes else absent(it, fi.qualname), 'event times of the parts are not re-based to the start of the part')
    for e in writes:
        fr, val = e['frame'], e['value']
        copied = fr.store == 'fresh' or fr.fresh
        ctx.ob('R2', e['where'], norm_text(e['node']) + ' [copy]', True if copied else (None if fr.store is None else False), 'selected rows are copied before re-basing' if copied else
               're-basing writes into a selection of the original event table (modifies the source / SettingWithCopy)')
        off = val.bin[2] if (val is not None and val.bin is not None and val.bin[0] == '-') else None
        if off is None:
            ctx.ob('R2', e['where'], e['node'], None, 're-basing is not a subtraction of an offset')
            continue
        ok = off.pair_pos == 0
        upper = off.pair_pos == 1 or bool(off.shift_item and off.shift_item[0] == 1)
        other = off.pair_seq is not None and off.pair_pos is None and not off.shift_item
        ctx.ob('R2', e['where'], e['node'], True if ok else (False if (upper or other) else None),
               'offset = lower edge of the same part' if ok else
               'times are re-based by the upper edge / an edge of a different part (negative or shifted times)')


def _lin(v):
    """(atoms, const) of an integer-valued abstract value from its symbolic text, constant or parameter name."""
    if v is None:
        return None
    if has_const(v) and isinstance(cval(v), (int, float)):
        return {}, float(cval(v))
    if v.sx:
        t = parse_sx(v.sx, full=True)
        return linear_atoms(t) if t is not None else None
    if v.is_param:
        return {v.is_param.split(':')[-1]: 1.0}, 0.0
    if v.lenof is not None and v.lenof.ty == 'obj':
        return {'len(self)': 1.0}, 0.0
    return None


# ------------------------------------------------------------------------------------------------- Transitions.split
def _resolve_piece(fi, it, node):
    """(symbolic text of the list a piece is taken from, index key) for `L[i]` or a name bound by iterating zip(L0, L1, ...)."""
    if isinstance(node, ast.Subscript):
        return it.sx(node.value), it.sx(node.slice)
    if isinstance(node, ast.Name):
        from .common import def_map
        defs_ = def_map(fi.node)
        for n in ast.walk(fi.node):
            gens = []
            if isinstance(n, (ast.For, ast.AsyncFor)):
                gens = [(n.target, n.iter)]
            elif isinstance(n, (ast.ListComp, ast.GeneratorExp, ast.SetComp, ast.DictComp)):
                gens = [(g.target, g.iter) for g in n.generators]
            for tgt, itx in gens:
                z = itx
                tg = tgt
                if isinstance(z, ast.Name) and z.id in defs_:
                    z = defs_[z.id]
                if isinstance(z, ast.Call) and norm_text(z.func) == 'enumerate' and z.args and isinstance(tgt, ast.Tuple) and len(tgt.elts) == 2:
                    z, tg = z.args[0], tgt.elts[1]
                if isinstance(z, ast.Call) and norm_text(z.func) == 'zip' and isinstance(tg, ast.Tuple) and len(tg.elts) == len(z.args):
                    for t_, a_ in zip(tg.elts, z.args):
                        if isinstance(t_, ast.Name) and t_.id == node.id:
                            return it.sx(a_), f'zip@{z.lineno}'
    return None, None


def check_transitions_split(ctx):
    fi = ctx.fn(TS)
    it = ctx.entry(TS)
    cons = [e for e in it.events if e['tag'] == 'construct' and e['cls'] == 'gemdat.transitions.Transitions' and e['where'] is not None
            and e['where'].qualname == TS]
    seen = set()
    cons = [e for e in cons if not (id(e['node']) in seen or seen.add(id(e['node'])))]
    if not cons:
        ctx.ob('R3', fi, 'part construction', None, 'constructor call not found')
        return
    c = cons[0]['node']
    kw = {k.arg: k.value for k in c.keywords if k.arg}
    akw = dict(cons[0]['kwargs'])
    star = akw.pop('**', None)
    if star is not None:
        if not star.kw:
            ctx.ob('R3', fi, c, None, 'pieces are passed through a ** mapping of unknown keys: origin of the pieces not derivable')
            return
        for k_, v_ in star.kw.items():
            akw.setdefault(k_, v_)
    roles = {'states': ('array_split', 'self.states'), 'inner_states': ('array_split', 'self.inner_states'),
             'events': ('_split_transitions_events', 'self.events'), 'trajectory': ('split', 'self.trajectory'),
             'diff_trajectory': ('split', 'self.diff_trajectory')}
    idxs = set()
    for role, (fn_want, src) in roles.items():
        v = kw.get(role)
        av = akw.get(role)
        if v is None and av is None:
            ctx.ob('R3', fi, f'{role}=', False, f'`{role}` is not passed to the part')
            continue
        lst = key = None
        if v is not None:
            lst, key = _resolve_piece(fi, it, v)
        if lst is None and av is not None and av.sx:
            t_ = parse_sx(av.sx, full=True)
            if isinstance(t_, ast.Subscript):
                lst, key = norm_text(t_.value), norm_text(t_.slice)
        if lst is None and av is not None and av.zip_src is not None:
            lst, key = av.zip_src, av.zip_key  # an item of zip(L0, L1, ...) however the zip was spelled
        origin = parse_sx(lst, full=True) if lst else None
        if (origin is None or not isinstance(origin, ast.Call)) and av is not None and av.ty == 'obj' and av.sliced_from is not None:
            # a trajectory piece: identified by the object it was sliced from
            want = [e_['value'].oid for e_ in it.events if e_['tag'] == 'attr_read' and e_['attr'] == role and e_['where'] is not None
                    and e_['where'].qualname == TS and e_['value'] is not None and e_['value'].ty == 'obj']
            others = [e_['value'].oid for e_ in it.events if e_['tag'] == 'attr_read' and e_['attr'] in roles and e_['attr'] != role
                      and e_['where'] is not None and e_['where'].qualname == TS and e_['value'] is not None and e_['value'].ty == 'obj']
            if av.sliced_from in want:
                ctx.ob('R3', fi, f'{role}=', True, f'pieces of {src}')
            elif av.sliced_from in others:
                ctx.ob('R3', fi, f'{role}=', False, f'`{role}` receives pieces of another trajectory instead of `{src}`')
            else:
                ctx.ob('R3', fi, f'{role}=', None, 'origin of the pieces not recognised')
            continue
        if origin is None or not isinstance(origin, ast.Call):
            ctx.ob('R3', fi, f'{role}=', None, 'origin of the pieces not recognised')
            continue
        idxs.add(key)
        fn = norm_text(origin.func).split('.')[-1]
        a0 = norm_text(origin.args[0]) if origin.args else ''
        recv = norm_text(origin.func.value) if isinstance(origin.func, ast.Attribute) else ''
        subject = a0 if fn in ('array_split', '_split_transitions_events') else recv
        nparts = [norm_text(a) for a in origin.args] + [norm_text(k.value) for k in origin.keywords]
        uses_n = 'n_parts' in nparts
        known_fn = fn in ('array_split', '_split_transitions_events', 'split')
        ok = subject == src and uses_n and known_fn
        msg = f'pieces of {src} cut into n_parts' if ok else (
            f'`{role}` receives pieces of `{subject}` instead of `{src}`' if subject != src else f'`{src}` is not cut into n_parts pieces')
        ctx.ob('R3', fi, f'{role}=', True if ok else (False if known_fn else None), msg)
    idxs.discard(None)
    ctx.ob('R3', fi, c, True if len(idxs) == 1 else (False if len(idxs) > 1 else None),
           'all pieces taken at the same index' if len(idxs) == 1 else f'pieces are combined at different indices {sorted(map(str, idxs))}')
    # number of parts built
    n_ok = None
    pm = {}
    for n_ in ast.walk(fi.node):
        for ch in ast.iter_child_nodes(n_):
            pm[id(ch)] = n_
    from .common import def_map, expand
    defs2 = def_map(fi.node)
    cur = c
    while id(cur) in pm:
        cur = pm[id(cur)]
        if isinstance(cur, ast.For):
            t = norm_text(expand(cur.iter, defs2)).replace(' ', '') if isinstance(cur.iter, ast.Name) else it.sx(cur.iter).replace(' ', '')
            n_ok = True if t == 'range(n_parts)' or t.startswith('zip(') or (t.startswith('map(') and 'zip(' in t) else None
            break
        if isinstance(cur, (ast.ListComp, ast.GeneratorExp)):
            g0 = cur.generators[0].iter
            t = norm_text(expand(g0, defs2)).replace(' ', '') if isinstance(g0, ast.Name) else it.sx(g0).replace(' ', '')
            n_ok = True if t == 'range(n_parts)' or t.startswith('zip(') or (t.startswith('map(') and 'zip(' in t) else None
            break
    ctx.ob('R3', fi, 'number of parts', n_ok, 'one part per piece' if n_ok else 'loop over the pieces not recognised')
    sites = akw.get('sites')
    ctx.ob('R3', fi, 'sites=', True if (sites is not None and (sites.sx == 'self.sites' or sites.store == 'attr:Transitions.sites' or (sites.is_param or '').endswith('Transitions.__init__:sites'))) else (False if sites is None else None), 'same sites for every part')


def check_jumps_split(ctx):
    fi = ctx.fn(JS)
    it = ctx.entry(JS)
    # the Jumps objects built for the parts (directly or through Transitions.jumps(**kwargs))
    cons = [e for e in it.events if e['tag'] == 'construct' and e['cls'] == 'gemdat.jumps.Jumps' and JS in e['ctx']]
    if not cons:
        ctx.ob('R3', fi, 'Jumps(part, ...)', None, 'construction of the per-part Jumps not found')
        return
    e = cons[-1]
    kw = dict(e['kwargs'])
    star = kw.pop('**', None)
    if star is not None and star.kw:
        for k_, v_ in star.kw.items():
            kw.setdefault(k_, v_)
    for k in ('conversion_method', 'minimal_residence'):
        v = kw.get(k)
        ok = v is not None and (v.store == f'attr:Jumps.{k}' or (v.deps and any(d.endswith(f'.{k}') for d in v.deps)) or v.ty == 'func' or v.is_param)
        open_star = star is not None and (not star.kw or star.open_kw)
        ctx.ob('R3', fi, f'{k}=', True if ok else (None if (v is None and open_star) else False), f'{k} of the source forwarded' if ok else
               f'`{k}` is not forwarded: the parts are analysed with the default setting, so jumps rejected in the whole are counted in the parts '
               f'(part counts exceed the total)')
    calls = [x for x in it.events if x['tag'] == 'call' and x['callee'] == TS and x['where'] is not None and x['where'].qualname == JS]
    ok = False
    for x in calls:
        args = list(x['args']) + list(x['kwargs'].values())
        ok = ok or any(a is not None and a.is_param and a.is_param.endswith(':n_parts') for a in args)
    ctx.ob('R3', fi, 'self.transitions.split(n_parts)', True if ok else None, 'jumps re-derived from the transition parts')


# --------------------------------------------------------------------------------------------------- Trajectory.split
def _slice_lower(node):
    sl = node.slice if isinstance(node, ast.Subscript) else None
    return sl.lower if isinstance(sl, ast.Slice) and sl.lower is not None else node


def check_traj_split(ctx):
    fi = ctx.fn(TRS)
    it = ctx.entry(TRS)
    inside = under(TRS)
    # slices of the trajectory itself
    cuts = []
    trims = []
    seen = set()
    for e in it.events:
        if e['tag'] != 'call' or e['callee'] != f'{TRAJ}.__getitem__' or not inside(e) or id(e['node']) in seen:
            continue
        seen.add(id(e['node']))
        sl = e['args'][0] if e['args'] else None
        recv = e['bound']
        if sl is None or sl.ty != 'slice':
            continue
        if recv is not None and recv.symbolic:
            cuts.append((e, sl))
        else:
            trims.append((e, sl))
    if not cuts:
        ctx.ob('R4', fi, 'parts', None, 'slices self[start:stop] of the trajectory not recognised')
        return
    seq = None
    for e, sl in cuts:
        lo, hi = sl.lo, sl.hi
        ok = lo is not None and hi is not None and lo.pair_pos == 0 and hi.pair_pos == 1 and lo.pair_src is not None and lo.pair_src == hi.pair_src \
            and sl.step is None
        bad = lo is not None and hi is not None and ((lo.pair_pos == 1 and hi.pair_pos == 0) or (lo.pair_pos == 0 and hi.bin is not None)
                                                     or (lo.pair_pos == 0 and sl.hi is None))
        if lo is not None and lo.pair_pos == 0 and hi is None:
            bad = True
        # self[a : a + w] with a = start of a part and w = the smallest part width: inside [start, stop), all of one size
        lo_src = lo.pair_src if (lo is not None and lo.pair_pos == 0) else (lo.shift_item[1] if (lo is not None and lo.shift_item and lo.shift_item[0] == 0) else None)
        if not ok and lo_src is not None and hi is not None and hi.bin is not None and hi.bin[0] == '+' and sl.step is None:
            def _startlike(v_):
                return v_ is not None and ((v_.pair_pos == 0 and v_.pair_src == lo_src) or bool(v_.shift_item and v_.shift_item[0] == 0 and v_.shift_item[1] == lo_src))
            a_, w_ = (hi.bin[1], hi.bin[2]) if _startlike(hi.bin[1]) else ((hi.bin[2], hi.bin[1]) if _startlike(hi.bin[2]) else (None, None))
            if w_ is not None and w_.minwidth is not None and w_.minwidth == lo_src:
                ctx.ob('R4', e['where'], e['node'], True, 'each part starts at its edge and is as long as the smallest part: non-overlapping, equal sizes')
                seq = lo.pair_seq
                continue
            if w_ is not None and w_.pair_width is None and not has_const(w_):
                # start + <a length whose origin is not derivable>: neither the minimum width nor the width of one part
                ctx.ob('R4', e['where'], e['node'], None, 'length of the parts cut as self[start : start + n] not derivable')
                continue
        ctx.ob('R4', e['where'], e['node'], True if ok else (False if bad else None),
               'consecutive, non-overlapping frame ranges' if ok else 'frame ranges overlap / are not the consecutive pairs of the edge sequence')
        if ok:
            seq = lo.pair_seq
    if seq is not None and seq.linspace is not None and len(seq.linspace) >= 2 and seq.lin_n is not None:
        lo, n = seq.linspace[0], seq.lin_n
        n_l = _lin(n)
        ok = has_const(lo) and cval(lo) == 0 and seq.dtype == 'int' and n_l is not None and n_l[0] == {'n_parts': 1.0} and n_l[1] == 1
        ctx.ob('R4', fi, 'edge sequence', True if ok else None, 'n_parts + 1 non-decreasing integer edges from 0' if ok else 'edge sequence not recognised')
    else:
        ctx.ob('R4', fi, 'edge sequence', None, 'edge sequence is not np.linspace')
    # equal parts: every part trimmed from its start to the size of the smallest actual part
    for e, sl in trims:
        lo, hi = sl.lo, sl.hi
        from_start = lo is None or (has_const(lo) and cval(lo) == 0)
        if hi is None or not from_start:
            ctx.ob('R4', e['where'], e['node'], None, 'trim of the parts not recognised')
            continue
        derived = hi.minwidth is not None or (hi.lenof is not None and hi.lenof.ty == 'obj' and not hi.lenof.symbolic and hi.minmax is not None)
        one_part = hi.pair_width is not None or (hi.lenof is not None and hi.lenof.ty == 'obj' and not hi.lenof.symbolic and hi.minmax is None)
        if derived:
            ctx.ob('R4', e['where'], e['node'], True, 'equal parts: each part trimmed from its start to the size of the smallest actual part')
        elif one_part:
            ctx.ob('R4', e['where'], e['node'], False, 'the trim length is the size of one particular part, not the minimum over all parts: when another part is '
                                                       'shorter the "equal" parts have unequal lengths')
        else:
            l_ = _lin(hi)
            only_len = l_ is not None and set(l_[0]) <= {'len(self)', 'n_parts'} or (hi.sx is not None and 'len(self)' in hi.sx and 'min' not in hi.sx)
            ctx.ob('R4', e['where'], e['node'], False if only_len else None,
                   'the trim length is computed from len(self) and n_parts only, not from the actual frame ranges: the parts cut from the edge '
                   'sequence can be shorter, so "equal parts" come out with unequal lengths' if only_len else 'origin of the trim length not derivable')
