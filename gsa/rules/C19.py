"""C19 - time partitioning: complementary half-open tests, re-basing offsets, split siblings."""

from __future__ import annotations

import ast

from ..source import norm_text
from .C08 import linear
from .common import walk_no_nested

STE = 'gemdat.transitions._split_transitions_events'
TS = 'gemdat.transitions.Transitions.split'
JS = 'gemdat.jumps.Jumps.split'
TRS = 'gemdat.trajectory.Trajectory.split'


def check(ctx):
    ctx.doc('R1', 'event parts are selected by (key >= start) & (key < stop) over consecutive pairs of one increasing edge sequence '
                  'that starts at 0 and ends above the last possible event time: each event falls into exactly one part')
    ctx.doc('R2', 'times are re-based by the lower edge of the same part, on a copy of the selected rows')
    ctx.doc('R3', 'Transitions.split cuts states, inner states, events and both trajectories into the same number of parts and '
                  'combines the i-th pieces under their own names; Jumps.split re-derives jumps with the same settings')
    ctx.doc('R4', 'Trajectory.split cuts consecutive frame ranges self[start:stop] from one non-decreasing integer sequence')
    ctx.floor('R1', 4)
    ctx.floor('R2', 2)
    ctx.floor('R3', 6)
    ctx.floor('R4', 2)
    check_events(ctx)
    check_transitions_split(ctx)
    check_jumps_split(ctx)
    check_traj_split(ctx)


def check_events(ctx):
    fi = ctx.fn(STE)
    env = {}
    for n in ast.walk(fi.node):
        if isinstance(n, ast.Assign) and len(n.targets) == 1 and isinstance(n.targets[0], ast.Name):
            env.setdefault(n.targets[0].id, n.value)
    comps = [n for n in ast.walk(fi.node) if isinstance(n, ast.ListComp)]
    sel = None
    for c in comps:
        g = c.generators[0]
        if isinstance(g.iter, ast.Call) and norm_text(g.iter.func).endswith('pairwise') and isinstance(g.target, ast.Tuple) and len(g.target.elts) == 2:
            sel = c
    if sel is None:
        ctx.ob('R1', fi, 'part selection', None, 'selection over pairwise(edges) not recognised')
        return
    g = sel.generators[0]
    lo_name, hi_name = (norm_text(e) for e in g.target.elts)
    edges = norm_text(g.iter.args[0])
    # the mask
    mask = None
    for n in ast.walk(sel.elt):
        if isinstance(n, ast.BinOp) and isinstance(n.op, ast.BitAnd):
            mask = n
    btw = [n for n in ast.walk(sel.elt) if isinstance(n, ast.Call) and isinstance(n.func, ast.Attribute) and n.func.attr == 'between']
    if mask is None and btw:
        b = btw[0]
        a_ = [norm_text(x) for x in b.args]
        inc = next((k.value for k in b.keywords if k.arg == 'inclusive'), b.args[2] if len(b.args) > 2 else None)
        incv = inc.value if isinstance(inc, ast.Constant) else ('both' if inc is None else None)
        if a_[:2] == [lo_name, hi_name] and incv is not None:
            ok_lo = incv in ('both', 'left', True)
            ok_hi = incv in ('left', 'neither')
            ctx.ob('R1', fi, b, ok_lo, 'lower edge inclusive' if ok_lo else 'lower edge exclusive: an event on a part boundary (and at time 0) belongs to no part')
            ctx.ob('R1', fi, norm_text(b) + ' [upper]', ok_hi, 'upper edge exclusive' if ok_hi else
                   f'Series.between(..., inclusive={incv!r}) includes the upper edge: an event exactly on a part boundary is counted in two parts')
            ctx.ob('R1', fi, 'split column', True, 'one column tested')
            mask = 'between'
        else:
            ctx.ob('R1', fi, b, None, 'arguments of between() not recognised')
            return
    if mask == 'between':
        pass
    elif mask is None or not (isinstance(mask.left, ast.Compare) and isinstance(mask.right, ast.Compare)):
        ctx.ob('R1', fi, sel.elt, None, 'row mask is not the conjunction of two comparisons')
        return
    found = {'lo': None, 'hi': None}
    cols = set()
    for c in ((mask.left, mask.right) if mask != 'between' else ()):
        if len(c.ops) != 1:
            continue
        l, r, op = c.left, c.comparators[0], c.ops[0]
        lt, rt = norm_text(l), norm_text(r)
        # normalise to  column OP bound
        if rt in (lo_name, hi_name):
            col, bound, o = lt, rt, type(op)
        elif lt in (lo_name, hi_name):
            col, bound = rt, lt
            o = {ast.Lt: ast.Gt, ast.LtE: ast.GtE, ast.Gt: ast.Lt, ast.GtE: ast.LtE}.get(type(op), type(op))
        else:
            continue
        cols.add(col)
        found['lo' if bound == lo_name else 'hi'] = (o, c)
    if mask == 'between':
        pass
    elif found['lo'] is None or found['hi'] is None:
        ctx.ob('R1', fi, mask, None, 'lower / upper bound tests not recognised')
    else:
        (olo, clo), (ohi, chi) = found['lo'], found['hi']
        ok_lo, ok_hi = olo is ast.GtE, ohi is ast.Lt
        alt = olo is ast.Gt and ohi is ast.LtE  # (start, stop] is complementary too, but loses time 0
        ctx.ob('R1', fi, clo, ok_lo, 'lower edge inclusive' if ok_lo else
               ('lower edge exclusive: an event exactly on a part boundary (and at time 0) belongs to no part' if olo is ast.Gt else 'lower bound test is not >='))
        ctx.ob('R1', fi, chi, ok_hi, 'upper edge exclusive' if ok_hi else
               ('upper edge inclusive: an event exactly on a part boundary is counted in two parts' if ohi is ast.LtE else 'upper bound test is not <'))
        ctx.ob('R1', fi, 'split column', len(cols) == 1, 'both tests read the same column' if len(cols) == 1 else f'the two tests read different columns {sorted(cols)}')
    # the edge sequence
    ed = env.get(edges)
    if ed is None or not (isinstance(ed, ast.Call) and norm_text(ed.func).endswith('linspace') and len(ed.args) >= 3):
        ctx.ob('R1', fi, f'edges `{edges}`', None, 'edge sequence is not np.linspace(lo, hi, n)')
    else:
        lo, hi, cnt = ed.args[:3]
        lin_hi = linear(hi)
        lin_n = linear(cnt)
        ok_lo = isinstance(lo, ast.Constant) and lo.value == 0
        # last event time is n_states - 2 (a change between frames t and t+1 with t + 1 <= n_states - 1)
        ok_hi = lin_hi is not None and lin_hi[0] == {'n_states': 1} and lin_hi[1] >= -1
        ok_n = lin_n is not None and lin_n[0] == {'n_parts': 1} and lin_n[1] == 1
        ctx.ob('R1', fi, ed, True if (ok_lo and ok_hi and ok_n) else (False if (lin_hi is not None and lin_n is not None) else None),
               'n_parts + 1 edges from 0 to beyond the last event time' if (ok_lo and ok_hi and ok_n) else
               ('edges do not start at 0' if not ok_lo else ('the last edge does not exceed the last possible event time: late events are in no part' if not ok_hi
                                                              else 'number of edges is not n_parts + 1')))
    # ---- R2
    copies = isinstance(sel.elt, ast.Call) and isinstance(sel.elt.func, ast.Attribute) and sel.elt.func.attr == 'copy'
    ctx.ob('R2', fi, sel.elt, True if copies else False, 'selected rows are copied before re-basing' if copies else
           're-basing writes into a selection of the original event table (modifies the source / SettingWithCopy)')
    rebased = False
    for n in ast.walk(fi.node):
        if isinstance(n, ast.For) and isinstance(n.iter, ast.Call) and norm_text(n.iter.func) == 'zip':
            args = [norm_text(a).replace(' ', '') for a in n.iter.args]
            tg = [norm_text(t) for t in n.target.elts] if isinstance(n.target, ast.Tuple) else []
            for s in ast.walk(n):
                if isinstance(s, ast.AugAssign) and isinstance(s.op, ast.Sub):
                    rebased = True
                    off = norm_text(s.value)
                    which = dict(zip(tg, args)).get(off)
                    ok = which == f'{edges}[:-1]'
                    ctx.ob('R2', fi, s, True if ok else (False if which in (f'{edges}[1:]', edges) else None),
                           'offset = lower edge of the same part' if ok else
                           f'times are re-based by `{which}`: the upper edge / a different part (negative or shifted times)')
    if not rebased:
        ctx.ob('R2', fi, 're-basing', False, 'event times of the parts are not re-based to the start of the part')


def check_transitions_split(ctx):
    fi = ctx.fn(TS)
    env = {}
    for n in ast.walk(fi.node):
        if isinstance(n, ast.Assign) and len(n.targets) == 1 and isinstance(n.targets[0], ast.Name):
            env.setdefault(n.targets[0].id, n.value)
    want = {
        'split_states': ('array_split', 'self.states'), 'split_inner_states': ('array_split', 'self.inner_states'),
        'split_events': ('_split_transitions_events', 'self.events'), 'split_trajectory': ('split', 'self.trajectory'),
        'split_diff_trajectory': ('split', 'self.diff_trajectory'),
    }
    # find the constructor call and map keyword -> source expression
    cons = [n for n in ast.walk(fi.node) if isinstance(n, ast.Call) and norm_text(n.func) in ('self.__class__', 'Transitions', 'type(self)')]
    if not cons:
        ctx.ob('R3', fi, 'part construction', None, 'constructor call not found')
        return
    c = cons[0]
    kw = {k.arg: k.value for k in c.keywords}
    idxs = set()
    roles = {'states': 'self.states', 'inner_states': 'self.inner_states', 'events': 'self.events', 'trajectory': 'self.trajectory',
             'diff_trajectory': 'self.diff_trajectory'}
    for role, src in roles.items():
        v = kw.get(role)
        if v is None:
            ctx.ob('R3', fi, f'{role}=', False, f'`{role}` is not passed to the part')
            continue
        if not (isinstance(v, ast.Subscript) and isinstance(v.value, ast.Name)):
            ctx.ob('R3', fi, f'{role}=', None, 'piece is not list[i]')
            continue
        idxs.add(norm_text(v.slice))
        origin = env.get(v.value.id)
        ok = None
        msg = 'origin of the pieces not recognised'
        if isinstance(origin, ast.Call):
            fn = norm_text(origin.func).split('.')[-1]
            a0 = norm_text(origin.args[0]) if origin.args else (norm_text(origin.func.value) if isinstance(origin.func, ast.Attribute) else '')
            recv = norm_text(origin.func.value) if isinstance(origin.func, ast.Attribute) else ''
            subject = a0 if fn in ('array_split', '_split_transitions_events') else recv
            nparts = [norm_text(a) for a in origin.args] + [norm_text(k.value) for k in origin.keywords]
            uses_n = 'n_parts' in nparts
            ok = subject == src and uses_n
            msg = f'pieces of {src} cut into n_parts' if ok else (
                f'`{role}` receives pieces of `{subject}` instead of `{src}`' if subject != src else f'`{src}` is not cut into n_parts pieces')
            if subject != src or not uses_n:
                ok = False
        ctx.ob('R3', fi, f'{role}=', ok, msg)
    ctx.ob('R3', fi, c, len(idxs) == 1, 'all pieces taken at the same index' if len(idxs) == 1 else f'pieces are combined at different indices {sorted(idxs)}')
    loops = [n for n in ast.walk(fi.node) if isinstance(n, ast.For) and any(x is c for x in ast.walk(n))]
    for lp in loops[:1]:
        ok = norm_text(lp.iter).replace(' ', '') == 'range(n_parts)'
        ctx.ob('R3', fi, lp.iter, True if ok else None, 'exactly n_parts parts are built' if ok else 'loop range not recognised')
    sites = kw.get('sites')
    ctx.ob('R3', fi, 'sites=', sites is not None and norm_text(sites) == 'self.sites', 'same sites for every part')


def check_jumps_split(ctx):
    fi = ctx.fn(JS)
    it = ctx.entry(JS)
    # the Jumps objects built for the parts (directly or through Transitions.jumps(**kwargs))
    cons = [e for e in it.events if e['tag'] == 'construct' and e['cls'] == 'gemdat.jumps.Jumps' and JS in e['ctx']]
    if not cons:
        ctx.ob('R3', fi, 'Jumps(part, ...)', None, 'construction of the per-part Jumps not found')
        return
    e = cons[-1]
    kw = dict(e['kwargs'])
    star = kw.pop('**', None)
    if star is not None and star.kw:
        for k_, v_ in star.kw.items():
            kw.setdefault(k_, v_)
    for k in ('conversion_method', 'minimal_residence'):
        v = kw.get(k)
        ok = v is not None and (v.store == f'attr:Jumps.{k}' or (v.deps and any(d.endswith(f'.{k}') for d in v.deps)) or v.ty == 'func' or v.is_param)
        ctx.ob('R3', fi, f'{k}=', True if ok else False, f'{k} of the source forwarded' if ok else
               f'`{k}` is not forwarded: the parts are analysed with the default setting, so jumps rejected in the whole are counted in the parts '
               f'(part counts exceed the total)')
    src = [n for n in ast.walk(fi.node) if isinstance(n, ast.Call) and norm_text(n.func) == 'self.transitions.split']
    ok = bool(src) and any(norm_text(a) == 'n_parts' for s in src for a in list(s.args) + [k.value for k in s.keywords])
    ctx.ob('R3', fi, 'self.transitions.split(n_parts)', True if ok else None, 'jumps re-derived from the transition parts')


def check_traj_split(ctx):
    fi = ctx.fn(TRS)
    env = {}
    for n in ast.walk(fi.node):
        if isinstance(n, ast.Assign) and len(n.targets) == 1 and isinstance(n.targets[0], ast.Name):
            env.setdefault(n.targets[0].id, n.value)
    comps = [n for n in ast.walk(fi.node) if isinstance(n, ast.ListComp)]
    main = None
    for c in comps:
        g = c.generators[0]
        if isinstance(g.iter, ast.Call) and norm_text(g.iter.func).endswith('pairwise'):
            main = c
    if main is None:
        ctx.ob('R4', fi, 'parts', None, 'parts over pairwise(interval) not recognised')
        return
    g = main.generators[0]
    a, b = (norm_text(e) for e in g.target.elts)
    t = norm_text(main.elt).replace(' ', '')
    ok = t == f'self[{a}:{b}]'
    ctx.ob('R4', fi, main.elt, True if ok else (False if t in (f'self[{b}:{a}]', f'self[{a}:{b}+1]', f'self[{a}:]') else None),
           'consecutive, non-overlapping frame ranges' if ok else 'frame ranges overlap / are not the consecutive pairs of the edge sequence')
    seq = env.get(norm_text(g.iter.args[0]))
    if isinstance(seq, ast.Call) and norm_text(seq.func).endswith('linspace'):
        lo = seq.args[0]
        dt = next((k.value for k in seq.keywords if k.arg == 'dtype'), None)
        cnt = linear(seq.args[2]) if len(seq.args) > 2 else None
        ok = isinstance(lo, ast.Constant) and lo.value == 0 and dt is not None and norm_text(dt) == 'int' and cnt is not None \
            and cnt[0] == {'n_parts': 1} and cnt[1] == 1
        ctx.ob('R4', fi, seq, True if ok else None, 'n_parts + 1 non-decreasing integer edges from 0' if ok else 'edge sequence not recognised')
    else:
        ctx.ob('R4', fi, 'interval', None, 'edge sequence is not np.linspace')
    eq_if = [n for n in ast.walk(fi.node) if isinstance(n, ast.If) and 'equal_parts' in norm_text(n.test)]
    for blk in eq_if:
        names = set()
        lens = False
        for b_ in blk.body:
            for w in ast.walk(b_):
                if isinstance(w, ast.Assign) and any(isinstance(t, ast.Name) and t.id == 'minsize' for t in w.targets):
                    # names feeding the value, and the iteration space of enclosing loops
                    names |= {x.id for x in ast.walk(w.value) if isinstance(x, ast.Name)}
                    lens = lens or any(isinstance(x, ast.Call) and isinstance(x.func, ast.Name) and x.func.id == 'len' and x.args
                                       and norm_text(x.args[0]) != 'self' for x in ast.walk(w.value))
            if isinstance(b_, ast.For) and any(isinstance(w, ast.Assign) and any(isinstance(t, ast.Name) and t.id == 'minsize' for t in w.targets) for w in ast.walk(b_)):
                names |= {x.id for x in ast.walk(b_.iter) if isinstance(x, ast.Name)}
        derived = bool(names & {norm_text(g.iter.args[0]), 'subtrajectories'}) or lens
        has_min = any(isinstance(w, ast.Call) and norm_text(w.func).split('.')[-1] in ('min', 'amin') for b_ in blk.body for w in ast.walk(b_))
        if derived and not has_min:
            ctx.ob('R4', fi, 'minsize', False, 'the trim length is the size of one particular part, not the minimum over all parts: when another part is '
                                               'shorter the "equal" parts have unequal lengths')
            continue
        ctx.ob('R4', fi, 'minsize', derived, 'trim length = size of the smallest actual part' if derived else
               'the trim length is computed from len(self) and n_parts only, not from the actual frame ranges: the parts cut from the edge '
               'sequence can be shorter, so "equal parts" come out with unequal lengths')
    trims = [n for n in comps if n is not main]
    for n in trims:
        t = norm_text(n.elt).replace(' ', '')
        ok = t.endswith('[0:minsize]') or t.endswith('[:minsize]')
        ctx.ob('R4', fi, n.elt, True if ok else None, 'equal parts: each part trimmed to the smallest size from its start')
