"""C03 - transition events: emptiness guards, frame offsets, row/column table, fill direction."""

from __future__ import annotations

import ast

from ..interp import cval, has_const
from ..source import norm_text
from .common import calls_in
from .geo import uniq_events

FT = 'gemdat.transitions.Transitions.from_trajectory'
CTE = 'gemdat.transitions._calculate_transition_events'
TR = 'gemdat.transitions.Transitions'

EXPECTED = {
    'atom index': ('ATOM', None, None),
    'start site': ('SITE', 0, 'atom_sites'),
    'destination site': ('SITE', 1, 'atom_sites'),
    'start inner site': ('SITE', 0, 'atom_inner_sites'),
    'destination inner site': ('SITE', 1, 'atom_inner_sites'),
    'time': ('FRAME', 0, None),
}


def check(ctx):
    ctx.doc('R1', 'inside the event builder, taking the first/last element of a possibly empty index array is dominated by '
                  'a non-emptiness refinement of that array (an atom whose inner state never changes has no inner changes)')
    ctx.doc('R2', 'change indices come from a circular shifted comparison; with shift -1 the index is the last frame before '
                  'the change: "start" columns read a[t], "destination" columns a[t+1]; the wrap-around pseudo index len-1 is '
                  'removed on every path before t+1 is used as an index')
    ctx.doc('R3', 'the stacked rows carry the kinds their column labels name (atom, outer site before/after, inner site before/after, frame t)')
    ctx.doc('R4', 'previous site = forward fill, next site = backward fill of the outer states, fill marker NOSITE, along the frame axis')
    ctx.floor('R2', 4)
    ctx.floor('R3', 6)
    ctx.floor('R4', 2)
    it = ctx.entry(FT)
    fi = ctx.fn(CTE)
    inside = lambda f: f.qualname == CTE
    # ---- R1
    n = 0
    for e in uniq_events(it, {'index'}, inside):
        base, idx = e['base'], e['index']
        if base is None or idx is None or base.ty != 'ndarray':
            continue
        if not (has_const(idx) and cval(idx) in (-1, 0)):
            continue
        if not (base.nonzero_of is not None or base.maybe_empty or base.nonempty):
            continue
        n += 1
        # every evaluation of this construct must see a non-empty array: look at all events of the node
        all_ev = [x for x in it.events if x['tag'] == 'index' and x['node'] is e['node']]
        bad = any(x['base'].maybe_empty for x in all_ev)
        ctx.ob('R1', fi, e['node'], not bad,
               'array proven non-empty here' if not bad else
               f'`{norm_text(e["node"])}` is evaluated on an index array that can be empty (an atom that changes its outer '
               f'site but never its inner state): IndexError while building the event table')
    for e in uniq_events(it, {'wrap_filter_too_strict'}, inside):
        ctx.ob('R2', fi, e['node'], False, 'the mask that removes the wrap-around pseudo change also removes real changes at the last '
                                           'frames: a change between the last two frames is never reported')
    if n == 0:
        ctx.ob('R1', fi, 'first/last element of change-index arrays', True, 'no first/last element of a possibly empty index array is taken')
    # ---- R2 / R3 from the table
    tabs = uniq_events(it, {'table'}, inside)
    if not tabs:
        ctx.ob('R3', fi, 'event table', None, 'DataFrame(data=stacked rows, columns=[...]) not recognised')
    for e in tabs:
        names, vals = e['names'], e['values']
        if len(names) != len(vals):
            ctx.ob('R3', fi, e['node'], False, f'{len(vals)} stacked rows but {len(names)} column names')
            continue
        if set(names) != set(EXPECTED):
            ctx.ob('R3', fi, e['node'], None, f'unexpected column set {names}')
            continue
        for name, v in zip(names, vals):
            kind, at, src = EXPECTED[name]
            vi = v.idx
            have_kind = vi[0] if vi is not None else None
            srcs = sorted(d.split('.')[-1] for d in (v.origin or frozenset()) if d.startswith('_calculate_transition_events.'))
            ok = have_kind == kind
            why = []
            if not ok and have_kind == 'SUBPOS':
                why.append(f'holds positions inside a filtered selection of {vi[1]}s, not {vi[1]} indices: rows are attributed to the wrong {vi[1]}')
            elif not ok:
                why.append(f'holds {have_kind or "an unknown kind"} values, expected {kind}')
            if ok and src is not None and srcs != [src]:
                ok = False
                why.append(f'is read from {srcs or "?"}, expected from {src}')
            ctx.ob('R3', fi, f"column '{name}'", ok if (ok or vi is not None) else None,
                   f'{kind.lower()} values' + (f' of {src}' if src else '') if ok else f"column '{name}' " + '; '.join(why))
            if kind in ('SITE',) and have_kind == 'SITE' and v.at == 'mixed':
                ctx.ob('R2', fi, f"column '{name}' frame offset", False,
                       'change indices of different frame offsets (shift -1 gives t, shift +1 gives t+1) are merged into one '
                       'time axis: before/after columns are read one frame off for some events')
            elif kind in ('SITE',) and have_kind == 'SITE':
                ok2 = v.at == at
                ctx.ob('R2', fi, f"column '{name}' frame offset", ok2 if v.at is not None else None,
                       f'state at frame t{"+1" if at else ""}' if ok2 else
                       f"column '{name}' holds the state at frame t{'+1' if v.at else ''} instead of t{'+1' if at else ''}: "
                       f'before/after are not the states around the change')
                if v.index_may_wrap is not None and v.index_may_wrap >= 1:
                    ctx.ob('R2', fi, f"column '{name}' index range", False,
                           'the wrap-around pseudo change (last frame vs first frame) of the circular shift is still among the '
                           'indices when t+1 is used as an index: IndexError / a spurious last event')
            if kind == 'FRAME' and have_kind == 'FRAME':
                ok2 = (v.at or 0) == 0
                ctx.ob('R2', fi, "column 'time' frame offset", ok2, 'time is the last frame before the change' if ok2 else
                       "column 'time' is not the frame t the start/destination columns refer to")
    # the shifted comparisons themselves
    for n_ in ast.walk(fi.node):
        if isinstance(n_, ast.Call) and norm_text(n_.func).endswith('nonzero'):
            v = it.value_of(n_)
            e0 = v.elts[0] if (v is not None and v.elts) else v
            if e0 is not None and e0.idx == ('FRAME', 'roll'):
                ctx.ob('R2', fi, n_, True, f'change index at offset t+{e0.at}')
            elif e0 is not None and e0.idx == ('FRAME', 'roll?'):
                ctx.ob('R2', fi, n_, None, 'shift of the circular comparison is not +-1')
    # ---- R4
    for meth, fill in (('states_prev', 'gemdat.utils.ffill'), ('states_next', 'gemdat.utils.bfill')):
        fm = ctx.fn(f'{TR}.{meth}')
        itm = ctx.entry(fm.qualname)
        calls = [e for e in itm.events if e['tag'] == 'call' and e['where'] is not None and e['where'].qualname == fm.qualname
                 and e['callee'] in ('gemdat.utils.ffill', 'gemdat.utils.bfill')]
        if not calls:
            ctx.ob('R4', fm, meth, None, 'fill call not recognised')
            continue
        e = calls[0]
        probs = []
        if e['callee'] != fill:
            probs.append(f'{meth} uses {e["callee"].split(".")[-1]}: previous and next site are exchanged')
        arr = e['args'][0] if e['args'] else e['kwargs'].get('arr')
        node = e['node']
        a0 = norm_text(node.args[0]) if node.args else None
        if a0 != 'self.states':
            probs.append(f'fills {a0} instead of the outer states')
        fv = e['kwargs'].get('fill_val') or (e['args'][1] if len(e['args']) > 1 else None)
        if fv is None or not (fv.nosite_marker or (has_const(fv) and cval(fv) == -1)):
            probs.append('fill marker is not NOSITE')
        ax = e['kwargs'].get('axis') or (e['args'][2] if len(e['args']) > 2 else None)
        if ax is None or not (has_const(ax) and cval(ax) == 0):
            probs.append('does not fill along the frame axis (axis=0)')
        ctx.ob('R4', fm, node, not probs, '; '.join(probs) if probs else f'{fill.split(".")[-1]} of the states along frames with NOSITE')
    check_fill_helpers(ctx)
    # the fill helpers are read-only on their argument (states_prev / states_next must not alter Transitions.states)
    for meth in ('states_prev', 'states_next'):
        itm = ctx.entry(f'{TR}.{meth}')
        seen = set()
        for e in itm.events:
            if e['tag'] != 'store' or e['where'] is None or e['where'].qualname not in ('gemdat.utils.ffill', 'gemdat.utils.bfill'):
                continue
            b = e['base']
            if b is None or id(e['node']) in seen or e['kind'] == 'attr':
                continue
            seen.add(id(e['node']))
            if b.store is not None and b.store.startswith('attr:'):
                ctx.ob('R4', e['where'], e['node'], False,
                       f'{e["where"].name} writes into its argument, which is (a view of) {b.store[5:]}: asking for the previous / next site '
                       f'overwrites the recorded states, so the states no longer match the event table')


def check_fill_helpers(ctx):
    """bfill mirrors ffill (flip, forward fill with the same marker, flip back)."""
    fb = ctx.fn('gemdat.utils.bfill')
    last = fb.node.body[-1]
    main = last.value if isinstance(last, ast.Return) else None
    txt = norm_text(main).replace(' ', '') if main is not None else ''
    ok = txt in ('np.fliplr(ffill(np.fliplr(arr),fill_val=fill_val))', 'np.fliplr(ffill(np.fliplr(arr),fill_val))')
    ctx.ob('R4', fb, main if main is not None else 'bfill', True if ok else None,
           'backward fill = flipped forward fill with the same marker' if ok else 'bfill is not written as the mirror of ffill')
