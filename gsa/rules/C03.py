"""C03 - transition events: emptiness guards, frame offsets, row/column table, fill direction."""

from __future__ import annotations

import ast

from ..interp import cval, has_const
from ..source import norm_text
from .common import calls_in
from .geo import KIND_ERRORS, under, uniq_events

FT = 'gemdat.transitions.Transitions.from_trajectory'
CTE = 'gemdat.transitions._calculate_transition_events'
TR = 'gemdat.transitions.Transitions'

EXPECTED = {
    'atom index': ('ATOM', None, None),
    'start site': ('SITE', 0, 'atom_sites'),
    'destination site': ('SITE', 1, 'atom_sites'),
    'start inner site': ('SITE', 0, 'atom_inner_sites'),
    'destination inner site': ('SITE', 1, 'atom_inner_sites'),
    'time': ('FRAME', 0, None),
}


def check(ctx):
    ctx.doc('R1', 'inside the event builder, taking the first/last element of a possibly empty index array is dominated by '
                  'a non-emptiness refinement of that array (an atom whose inner state never changes has no inner changes)')
    ctx.doc('R2', 'change indices come from a circular shifted comparison; with shift -1 the index is the last frame before '
                  'the change: "start" columns read a[t], "destination" columns a[t+1]; the wrap-around pseudo index len-1 is '
                  'removed on every path before t+1 is used as an index')
    ctx.doc('R3', 'the stacked rows carry the kinds their column labels name (atom, outer site before/after, inner site before/after, frame t)')
    ctx.doc('R4', 'previous site = forward fill, next site = backward fill of the outer states, fill marker NOSITE, along the frame axis')
    ctx.floor('R2', 4)
    ctx.doc('K1', '[C20.R1] states_prev / states_next are served through weak_lru_cache: its cache must be keyed on weakref.ref(self) '
                  '(an id()-keyed cache hands a dead object\'s result to a new object at the same address)')
    from .C20 import check_decorator
    check_decorator(ctx, 'K1')
    ctx.floor('R3', 6)
    ctx.floor('R4', 2)
    it = ctx.entry(FT)
    fi = ctx.fn(CTE)
    inside = under(CTE)
    # ---- R1
    n = 0
    for e in uniq_events(it, {'index'}, inside):
        base, idx = e['base'], e['index']
        if base is None or idx is None or base.ty != 'ndarray':
            continue
        if not (has_const(idx) and cval(idx) in (-1, 0)):
            continue
        if not (base.nonzero_of is not None or base.maybe_empty or base.nonempty):
            continue
        n += 1
        # every evaluation of this construct must see a non-empty array: look at all events of the node
        all_ev = [x for x in it.events if x['tag'] == 'index' and x['node'] is e['node']]
        bad = any(x['base'].maybe_empty for x in all_ev)
        ctx.ob('R1', fi, e['node'], not bad,
               'array proven non-empty here' if not bad else
               f'`{norm_text(e["node"])}` is evaluated on an index array that can be empty (an atom that changes its outer '
               f'site but never its inner state): IndexError while building the event table')
    for e in uniq_events(it, {'index_truthiness'}, inside):
        ctx.ob('R1', e['where'], e['node'], False, KIND_ERRORS['index_truthiness'] + ': an atom whose only change happens between the first two '
                                                   'frames is skipped, its events are missing')
    for e in uniq_events(it, {'wrap_filter_too_strict'}, inside):
        ctx.ob('R2', fi, e['node'], False, 'the mask that removes the wrap-around pseudo change also removes real changes at the last '
                                           'frames: a change between the last two frames is never reported')
    if n == 0:
        ctx.ob('R1', fi, 'first/last element of change-index arrays', True, 'no first/last element of a possibly empty index array is taken')
    # ---- R2 / R3 from the table
    tabs = uniq_events(it, {'table'}, inside)
    if not tabs:
        ctx.ob('R3', fi, 'event table', None, 'DataFrame(data=stacked rows, columns=[...]) not recognised')
    for e in tabs:
        names, vals = e['names'], e['values']
        if len(names) != len(vals):
            ctx.ob('R3', fi, e['node'], False, f'{len(vals)} stacked rows but {len(names)} column names')
            continue
        if set(names) != set(EXPECTED):
            ctx.ob('R3', fi, e['node'], None, f'unexpected column set {names}')
            continue
        for name, v in zip(names, vals):
            kind, at, src = EXPECTED[name]
            vi = v.idx
            have_kind = vi[0] if vi is not None else None
            srcs = sorted(d.split('.')[-1] for d in (v.origin or frozenset()) if d.startswith('_calculate_transition_events.'))
            ok = have_kind == kind
            why = []
            if not ok and have_kind == 'SUBPOS':
                why.append(f'holds positions inside a filtered selection of {vi[1]}s, not {vi[1]} indices: rows are attributed to the wrong {vi[1]}')
            elif not ok:
                why.append(f'holds {have_kind or "an unknown kind"} values, expected {kind}')
            if ok and src is not None and srcs != [src]:
                ok = False
                why.append(f'is read from {srcs or "?"}, expected from {src}')
            ctx.ob('R3', fi, f"column '{name}'", ok if (ok or vi is not None) else None,
                   f'{kind.lower()} values' + (f' of {src}' if src else '') if ok else f"column '{name}' " + '; '.join(why))
            if name == 'time' and v.appearance_order:
                # a later re-ordering anywhere in the builder (sort_values, np.sort, .sort(), sorted) makes the clause undecided
                resort = any(isinstance(c_, ast.Call) and ((isinstance(c_.func, ast.Attribute) and c_.func.attr in
                                                            ('sort_values', 'sort', 'argsort', 'lexsort', 'sort_index'))
                                                           or (isinstance(c_.func, ast.Name) and c_.func.id == 'sorted'))
                             for c_ in ast.walk(fi.node))
                ctx.ob('R3', fi, "column 'time' order", None if resort else False,
                       'the change frames of an atom are de-duplicated in order of first appearance (pandas.unique), not sorted: when outer '
                       'and inner change indices are merged, inner-only changes come after all outer changes, the rows of an atom are '
                       'no longer chronological and the scan that pairs departures with arrivals reads them out of order')
            if kind in ('SITE',) and have_kind == 'SITE' and v.at == 'mixed':
                ctx.ob('R2', fi, f"column '{name}' frame offset", False,
                       'change indices of different frame offsets (shift -1 gives t, shift +1 gives t+1) are merged into one '
                       'time axis: before/after columns are read one frame off for some events')
            elif kind in ('SITE',) and have_kind == 'SITE':
                ok2 = v.at == at
                ctx.ob('R2', fi, f"column '{name}' frame offset", ok2 if v.at is not None else None,
                       f'state at frame t{"+1" if at else ""}' if ok2 else
                       f"column '{name}' holds the state at frame t{'+1' if v.at else ''} instead of t{'+1' if at else ''}: "
                       f'before/after are not the states around the change')
                if v.index_may_wrap is not None and v.index_may_wrap >= 1:
                    ctx.ob('R2', fi, f"column '{name}' index range", False,
                           'the wrap-around pseudo change (last frame vs first frame) of the circular shift is still among the '
                           'indices when t+1 is used as an index: IndexError / a spurious last event')
            if kind == 'FRAME' and have_kind == 'FRAME':
                ok2 = (v.at or 0) == 0
                ctx.ob('R2', fi, "column 'time' frame offset", ok2, 'time is the last frame before the change' if ok2 else
                       "column 'time' is not the frame t the start/destination columns refer to")
    # the shifted comparisons themselves
    for n_ in ast.walk(fi.node):
        if isinstance(n_, ast.Call) and norm_text(n_.func).endswith('nonzero'):
            v = it.value_of(n_)
            e0 = v.elts[0] if (v is not None and v.elts) else v
            if e0 is not None and e0.idx == ('FRAME', 'roll'):
                ctx.ob('R2', fi, n_, True, f'change index at offset t+{e0.at}')
            elif e0 is not None and e0.idx == ('FRAME', 'roll?'):
                ctx.ob('R2', fi, n_, None, 'shift of the circular comparison is not +-1')
    # ---- R4
    for meth, want_back in (('states_prev', False), ('states_next', True)):
        fm = ctx.fn(f'{TR}.{meth}')
        itm = ctx.entry(fm.qualname)
        r = itm.result
        f = r.filled if r is not None else None
        if f is None:
            ctx.ob('R4', fm, 'return value', None, 'the returned array is not recognised as a forward / backward fill')
            continue
        probs = []
        back = bool(f['inflip'])
        if r.flipped:
            probs.append('the filled array is returned in reversed order')
        elif back != want_back:
            probs.append(f'{meth} is a {"backward" if back else "forward"} fill: previous and next site are exchanged')
        if f['store'] != 'attr:Transitions.states':
            probs.append(f'fills {(f["store"] or "another array").replace("attr:", "")} instead of the outer states')
        mk = f['marker']
        if mk is None or not (mk.nosite_marker or mk.gname == 'gemdat.transitions.NOSITE' or (has_const(mk) and cval(mk) == -1)):
            probs.append('fill marker is not NOSITE')
        if f['axis'] != 'frame':
            probs.append(f'does not fill along the frame axis (fills along {f["axis"]})')
        if r.axes is not None and r.axes != ('frame', 'atom'):
            probs.append(f'the result is laid out {r.axes} instead of [frame, atom]')
        ctx.ob('R4', fm, 'return value', not probs, '; '.join(probs) if probs else
               f'{"backward" if want_back else "forward"} fill of the states along frames with NOSITE')
    check_fill_helpers(ctx)
    # the fill helpers are read-only on their argument (states_prev / states_next must not alter Transitions.states)
    for meth in ('states_prev', 'states_next'):
        itm = ctx.entry(f'{TR}.{meth}')
        seen = set()
        for e in itm.events:
            if e['tag'] != 'store' or e['where'] is None or e['where'].qualname not in ('gemdat.utils.ffill', 'gemdat.utils.bfill'):
                continue
            b = e['base']
            if b is None or id(e['node']) in seen or e['kind'] == 'attr':
                continue
            seen.add(id(e['node']))
            if b.store is not None and b.store.startswith('attr:'):
                ctx.ob('R4', e['where'], e['node'], False,
                       f'{e["where"].name} writes into its argument, which is (a view of) {b.store[5:]}: asking for the previous / next site '
                       f'overwrites the recorded states, so the states no longer match the event table')


def check_fill_helpers(ctx):
    """ffill fills forward and bfill backward along the requested axis, for the default axis and for axis=0."""
    from ..interp import AV, const
    for name, want_back in (('ffill', False), ('bfill', True)):
        fh = ctx.fn(f'gemdat.utils.{name}')
        for axis, along in ((None, 'c'), (0, 'r')):
            arr = AV(ty='ndarray', axes=('r', 'c'), store='param:arr', dtype='int')
            args = dict(arr=arr, fill_val=AV(ty='int', marker_param=True))
            args['axis'] = const(axis if axis is not None else -1)
            ith = ctx.entry(fh.qualname, args=args)
            r = ith.result
            f = r.filled if r is not None else None
            what = f'{name}(arr, axis={axis if axis is not None else "default"})'
            if f is None:
                ctx.ob('R4', fh, what, None, f'{name} is not recognised as a fill along one axis')
                continue
            probs = []
            if r.flipped:
                probs.append('result is returned in reversed order')
            elif bool(f['inflip']) != want_back:
                probs.append(f'{name} fills {"backward" if f["inflip"] else "forward"}')
            if f['axis'] != along:
                probs.append(f'fills along axis {f["axis"]} instead of {along}')
            if r.axes is not None and r.axes != ('r', 'c'):
                probs.append('result layout differs from the input layout')
            ctx.ob('R4', fh, what, not probs, '; '.join(probs) if probs else f'{"backward" if want_back else "forward"} fill along the requested axis')
