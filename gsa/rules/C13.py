"""C13 - drift correction: species-kind membership, isinstance siblings, atom-axis mean, constructor completeness."""

from __future__ import annotations

import ast

from ..interp import cval, has_const
from ..source import norm_text
from .geo import KIND_ERRORS, all_geos, geo_text, under, uniq_events

TRAJ = 'gemdat.trajectory.Trajectory'


def elem_kind(c):
    """'symbol' | 'species' | None for the elements of a container value."""
    if c is None:
        return None
    if c.ty == 'str':
        return 'symbol'  # `x in "Li"`: substring test on a symbol string
    els = []
    if c.elts:
        els += list(c.elts)
    if c.elem is not None:
        els.append(c.elem)
    kinds = set()
    for e in els:
        if e.ty == 'Species' or e.species_obj:
            kinds.add('species')
        elif e.ty == 'str':
            kinds.add('symbol')
        elif e.alts:
            for a in e.alts:
                kinds.add('symbol' if a.ty == 'str' else None)
    if len(kinds) == 1:
        return next(iter(kinds))
    if kinds == {'species', 'symbol'}:
        return 'mixed'
    return None


def check(ctx):
    ctx.doc('R1', 'membership tests that select atoms compare like with like: a species symbol is looked up in a collection of '
                  'symbols (never in a collection of Species objects)')
    ctx.doc('R2', 'all isinstance assertions on the items of Trajectory.species in trajectory.py accept the same species types')
    ctx.doc('R3', 'drift = mean of the minimum-image displacements over the atom axis, broadcast back over atoms')
    ctx.doc('R4', 'the corrected trajectory is rebuilt in displacement mode from displacements - drift with species, lattice, '
                  'metadata, base positions and time step of the source')
    ctx.floor('R1', 2)
    ctx.floor('R2', 1)
    ctx.floor('R3', 1)
    ctx.floor('R4', 7)
    fd = ctx.fn(f'{TRAJ}.drift')
    ff = ctx.fn(f'{TRAJ}.filter')
    from ..interp import AV
    runs = {
        'fixed_species': ctx.entry(fd.qualname, args={'fixed_species': AV(ty='list', elem=AV(ty='str'), truthy=True), 'floating_species': AV(ty='None', const=('c', None))}),
        'floating_species': ctx.entry(fd.qualname, args={'floating_species': AV(ty='list', elem=AV(ty='str'), truthy=True), 'fixed_species': AV(ty='None', const=('c', None))}),
    }
    # ---- R1
    in_df = under(fd.qualname, ff.qualname)
    for which, it in runs.items():
        seen = set()
        for e in it.events:
            if e['tag'] != 'membership' or e['where'] is None or not in_df(e):
                continue
            item, cont = e['item'], e['container']
            if cont is not None and cont.ty == 'None':
                continue  # this configuration passes None for the collection: the test is not reached with it
            ik = 'symbol' if (item.ty == 'str') else ('species' if item.ty == 'Species' else None)
            ck = elem_kind(cont)
            if item.ty == 'str' and item.strof in ('Species', 'Element', 'PeriodicSite') and ck == 'symbol':
                ctx.ob('R1', e['where'], norm_text(e['node']) + f' [{which}]', False,
                       f'with `{which}` the text str(species) is looked up among element symbols: for species with an oxidation state it reads '
                       f'"Li+", "S2-", which never equals the symbol, so those atoms silently fall on the other side of the selection')
                continue
            key = (id(e['node']), ck)
            if key in seen:
                continue
            seen.add(key)
            if ik is None or ck is None:
                ctx.ob('R1', e['where'], norm_text(e['node']) + f' [{which}]', None, f'kinds of the membership test not derivable ({ik} in collection of {ck})')
            elif ik != ck:
                ctx.ob('R1', e['where'], norm_text(e['node']) + f' [{which}]', False,
                       f'with `{which}` a species {ik} is looked up in a collection of {ck if ck != "species" else "Species objects"}: the '
                       f'test is never true, no reference atom is selected and the drift is the mean of an empty selection (NaN)')
            else:
                ctx.ob('R1', e['where'], norm_text(e['node']) + f' [{which}]', True, f'{ik} looked up among {ck}s')
    for which, it in runs.items():
        for e in uniq_events(it, {'isin_set'}, in_df):
            ctx.ob('R1', e['where'], norm_text(e['node']) + f' [{which}]', False, KIND_ERRORS['isin_set'] + ': the reference selection is empty and the drift is the mean of nothing (NaN)')
    # a `str | Collection[str]` parameter may be one symbol: iterating it (set operations, set(x), for ... in x) splits 'Li' into 'L', 'i'
    for fi_ in (fd, ff, ctx.fn(f'{TRAJ}.apply_drift_correction')):
        cfg = ctx.cfg(fi_.qualname)
        a_ = fi_.node.args
        for prm in a_.args + a_.kwonlyargs:
            ann = norm_text(prm.annotation) if prm.annotation is not None else ''
            if not ('str' in ann and 'Collection' in ann):
                continue
            for n_ in ast.walk(fi_.node):
                use = None
                if isinstance(n_, ast.Call):
                    fn_ = n_.func
                    args_ = [x for x in n_.args if isinstance(x, ast.Name) and x.id == prm.arg]
                    if args_ and isinstance(fn_, ast.Attribute) and fn_.attr in ('difference', 'union', 'intersection', 'symmetric_difference',
                                                                                  'issubset', 'issuperset', 'update', 'difference_update', 'extend'):
                        use = n_
                    elif args_ and isinstance(fn_, ast.Name) and fn_.id in ('set', 'list', 'tuple', 'sorted', 'frozenset'):
                        use = n_
                elif isinstance(n_, (ast.For, ast.comprehension)) and isinstance(n_.iter, ast.Name) and n_.iter.id == prm.arg:
                    use = n_.iter
                elif isinstance(n_, ast.BinOp) and isinstance(n_.op, (ast.Sub, ast.BitAnd, ast.BitOr)) and any(
                        isinstance(x, ast.Name) and x.id == prm.arg for x in (n_.left, n_.right)):
                    use = n_
                if use is None:
                    continue
                nid = cfg.node_of(use)
                guarded = False
                if nid is not None:
                    for g_, pol in cfg.guards(nid):
                        t_ = norm_text(g_).replace(' ', '')
                        if t_ == f'isinstance({prm.arg},str)' and pol is False:
                            guarded = True
                # normalisation earlier on every path: `if isinstance(x, str): x = [x]`
                for s_ in ast.walk(fi_.node):
                    if isinstance(s_, ast.If) and norm_text(s_.test).replace(' ', '') == f'isinstance({prm.arg},str)' and s_.lineno < use.lineno \
                            and any(isinstance(w, ast.Assign) and any(isinstance(t, ast.Name) and t.id == prm.arg for t in w.targets) for w in s_.body):
                        guarded = True
                ctx.ob('R1', fi_, use, guarded, f'`{prm.arg}` is normalised to a collection before it is iterated' if guarded else
                       f'`{prm.arg}` may be a single symbol string (`{ann}`); here it is iterated, so "Li" is treated as the symbols "L" and "i": '
                       f'naming the floating species by a plain string selects the wrong reference atoms')
    # ---- R2
    sets = {}
    # isinstance tests applied to items of a species list, in the trajectory methods and the private helpers they call
    for name, mfi in sorted(ctx.p.cls(TRAJ).methods.items()):
        calls_isinstance = any(isinstance(n, ast.Name) and n.id == 'isinstance' for n in ast.walk(mfi.node))
        helper_calls = any(isinstance(n, ast.Call) and isinstance(n.func, ast.Name) and n.func.id.startswith('_') for n in ast.walk(mfi.node))
        if not (calls_isinstance or helper_calls):
            continue
        mit = ctx.entry(mfi.qualname)
        reached = {mfi.qualname: mfi}
        for e in mit.events:
            if e['where'] is not None and under(mfi.qualname)(e):
                reached[e['where'].qualname] = e['where']
        for fi in reached.values():
            for n in ast.walk(fi.node):
                if isinstance(n, ast.Call) and isinstance(n.func, ast.Name) and n.func.id == 'isinstance' and len(n.args) == 2:
                    sv = mit.value_of(n.args[0])
                    if sv is None or sv.ty not in ('Species', 'Element'):
                        continue
                    t = n.args[1]
                    names = sorted(norm_text(e).split('.')[-1] for e in (t.elts if isinstance(t, ast.Tuple) else [t]))
                    sets[(fi.qualname, id(n))] = (fi, n, tuple(names))
    if sets:
        widest = max((v[2] for v in sets.values()), key=len)
        for fi, n, names in sets.values():
            ok = set(names) == set(widest)
            ctx.ob('R2', fi, n, ok, f'accepts {list(names)}' if ok else
                   f'{fi.name} accepts only {list(names)} while the sibling accessors accept {list(widest)}: trajectories whose species '
                   f'are {sorted(set(widest) - set(names))} objects work everywhere else but fail here (AssertionError)')
    else:
        ctx.ob('R2', fd, 'isinstance assertions', None, 'no isinstance assertion on species items found')
    # ---- R3
    it = runs['fixed_species']
    reds = [e for e in uniq_events(it, {'reduce'}, under(fd.qualname))]
    if not reds:
        ctx.ob('R3', fd, 'mean over atoms', None, 'reduction not found')
    for e in reds:
        arg, rem = e['arg'], e['removed']
        gs = all_geos(arg)
        ok_kind = gs == {('FDIFF', 'MI')}
        ok_axis = rem == {'atom'}
        axis_known = bool(rem) and not any(r.startswith('ax') or r in ('?', '*all*') for r in rem)
        ok_fn = e['fn'] in ('mean', 'average')
        ctx.ob('R3', fd, e['node'], True if (ok_kind and ok_axis and ok_fn) else (None if (not gs or not axis_known) else False),
               'mean of the minimum-image displacements over the atom axis' if (ok_kind and ok_axis and ok_fn) else
               (f'drift reduces over {sorted(rem)} instead of the atom axis' if not ok_axis else
                f'drift is computed from {", ".join(geo_text(g) for g in gs)}' if not ok_kind else f'drift uses {e["fn"]} instead of the mean'))
    res = it.result
    if res is not None and res.axes is not None:
        ok = res.axes in (('frame', 'new', 'xyz'), ('frame', 'one', 'xyz'))  # a length-one axis at the atom position
        ctx.ob('R3', fd, 'return value', True if ok else None, 'one drift vector per frame, broadcast over atoms' if ok else f'axes {res.axes}')
    # ---- R4
    fa = ctx.fn(f'{TRAJ}.apply_drift_correction')
    ita = ctx.entry(fa.qualname)
    inside = under(fa.qualname)
    inits = [e for e in ita.events if e['tag'] == 'traj_init' and 'coords' in e['kwargs'] and inside(e)]
    if not inits:
        ctx.ob('R4', fa, 'constructor', None, 'construction of the corrected trajectory not found')
        return
    cons = [ce for ce in ita.events if ce['tag'] == 'construct' and ce['cls'] == TRAJ and ce['where'] is not None and inside(ce)]
    made_in = {ce['where'].qualname for ce in cons}
    # every path returns the newly built trajectory
    from .common import walk_no_nested
    for r_ in walk_no_nested(fa.node):
        if isinstance(r_, ast.Return) and r_.value is not None:
            v_ = ita.value_of(r_.value)
            fresh_obj = v_ is not None and v_.ty == 'obj' and v_.alloc in made_in and not v_.symbolic
            if not fresh_obj:
                ctx.ob('R4', fa, r_, False if (v_ is not None and v_.ty == 'obj') else None,
                       f'`{norm_text(r_)}` hands back an existing trajectory instead of the corrected one: on this path the '
                       f'drift is not removed (and the caller receives an alias of the source)')
    e = inits[-1]
    kw = dict(e['kwargs'])
    for ce in cons:
        kw.update({k: v for k, v in ce['kwargs'].items() if k != '**'})
        st_ = ce['kwargs'].get('**')
        if st_ is not None and st_.kw:
            for k_, v_ in st_.kw.items():
                kw.setdefault(k_, v_)
    want = {'species': ('self.species', 'attr:Trajectory.species'), 'lattice': ('self.get_lattice()', None), 'metadata': ('self.metadata', 'attr:Trajectory.metadata'),
            'base_positions': ('self.base_positions', 'attr:Trajectory.base_positions'), 'time_step': ('self.time_step', 'attr:Trajectory.time_step')}
    from .common import parse_sx
    for k in ('species', 'lattice', 'metadata', 'base_positions', 'time_step'):
        v = kw.get(k)
        present = v is not None
        src_ok = None
        if present:
            if v.sx == want[k][0] or (want[k][1] is not None and v.store == want[k][1] and v.view_of is None and v.bin is None):
                src_ok = True
            elif v.sx is not None:
                src_ok = False
        wrong_frame = False
        if present and not src_ok and k == 'base_positions' and v.sx:
            t_ = parse_sx(v.sx, full=True)
            if isinstance(t_, ast.Subscript) and norm_text(t_.value) in ('self.positions', 'self.coords'):
                try:
                    wrong_frame = ast.literal_eval(t_.slice) != 0
                except Exception:
                    wrong_frame = False
                if not wrong_frame:
                    src_ok = None
        if wrong_frame:
            ctx.ob('R4', fa, f'{k}=', False, 'the base positions of the corrected trajectory are not the first frame of the source')
            continue
        ctx.ob('R4', fa, f'{k}=', True if (present and src_ok) else (False if not present else None),
               f'{k} of the source trajectory' if (present and src_ok) else
               (f'`{k}` is not passed to the corrected trajectory: it silently falls back to the default' if not present else f'`{k}` is not taken from the source trajectory'))
    cad = kw.get('coords_are_displacement')
    c = kw.get('coords')
    okc = c is not None and c.geo is not None and c.geo[0] == 'FDIFF' and c.bin is not None and c.bin[0] == '-' and c.bin[1].geo == ('FDIFF', 'MI')
    drift_side = c.bin[2] if (c is not None and c.bin is not None) else None
    ctx.ob('R4', fa, 'coords=', True if okc else (False if c is not None and c.geo is not None else None),
           'displacements - drift' if okc else f'coordinates of the corrected trajectory are {geo_text(c.geo) if c is not None else "?"}')
    okd = cad is not None and has_const(cad) and cval(cad) is True
    cad_unknown = (cad is not None and not has_const(cad)) or (cad is None and kw.get('**') is not None)
    ctx.ob('R4', fa, 'coords_are_displacement=', True if okd else (None if cad_unknown else False),
           'stored in displacement mode' if okd else 'displacement vectors are stored as if they were positions')
