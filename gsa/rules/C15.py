"""C15 - read-only queries: who may write trajectory storage, in-place write classification, derived constructors."""

from __future__ import annotations

import ast

from ..interp import cval, has_const
from ..source import norm_text
from .common import walk_no_nested
from .geo import KIND_ERRORS, all_geos, geo_text, under

TRAJ = 'gemdat.trajectory.Trajectory'
STORAGE = {'coords', 'coords_are_displacement', 'base_positions', 'lattice', 'lattices', 'species', 'time_step', 'constant_lattice',
           'site_properties'}
# (function, attribute) pairs allowed to rebind trajectory attributes, with the reason
ALLOWED_WRITERS = {
    (f'{TRAJ}.to_positions', 'coords'): 'mode switch: rebinds coords to the wrapped positions (never mutates in place)',
    (f'{TRAJ}.__init__', 'metadata'): 'constructor',
    (f'{TRAJ}.__getitem__', 'metadata'): 'slicing copies the metadata reference onto the new object',
    (f'{TRAJ}.__getitem__', '__class__'): 'slicing restores the subclass on the new object',
}
ARRAYISH = ('ndarray', 'DataFrame', 'list', 'Series', 'dict')


def check(ctx):
    ctx.doc('R1', 'attributes of trajectory objects (coords, mode flag, base positions, lattice, species, time step) are '
                  'rebound only by the mode switch / constructors listed in ALLOWED_WRITERS')
    ctx.doc('R2', 'every in-place write in the package (subscript store, augmented assignment on an array, out=, del x[...], '
                  '.sort()/.fill()) targets a freshly allocated value - never a view of trajectory storage, of a memoised result, '
                  'or of a public attribute of an analysis object')
    ctx.doc('R3', 'trajectories derived by filter / center_of_mass / apply_drift_correction take their coordinates from a '
                  'mode-explicit accessor, state the matching mode, and forward lattice, metadata and time step')
    ctx.doc('R4', 'slicing copies the metadata on every path; split builds its parts only by slicing')
    ctx.floor('R2', 20, 'in-place constructs enumerated on the pinned tree')
    ctx.doc('K1', '[C20.R1] derived-object queries (metrics, transitions) are served through weak_lru_cache: its cache must be keyed on weakref.ref(self) '
                  '(an id()-keyed cache hands a dead object\'s result to a new object at the same address)')
    from .C20 import check_decorator
    check_decorator(ctx, 'K1')
    ctx.floor('R3', 3)
    ctx.floor('R4', 2)
    scan = ctx.package_scan()
    seen = set()
    n_attr = n_inplace = 0
    foreign = []
    called = {e['callee'] for it in scan for e in it.events if e['tag'] == 'call' and len(e['ctx']) >= 1 and e['callee'] != (e['where'].qualname if e['where'] else None)}
    for it in scan:
        for e in it.events:
            if e['tag'] != 'store' or e['where'] is None:
                continue
            key = (e['where'].qualname, id(e['node']), e['kind'])
            base = e['base']
            node = e['node']
            where = e['where']
            if e['kind'] == 'attr':
                if base is None or base.ty != 'obj' or base.cls != TRAJ:
                    continue
                attr = node.attr if isinstance(node, ast.Attribute) else None
                k2 = key + (attr,)
                if k2 in seen:
                    continue
                seen.add(k2)
                n_attr += 1
                allowed = ALLOWED_WRITERS.get((where.qualname, attr))
                if allowed:
                    ctx.ob('R1', where, node, True, allowed)
                elif attr in STORAGE:
                    ctx.ob('R1', where, node, False, f'`{norm_text(node)}` rebinds trajectory storage outside the mode switch: later '
                                                     f'queries on this trajectory return different data')
                else:
                    # other attributes (e.g. metadata on a fresh object) : only on freshly built objects
                    fresh_obj = not base.symbolic
                    ctx.ob('R1', where, node, True if fresh_obj else False,
                           'attribute set on a trajectory object created in this function' if fresh_obj else
                           f'`{norm_text(node)}` modifies a trajectory passed in by the caller')
                continue
            if base is None:
                continue
            if base.ty not in ARRAYISH and not (base.ty is None and e['kind'] in ('sub', 'aug', 'del')):
                continue
            if e['kind'] == 'aug' and not isinstance(node, (ast.Subscript, ast.Attribute)) and base.ty != 'ndarray' and base.ty != 'Series':
                continue  # x += 1 on a plain name that is not an array rebinding (list += is in place but local)
            store = base.store
            prov = base.prov or frozenset()
            cached = [p for p in prov if p.startswith('cached:')]
            if (len(e['ctx']) == 1 and where.name.startswith('_') and not where.name.startswith('__') and base.is_param
                    and base.is_param.startswith(where.qualname + ':') and where.qualname in called and store is None and not cached):
                # a private helper writing into its own parameter, analysed without a caller: the provenance of the argument is
                # decided where the helper is called (the same statement is evaluated again in each caller's context)
                continue
            if key in seen:
                # the same construct seen again from another context: only report a worse classification
                if not (cached or (store or '').startswith('attr:')):
                    continue
            seen.add(key)
            n_inplace += 1
            target = norm_text(node.value if isinstance(node, ast.Subscript) else node)
            if base.ty == 'dict' and store is None:
                ctx.ob('R2', where, node, True, 'local dictionary')
            elif cached:
                ctx.ob('R2', where, node, False, f'in-place write into the memoised result of {cached[0][7:]}')
            elif store is not None and store.startswith('attr:') and not store.startswith(('attr:RegionProperties',)):
                ctx.ob('R2', where, node, False,
                       f'in-place write into `{target}`, a view of {store[5:]}: the data of the source object changes, so later queries '
                       f'(positions, distances, transitions) return different results')
            elif store == 'fresh' or base.fresh:
                ctx.ob('R2', where, node, True, 'target allocated in this computation (fresh array / copy)')
            elif store is not None and store.startswith('foreign:'):
                foreign.append(f'{where.qualname}: {norm_text(node)} -> {store}')
                ctx.ob('R2', where, node, True, f'third-party object ({store[8:]}); outside the package data')
            elif base.ty in ('list', 'Row', 'dict'):
                ctx.ob('R2', where, node, True, 'local container')
            else:
                ctx.ob('R2', where, node, None, f'provenance of `{target}` unknown')
    if foreign:
        ctx.assume('in-place writes into third-party objects are not classified: ' + '; '.join(sorted(set(foreign))))
    ctx.ob('R1', 'gemdat', f'{n_attr} attribute stores on trajectory objects', True, 'enumerated over the whole package')
    seen_v = set()
    for it in scan:
        for e in it.events:
            if e['tag'] == 'isin_set' and e['where'] is not None and e['where'].qualname.startswith(TRAJ + '.') and id(e['node']) not in seen_v:
                seen_v.add(id(e['node']))
                ctx.ob('R3', e['where'], e['node'], False, KIND_ERRORS['isin_set'] + ': selecting species given as a set returns an empty trajectory')
    check_constructors(ctx)
    check_slicing(ctx)


def check_constructors(ctx):
    for name in ('filter', 'center_of_mass', 'apply_drift_correction'):
        fi = ctx.fn(f'{TRAJ}.{name}')
        it = ctx.entry(fi.qualname)
        inside = under(fi.qualname)
        cons = [e for e in it.events if e['tag'] == 'construct' and e['cls'] == TRAJ and e['where'] is not None and inside(e)]
        made_in = {e['where'].qualname for e in cons}
        if not cons:
            ctx.ob('R3', fi, name, None, 'constructor call not found')
            continue
        for r_ in walk_no_nested(fi.node):
            if isinstance(r_, ast.Return) and r_.value is not None:
                v_ = it.value_of(r_.value)
                fresh_obj = v_ is not None and v_.ty == 'obj' and v_.alloc in made_in and not v_.symbolic
                if not fresh_obj:
                    ctx.ob('R3', fi, r_, False, f'`{norm_text(r_)}` returns an existing trajectory object instead of a new one: the derived '
                                                f'trajectory aliases its source, so extending / converting one changes the other')
        e = cons[-1]
        kw = dict(e['kwargs'])
        star = kw.pop('**', None)
        open_kw = False
        if star is not None:
            for k_, v_ in (star.kw or {}).items():
                kw.setdefault(k_, v_)
            open_kw = not star.kw or bool(star.open_kw)
        c = kw.get('coords')
        cad = kw.get('coords_are_displacement')
        disp = cad is not None and has_const(cad) and cval(cad) is True
        gs = all_geos(c)
        probs = []
        if not gs:
            probs.append((None, 'kind of the coordinates not derivable'))
        for g in gs:
            if g[0] == 'RAW':
                probs.append((False, 'coordinates are taken from raw .coords, whose meaning depends on the current storage mode of the source'))
            elif g[0] == 'FRAC' and disp:
                probs.append((False, 'positions are stored with coords_are_displacement=True'))
            elif g[0] == 'FDIFF' and not disp:
                probs.append((False, 'displacement vectors are stored as positions (mode flag missing)'))
        for k in ('species', 'lattice', 'metadata', 'time_step'):
            if k not in kw:
                probs.append((None if open_kw else False, f'`{k}` is not forwarded: the derived trajectory silently gets the default'))
        bad = [p for p in probs if p[0] is False]
        und = [p for p in probs if p[0] is None]
        ctx.ob('R3', fi, e['node'], False if bad else (None if und else True),
               '; '.join(p[1] for p in (bad or und)) if (bad or und) else 'mode-explicit coordinates, matching mode flag, metadata forwarded')


def check_slicing(ctx):
    fi = ctx.fn(f'{TRAJ}.__getitem__')
    cfg = ctx.cfg(fi.qualname)
    writes = [i for i, d in enumerate(cfg.nodes) if d[0] == 'stmt' and isinstance(d[1], ast.Assign)
              and any(isinstance(t, ast.Attribute) and t.attr == 'metadata' for t in d[1].targets)]
    ok = True
    for rid, r in cfg.returns():
        if not cfg.all_paths_pass(cfg.entry, rid, writes):
            ok = False
    indirect = any(isinstance(n_, ast.Call) and norm_text(n_.func).split('.')[-1] in ('setattr', '__setattr__', 'update', 'replace') for n_ in ast.walk(fi.node))
    ctx.ob('R4', fi, 'new.metadata = ...', ok if writes else (None if indirect else False), 'metadata set on every path to the return' if (ok and writes) else
           'a sliced trajectory can be returned without metadata')
    sup = [n for n in ast.walk(fi.node) if isinstance(n, ast.Call) and norm_text(n.func).replace(' ', '') == 'super().__getitem__']
    ctx.ob('R4', fi, 'super().__getitem__(frames)', True if sup else None, 'slicing delegated to pymatgen (copies the selected frames)')
    fs = ctx.fn(f'{TRAJ}.split')
    its = ctx.entry(fs.qualname)
    for rid, r in ctx.cfg(fs.qualname).returns():
        if r.value is None:
            continue
        v = its.last.get(id(r.value)) or its.value_of(r.value)
        el = (v.elem if v.elem is not None else None) if v is not None else None
        if v is not None and v.elts:
            from ..interp import join_all
            el = join_all(v.elts)
        if el is None or el.ty != 'obj':
            ctx.ob('R4', fs, r, None, 'part construction not recognised')
        elif (el.sliced_from is not None or el.site == '__getitem__') and not el.symbolic:
            ctx.ob('R4', fs, r, True, 'parts are slices of the source (new objects made by __getitem__)')
        else:
            ctx.ob('R4', fs, r, False, 'a part is not a slice of the source: it aliases an existing trajectory object')
