"""C11 - radial distributions: label lookup alignment, state encoder/decoder, bin lengths, distances, shell degree."""

from __future__ import annotations

import ast
from fractions import Fraction

from ..interp import cval, has_const
from ..source import norm_text
from .C08 import linear
from .common import def_map, expand
from .formula import check_degree
from .geo import all_geos, geo_text, kind_errors, under, uniq_events

UL = 'gemdat.rdf._uniqify_labels'
GS = 'gemdat.rdf._get_states'
GSA = 'gemdat.rdf._get_states_array'
RD = 'gemdat.rdf.radial_distribution'
RDS = 'gemdat.rdf.radial_distribution_between_species'


def check(ctx):
    ctx.doc('R1', 'the site -> label-index table has one leading entry for NOSITE, so the index expression must map site v to '
                  'entry v + 1 for every v in {-1, 0, ..., n-1} (injective, offset 1)')
    ctx.doc('R2', 'state encoder (array) and decoder (dict) use the same radices for the same roles: current site, previous site, next site')
    ctx.doc('R3', 'digitised distances range over [0, len(bins)]; accumulator length = minlength = len(bins) + 1; exactly the overflow '
                  'bin is dropped so that y and x have equal length')
    ctx.doc('R4', 'distances are minimum-image distances between fractional coordinates of the same frame; the shell '
                  'normalisation is dimensionless (density * volume)')
    ctx.floor('R1', 1)
    ctx.floor('R2', 3)
    ctx.floor('R3', 5)
    ctx.floor('R4', 3)
    ctx.include('C03', 'E', only=('R4',))   # states_prev / states_next are the forward / backward fill of the outer states
    # coordinates are read through the mode-normalising accessors
    seen = set()
    for it_ in ctx.package_scan():
        for e in it_.events:
            if e['tag'] == 'attr_read' and e['attr'] == 'coords' and e['where'] is not None and e['where'].module.name == 'gemdat.rdf' \
                    and e['obj'].cls == 'gemdat.trajectory.Trajectory' and id(e['node']) not in seen:
                seen.add(id(e['node']))
                v = e['value']
                gs = ({v.geo} if v is not None and v.geo is not None else set()) | (set(v.geo_conflict) if v is not None and v.geo_conflict else set())
                ok = (bool(gs) and all(g[0] == 'FRAC' and g[1] in ('W', 'C') for g in gs)) if gs else None  # unknown kind: undecided
                ctx.ob('R4', e['where'], e['node'], ok, 'storage of a freshly built position-mode trajectory' if ok else
                       'raw .coords is read: after any query that switched the trajectory to displacement storage (distances, metrics) the '
                       'distances are measured to displacement vectors instead of positions')
    check_lookup(ctx)
    check_codec(ctx)
    check_lengths(ctx)
    check_distances(ctx)
    check_label_numbering(ctx, 'R2')


def check_label_numbering(ctx, rule):
    """Every helper of rdf.py that numbers the site labels must derive the list of unique labels in the same way: the encoder
    (label -> index) and the decoder (index -> state name) are separate functions and only agree when the two lists are identical."""
    forms = {}
    for q, f in sorted(ctx.p.functions.items()):
        if f.module.name != 'gemdat.rdf':
            continue
        it = None
        for n in ast.walk(f.node):
            if not isinstance(n, ast.Call):
                continue
            fn = norm_text(n.func)
            inner = None
            if fn in ('list', 'sorted', 'tuple') and n.args and isinstance(n.args[0], ast.Call) and norm_text(n.args[0].func) in ('set', 'dict.fromkeys', 'frozenset') \
                    and n.args[0].args:
                inner = n.args[0].args[0]
                form = f'{fn}({norm_text(n.args[0].func)}(labels))'
            elif fn in ('np.unique', 'numpy.unique', 'sorted') and n.args and fn != 'sorted':
                inner = n.args[0]
                form = 'np.unique(labels)'
            if inner is None:
                continue
            it = it or ctx.entry(q)
            v = it.value_of(inner)
            is_labels = v is not None and ((v.indexed_by == 'SITE') or (v.elem is not None and v.elem.label) or (v.store or '').endswith('.labels')
                                          or bool(v.origin and any(o.endswith('.labels') for o in v.origin)))
            if not is_labels and 'labels' not in norm_text(inner):
                continue
            forms.setdefault(form, []).append((f, n))
    if not forms:
        ctx.ob(rule, 'gemdat.rdf', 'unique label lists', None, 'derivation of the unique label list not found in rdf.py')
        return
    if len(forms) == 1:
        form, sites = next(iter(forms.items()))
        ctx.ob(rule, sites[0][0], f'unique labels = {form}', True, f'one derivation shared by {len(sites)} use(s): encoder and decoder number the labels alike')
    else:
        desc = '; '.join(f'{k} in {v[0][0].name}' for k, v in sorted(forms.items()))
        f0, n0 = sorted(forms.items())[0][1][0]
        ctx.ob(rule, f0, n0, False, f'the unique label list is derived differently in different helpers ({desc}): the label numbers written by the encoder are '
                                    f'decoded with another numbering, so the frames of one state are filed under the name of another (depends on the order of the site labels)')


def check_lookup(ctx):
    fi = ctx.fn(UL)
    env = {}
    for n in ast.walk(fi.node):
        if isinstance(n, ast.Assign) and len(n.targets) == 1 and isinstance(n.targets[0], ast.Name):
            env.setdefault(n.targets[0].id, n.value)
    arr = fi.node.args.args[0].arg
    ret = [r.value for r in ast.walk(fi.node) if isinstance(r, ast.Return) and r.value is not None]
    if not ret or not isinstance(ret[-1], ast.Subscript):
        ctx.ob('R1', fi, 'return', None, 'lookup is not a subscript table[index]')
        return
    r = ret[-1]
    table = env.get(r.value.id) if isinstance(r.value, ast.Name) else r.value
    # prefix length of the table: np.array([-1] + [...])
    prefix = None
    t = table
    if isinstance(t, ast.Call) and norm_text(t.func).endswith('array') and t.args:
        t = t.args[0]
    if isinstance(t, ast.BinOp) and isinstance(t.op, ast.Add) and isinstance(t.left, ast.List):
        try:
            vals = [ast.literal_eval(e) for e in t.left.elts]
            prefix = len(vals) if all(v == -1 for v in vals) else None
        except Exception:
            prefix = None
        per_site = isinstance(t.right, ast.ListComp) and norm_text(t.right.generators[0].iter) == fi.node.args.args[1].arg
    elif isinstance(t, ast.ListComp):
        prefix, per_site = 0, True
    else:
        per_site = False
    if prefix is None or not per_site:
        ctx.ob('R1', fi, r, None, 'label table is not [NOSITE entry] + [one entry per site]')
        return
    idx = r.slice
    idx = env.get(idx.id, idx) if isinstance(idx, ast.Name) else idx
    # accepted: arr + prefix  (possibly np.asarray(arr) + prefix)
    def strip(n):
        while isinstance(n, ast.Call) and norm_text(n.func).split('.')[-1] in ('asarray', 'array', 'astype') and n.args:
            n = n.args[0]
        if isinstance(n, ast.Call) and isinstance(n.func, ast.Attribute) and n.func.attr == 'astype':
            n = n.func.value
        return n
    i2 = strip(idx)
    off = None
    if isinstance(i2, ast.BinOp) and isinstance(i2.op, ast.Add):
        a, b = strip(i2.left), strip(i2.right)
        if isinstance(a, ast.Name) and a.id == arr and isinstance(b, ast.Constant):
            off = b.value
        elif isinstance(b, ast.Name) and b.id == arr and isinstance(a, ast.Constant):
            off = a.value
    elif isinstance(i2, ast.Name) and i2.id == arr:
        off = 0
    if off is not None:
        ctx.ob('R1', fi, r, off == prefix, f'site v reads entry v + {off} of a table with {prefix} leading NOSITE entr{"y" if prefix == 1 else "ies"}' if off == prefix else
               f'site v reads entry v + {off} but the table has {prefix} leading NOSITE entr{"y" if prefix == 1 else "ies"}: labels are shifted by one site')
        return
    if isinstance(i2, ast.Call) and norm_text(i2.func).endswith('digitize'):
        kw = {k.arg: k.value for k in i2.keywords}
        right = kw.get('right')
        pal = i2.args[1] if len(i2.args) > 1 else kw.get('bins')
        pal = env.get(pal.id, pal) if isinstance(pal, ast.Name) else pal
        is_range = isinstance(pal, ast.Call) and norm_text(pal.func).endswith('arange') and len(pal.args) >= 1 and 'len(' in norm_text(pal.args[0])
        if is_range and right is not None and isinstance(right, ast.Constant) and right.value is True:
            # digitize(v, [0..n-1], right=True): -1 -> 0, 0 -> 0, v -> v : offset 0, not injective at {-1, 0}
            ctx.ob('R1', fi, r, prefix == 0,
                   'np.digitize(v, arange(n), right=True) maps -1 -> 0, 0 -> 0, v -> v: site v reads entry v of a table whose entry '
                   'v + 1 belongs to it - every site gets the label of the previous site, site 0 is treated as "no site"')
            return
        if is_range and (right is None or (isinstance(right, ast.Constant) and right.value is False)):
            ctx.ob('R1', fi, r, prefix == 1, 'np.digitize(v, arange(n)) maps -1 -> 0 and v -> v + 1: aligned with one leading NOSITE entry' if prefix == 1 else
                   'digitize offset 1 but the table has no leading NOSITE entry')
            return
    ctx.ob('R1', fi, r, None, 'index expression of the label lookup not recognised')


def terms(node):
    """a * c1 + b * c2 + c -> {var text: coefficient}"""
    out = {}

    def rec(n, sign=1):
        if isinstance(n, ast.BinOp) and isinstance(n.op, ast.Add):
            rec(n.left, sign)
            rec(n.right, sign)
        elif isinstance(n, ast.BinOp) and isinstance(n.op, ast.Mult):
            l, r = n.left, n.right
            if isinstance(r, ast.Constant):
                out[norm_text(l)] = sign * float(r.value)
            elif isinstance(l, ast.Constant):
                out[norm_text(r)] = sign * float(l.value)
            else:
                out[norm_text(n)] = None
        elif isinstance(n, ast.Call) and isinstance(n.func, ast.Name) and n.func.id == 'int' and n.args:
            rec(n.args[0], sign)
        elif isinstance(n, ast.Call) and isinstance(n.func, ast.Attribute) and n.func.attr == 'astype':
            rec(n.func.value, sign)
        else:
            out[norm_text(n)] = float(sign)

    rec(node)
    return out


def check_codec(ctx):
    fe = ctx.fn(GSA)
    fd = ctx.fn(GS)
    # encoder roles
    roles = {}
    for n in ast.walk(fe.node):
        if isinstance(n, ast.Assign) and len(n.targets) == 1 and isinstance(n.targets[0], ast.Name) and isinstance(n.value, ast.Call) \
                and norm_text(n.value.func).endswith('_uniqify_labels'):
            src = norm_text(n.value.args[0]) if n.value.args else ''
            role = {'transitions.states': 'current', 'transitions.states_prev()': 'previous', 'transitions.states_next()': 'next'}.get(src)
            roles[n.targets[0].id] = role
    enc = None
    for n in ast.walk(fe.node):
        if isinstance(n, ast.BinOp) and isinstance(n.op, ast.Add):
            t = terms(n)
            if len(t) == 3 and all(k in roles for k in t):
                enc = (n, {roles[k]: v for k, v in t.items()})
                break
    if enc is None or None in enc[1]:
        ctx.ob('R2', fe, 'state encoder', None, 'encoder a * r1 + b * r2 + c over (states, states_prev(), states_next()) not recognised')
        return
    # decoder: loop variables, radices, and their meaning in the state strings
    dec = None
    for n in ast.walk(fd.node):
        if isinstance(n, ast.Subscript) and isinstance(n.ctx, ast.Store):
            t = terms(n.slice)
            if len(t) == 3:
                dec = (n, t)
    if dec is None:
        ctx.ob('R2', fd, 'state decoder', None, 'decoder key i * r1 + j * r2 + k not recognised')
        return
    meaning = {}
    for n in ast.walk(fd.node):
        if isinstance(n, ast.BinOp) and isinstance(n.op, ast.Add):
            txt = norm_text(n)
            # '@' + unique_labels[i]
            if isinstance(n.left, ast.Constant) and n.left.value == '@' and isinstance(n.right, ast.Subscript):
                meaning[norm_text(n.right.slice)] = 'current'
            # unique_labels[j] + '->' + unique_labels[k]
            if isinstance(n.left, ast.BinOp) and isinstance(n.left.right, ast.Constant) and n.left.right.value == '->' \
                    and isinstance(n.left.left, ast.Subscript) and isinstance(n.right, ast.Subscript):
                meaning[norm_text(n.left.left.slice)] = 'previous'
                meaning[norm_text(n.right.slice)] = 'next'
    dec_roles = {meaning.get(k): v for k, v in dec[1].items()}
    if None in dec_roles or set(dec_roles) != {'current', 'previous', 'next'}:
        ctx.ob('R2', fd, dec[0], None, 'roles of the decoder variables not recognised from the state strings')
        return
    for role in ('current', 'previous', 'next'):
        a, b = enc[1].get(role), dec_roles.get(role)
        ok = a == b
        ctx.ob('R2', fe, f'{role} site radix', ok, f'{role} site encoded and decoded with radix {a:g}' if ok else
               f'the {role} site is encoded with radix {a:g} but decoded with radix {b:g}: frames are attributed to the wrong state')
    # decoder range includes -1 for every role
    for n in ast.walk(fd.node):
        if isinstance(n, ast.Assign) and len(n.targets) == 1 and norm_text(n.targets[0]) == 'r':
            t = norm_text(n.value).replace(' ', '')
            ok = t == '[-1]+list(range(len(unique_labels)))'
            if not ok:
                ok = _nosite_plus_range(ctx.entry(fd.qualname), n.value, fd.node)
            ctx.ob('R2', fd, n, True if ok else None, 'decoder enumerates NOSITE and every label index' if ok else 'decoder range not recognised')


def check_lengths(ctx):
    fi = ctx.fn(RD)
    env = {}
    for n in ast.walk(fi.node):
        if isinstance(n, (ast.Assign, ast.AnnAssign)):
            tg = n.targets[0] if isinstance(n, ast.Assign) else n.target
            if isinstance(tg, ast.Name) and n.value is not None:
                env.setdefault(tg.id, n.value)
    for f_ in (fi, ctx.fn(RDS)):
        defs = def_map(f_.node)
        b = defs.get('bins')
        if b is None:
            okv = _edges_on_values(ctx, f_)
            ctx.ob('R3', f_, 'bins', okv, 'edges 0, r, 2r, ... up to at least the cut-off' if okv else 'bin edges are not a single assignment')
            continue
        be = expand(b, defs)
        t = norm_text(be).replace(' ', '')
        if t == 'np.arange(0,max_dist+resolution,resolution)':
            ctx.ob('R3', f_, b, True, 'edges 0, r, 2r, ... up to at least the cut-off')
        elif isinstance(be, ast.BinOp) and isinstance(be.op, ast.Mult) and 'np.arange(' in t and ('int(max_dist/resolution)' in t or 'max_dist//resolution' in t
                                                                                                  or 'floor(max_dist/resolution)' in t):
            ctx.ob('R3', f_, b, False, 'the number of edges is obtained by truncating max_dist / resolution: when the cut-off is not an exact '
                                        '(floating point) multiple of the resolution the last edge lies below the cut-off and pairs within '
                                        'the cut-off fall into the discarded overflow bin')
        else:
            ctx.ob('R3', f_, b, _edges_on_values(ctx, f_), 'construction of the bin edges not recognised')
    length = env.get('length')
    lin = linear(expand(length, def_map(fi.node), keep=('bins',))) if length is not None else None
    ok = lin is not None and lin[0] == {'len(bins)': 1} and lin[1] == 1
    vals_ok = None
    if lin is None:
        # on values: every bincount is padded to len(edges) + 1, the edges being those of the digitize call
        vals_ok = _lengths_on_values(ctx, fi)
    if vals_ok is not None:
        for node_, st_, msg_ in vals_ok:
            ctx.ob('R3', fi, node_, st_, msg_)
    else:
      ctx.ob('R3', fi, length if length is not None else 'length', True if ok else (False if lin is not None else None),
           'accumulator length = len(bins) + 1 (bins 0..len(bins))' if ok else
           f'accumulator length is `{norm_text(length) if length is not None else "?"}`: np.digitize yields indices up to len(bins), '
           f'the last distance bin is lost or arrays of different length are added')
    for n in ast.walk(fi.node) if vals_ok is None else ():
        if isinstance(n, ast.Call) and norm_text(n.func).endswith('bincount'):
            ml = next((k.value for k in n.keywords if k.arg == 'minlength'), None)
            ok = ml is not None and norm_text(ml) == 'length'
            ctx.ob('R3', fi, n, True if ok else (False if ml is None else None), 'bincount padded to the accumulator length' if ok else
                   'bincount without the accumulator length: shorter count arrays cannot be added to the accumulator')
        if isinstance(n, ast.Call) and norm_text(n.func).endswith('zeros') and n.args and norm_text(n.args[0]) == 'length':
            ctx.ob('R3', fi, n, True, 'accumulator allocated with the same length')
    ys = [k.value for n in ast.walk(fi.node) if isinstance(n, ast.Call) and norm_text(n.func).endswith('RDFData') for k in n.keywords if k.arg == 'y']
    xs = [k.value for n in ast.walk(fi.node) if isinstance(n, ast.Call) and norm_text(n.func).endswith('RDFData') for k in n.keywords if k.arg == 'x']
    def _syn(y):
        t_ = norm_text(y).replace(' ', '')
        return True if (t_ == 'values[:-1]' and xs and norm_text(xs[0]) == 'bins') else (False if t_ in ('values', 'values[1:]', 'values[:]') else None)
    if not ys or any(_syn(y) is None for y in ys):
        # not in the spelling known by heart: decide on the values handed to RDFData
        for node_, st_, msg_ in _xy_on_values(ctx, fi):
            ctx.ob('R3', fi, node_, st_, msg_)
        ys = []
    for y in ys:
        t = norm_text(y).replace(' ', '')
        ok = t == 'values[:-1]' and xs and norm_text(xs[0]) == 'bins'
        bad = t in ('values', 'values[1:]', 'values[:]')
        ctx.ob('R3', fi, y, True if ok else (False if bad else None), 'overflow bin dropped: len(y) = len(bins) = len(x)' if ok else
               ('the first bin is dropped instead of the overflow bin: y is shifted by one bin against x and contains distances > max_dist'
                if t == 'values[1:]' else 'x and y of the radial distribution have different lengths / the overflow bin is kept'))
    it = ctx.pipeline()
    # between species: histogram over the same bins, x = bins[:-1]
    fs = ctx.fn(RDS)
    its_ = ctx.entry(RDS)
    for n in ast.walk(fs.node):
        if isinstance(n, ast.Call) and norm_text(n.func).endswith('RDFData'):
            kw = {k.arg: norm_text(k.value).replace(' ', '') for k in n.keywords}
            ok = kw.get('x') == 'bins[:-1]' and kw.get('y') == 'counts'
            if not ok:
                # on values: both fields carry the same symbolic length (number of histogram bins = len(edges) - 1)
                kv = {k.arg: its_.cur(k.value) for k in n.keywords if k.arg in ('x', 'y')}
                lx, ly = (kv['x'].symlen if kv.get('x') is not None else None), (kv['y'].symlen if kv.get('y') is not None else None)
                ok = True if (lx is not None and lx == ly and lx[0] == '-' and lx[2] == ('c', 1)) else (False if (lx is not None and ly is not None and lx != ly) else None)
                msg = 'len(x) = len(histogram) = len(bins) - 1' if ok is not False else f'x has length {_len_text(lx)} but y has length {_len_text(ly)}'
                ctx.ob('R3', fs, n, ok, msg)
                continue
            ctx.ob('R3', fs, n, True if ok else None, 'len(x) = len(histogram) = len(bins) - 1')


def _edges_on_values(ctx, f_):
    """True when the edges handed to np.digitize / np.histogram under f_ are np.arange(0, max_dist + resolution, resolution)."""
    itf = ctx.entry(f_.qualname)
    evs = uniq_events(itf, {'digitize', 'histogram'}, under(f_.qualname))
    if not evs:
        return None
    for e in evs:
        ar = e['bins'].arange if e['bins'] is not None else None
        if not ar or len(ar) != 3:
            return None
        start, stop, step = ar
        isp = lambda v, name: v is not None and bool(v.is_param) and v.is_param.endswith(':' + name)
        ok = has_const(start) and cval(start) == 0 and isp(step, 'resolution') and stop.bin is not None and stop.bin[0] == '+' and \
            ((isp(stop.bin[1], 'max_dist') and isp(stop.bin[2], 'resolution')) or (isp(stop.bin[2], 'max_dist') and isp(stop.bin[1], 'resolution')))
        if not ok:
            return None
    return True


def _lengths_on_values(ctx, fi):
    itf = ctx.entry(fi.qualname)
    digs = uniq_events(itf, {'digitize'}, under(fi.qualname))
    cnts = uniq_events(itf, {'bincount'}, under(fi.qualname))
    if not digs or not cnts:
        return None
    edges = digs[0]['bins']
    out = []
    for e in cnts:
        ml = e['minlength']
        if ml is None:
            out.append((e['node'], False, 'bincount without the accumulator length: shorter count arrays cannot be added to the accumulator'))
            continue
        b = ml.bin
        ok = None
        if b is not None and b[0] == '+' and edges is not None and edges.symlen is not None:
            for L, c in ((b[1], b[2]), (b[2], b[1])):
                if L is not None and L.lenof is not None and L.lenof.symlen == edges.symlen and has_const(c):
                    ok = cval(c) == 1
        out.append((e['node'], ok, 'bincount padded to len(edges) + 1 (bins 0..len(edges))' if ok else
                    ('the accumulator length is not len(edges) + 1: np.digitize yields indices up to len(edges), the last distance bin is lost or '
                     'arrays of different length are added' if ok is False else 'accumulator length not derivable')))
    out.append(('accumulator length', True if all(o[1] for o in out) else None, 'every count array has the length len(edges) + 1'))
    return out


def _xy_on_values(ctx, fi):
    itf = ctx.entry(fi.qualname)
    digs = uniq_events(itf, {'digitize'}, under(fi.qualname))
    edges = digs[0]['bins'] if digs else None
    out = []
    for e in itf.events:
        if e['tag'] != 'construct' or not e['cls'].endswith('.RDFData') or not under(fi.qualname)(e):
            continue
        if any(o[0] is e['node'] for o in out):
            continue
        x, y = e['kwargs'].get('x'), e['kwargs'].get('y')
        if x is None or y is None or edges is None:
            out.append((e['node'], None, 'x / y of the radial distribution not recognised'))
            continue
        sh = y.shifted
        x_ok = x.symlen is not None and x.symlen == edges.symlen
        if sh is not None and (sh[0], sh[3]) == (0, 1) and x_ok:
            out.append((e['node'], True, 'overflow bin dropped: len(y) = len(bins) = len(x)'))
        elif sh is not None and (sh[0], sh[3]) == (1, 0):
            out.append((e['node'], False, 'the first bin is dropped instead of the overflow bin: y is shifted by one bin against x and contains distances > max_dist'))
        else:
            out.append((e['node'], None, 'x / y of the radial distribution not recognised'))
    if not out:
        out.append(('RDFData', None, 'construction of the radial distribution data not found'))
    return out


def _len_text(sl):
    if sl is None:
        return '?'
    if sl[0] == '-':
        return f'{_len_text(sl[1])} - {_len_text(sl[2])}'
    if sl[0] == 'arange':
        return f'len({sl[1]})'
    return str(sl[1])


def _nosite_plus_range(it, node, fnode):
    """The value is the sequence -1, 0, 1, ..., len(unique_labels) - 1, however it is spelled ([-1] + list(range(n)), [-1, *range(n)])."""
    def parts(v, depth=0):
        if v is None or depth > 4:
            return [None]
        if v.concat is not None:
            return parts(v.concat[0], depth + 1) + parts(v.concat[1], depth + 1)
        if v.parts is not None:
            out = []
            for kind, x in v.parts:
                out += [('elt', x)] if kind == 'elt' else parts(x, depth + 1)
            return out
        if v.elts is not None:
            return [('elt', e) for e in v.elts]
        if v.ty == 'range':
            return [('range', v)]
        if v.ty in ('list', 'tuple') and v.of is not None and v.of.ty == 'range':
            return [('range', v.of)]
        return [None]
    ps = parts(it.cur(node))
    if None in ps or len(ps) != 2:
        return False
    (k0, v0), (k1, v1) = ps
    if k0 != 'elt' or not (has_const(v0) and cval(v0) == -1) or k1 != 'range':
        return False
    stop = v1.stop
    if stop is None or stop.lenof is None:
        return False
    want = {'len(unique_labels)'}
    for nm in ast.walk(fnode):
        if isinstance(nm, ast.Name) and nm.id == 'unique_labels' and isinstance(nm.ctx, ast.Load):
            want.add(f'len({it.sx(nm)})'.replace(' ', ''))
    return (stop.sx or '').replace(' ', '') in want


def check_distances(ctx):
    fs = ctx.fn(RDS)
    its = ctx.entry(RDS)
    kind_errors(ctx, 'R4', its, under(RDS), strict=True)
    for e in uniq_events(its, {'pbc_distance'}, under(RDS)):
        a, b = e['a'], e['b']
        ga, gb = all_geos(a), all_geos(b)
        ok = bool(ga) and bool(gb) and all(g[0] == 'FRAC' for g in ga | gb)
        node = e['node']
        fa_, fb_ = (a.frame_idx if a is not None else None), (b.frame_idx if b is not None else None)
        same_t = True if (fa_ is not None and fa_ == fb_) else (False if (fa_ is not None and fb_ is not None) else None)
        if same_t is None and len(node.args) == 2 and all(isinstance(x, ast.Subscript) for x in node.args):
            same_t = True if norm_text(node.args[0].slice) == norm_text(node.args[1].slice) else None
        ctx.ob('R4', fs, node, True if (ok and same_t) else (False if (ga | gb) and not ok else (False if ok and same_t is False else None)),
               'minimum-image distances between the two species in the same frame' if (ok and same_t) else
               ('distances between coordinates of different frames' if ok else f'distance arguments are {", ".join(geo_text(g) for g in ga | gb)}'))
    # normalisation degree
    res = its.result
    y = its.final_state.heap.get(res.oid, {}).get('y') if res is not None and res.ty == 'obj' else None
    ok, msg = check_degree(y.mono if y is not None else None, (0, 0, 0))
    ctx.ob('R4', fs, 'counts / normalisation', ok, 'pair counts divided by density * shell volume (dimensionless)' if ok else msg)
    norm_fn = ctx.p.functions.get(RDS + '.<locals>.normalize')
    if norm_fn is not None:
        for n in ast.walk(norm_fn.node):
            if isinstance(n, ast.Assign) and norm_text(n.targets[0]) == 'shell':
                t = norm_text(n.value).replace(' ', '')
                ok = t in ('(radius+resolution)**3-radius**3',)
                ctx.ob('R4', norm_fn, n, True if ok else None, 'shell volume ~ (r + dr)^3 - r^3' if ok else 'shell formula not recognised')
    # per-state rdf
    fi = ctx.fn(RD)
    it = ctx.pipeline()
    start = len(it.events)
    fr = ctx.fn(RD)
    from ..interp import AV
    it.call_function(fr, [], {'transitions': it.transitions}, it.state, node=None, symbolic_missing=True)
    for e in it.events[start:]:
        if e['tag'] == 'pbc_distance' and e['where'] is not None and e['where'].qualname == RD:
            a, b = e['a'], e['b']
            ga, gb = all_geos(a), all_geos(b)
            ok = bool(ga) and bool(gb) and all(g[0] == 'FRAC' for g in ga | gb)
            ctx.ob('R4', fi, e['node'], True if ok else (None if not (ga and gb) else False),
                   'minimum-image distances from the diffusing atoms to all atoms of the frame' if ok else 'distance arguments are not fractional coordinates')
            break
