"""Monomial normal-form comparison (U facet): formulas, homogeneity degrees, unit labels."""

from __future__ import annotations

import re
from fractions import Fraction

from ..kinds import parse_unit_label
from .geo import uniq_events


def match_mono(m, coef, atoms, tol=1e-9):
    """Compare Mono `m` with an expected normal form. atoms: {regex: power}. Returns (ok|None, message).
    ok None = the value has no derivable normal form (undecided)."""
    if m is None:
        return None, 'no normal form could be derived for the value'
    problems = []
    remaining = dict(m.atoms)
    for pat, pw in atoms.items():
        hits = [a for a in remaining if re.fullmatch(pat, a)]
        if not hits:
            problems.append(f'factor {pat.replace(chr(92), "")}^{pw} is missing')
            continue
        a = hits[0]
        if remaining[a] != Fraction(pw):
            problems.append(f'{a} has power {remaining[a]} instead of {pw}')
        del remaining[a]
    for a, pw in remaining.items():
        problems.append(f'unexpected factor {a}^{pw}')
    if coef is not None:
        if m.coef is None:
            return (None, 'numeric coefficient not derivable') if not problems else (False, '; '.join(problems))
        if abs(m.coef - coef) > tol * max(1.0, abs(coef)):
            problems.append(f'numeric factor is {m.coef:g} instead of {coef:g}')
    if problems:
        return False, '; '.join(problems)
    return True, f'normal form {m.text()}'


def degree_text(d):
    return '(L^%s, T^%s, Z^%s)' % tuple(str(x) for x in d)


def check_degree(m, deg):
    if m is None:
        return None, 'no normal form could be derived for the value'
    if tuple(m.deg) == tuple(Fraction(x) for x in deg):
        return True, f'homogeneity degree {degree_text(m.deg)}'
    return False, f'homogeneity degree is {degree_text(m.deg)} instead of {degree_text(deg)}: the scaling law fails'


def unit_text(u):
    if not u:
        return 'dimensionless'
    parts = []
    for k, v in sorted(u.items()):
        if k == '10':
            parts.insert(0, f'10^{v}')
        else:
            parts.append(f'{k}^{v}' if v != 1 else k)
    return ' '.join(parts)


def check_label(m, label):
    if label is None:
        return None, 'unit label is not a literal'
    want = parse_unit_label(label)
    if want is None:
        return None, f'unit label {label!r} not understood'
    if m is None:
        return None, 'no normal form could be derived for the labelled value'
    have = {k: v for k, v in m.unit.items() if v != 0}
    if have == want:
        return True, f'computed unit {unit_text(have)} = label {label!r}'
    return False, f'value computed in {unit_text(have)} is labelled {label!r} ({unit_text(want)})'


def label_obligations(ctx, rule, it, fn_filter):
    """One obligation per FloatWithUnit(v, 'label') inside the selected functions."""
    n = 0
    for e in uniq_events(it, {'float_with_unit'}, fn_filter):
        v = e['value']
        ok, msg = check_label(v.mono if v is not None else None, e['label'])
        ctx.ob(rule, e['where'], e['node'], ok, msg)
        n += 1
    return n


def no_scale_dependent_ops(ctx, rule, it, fn_filter):
    n = 0
    for e in uniq_events(it, {'degree_mismatch', 'transcendental_of_dimensional'}, fn_filter):
        if e['tag'] == 'degree_mismatch':
            ctx.ob(rule, e['where'], e['node'], False,
                   f'operands of `{e["op"]}` have different homogeneity degrees ({degree_text(e["left"].deg)} vs '
                   f'{degree_text(e["right"].deg)}): the result depends on the length/time scale')
        else:
            ctx.ob(rule, e['where'], e['node'], False, f'{e["fn"]} of a dimensional quantity {degree_text(e["mono"].deg)}')
        n += 1
    return n
