"""C20 - memoisation: weak self key, no __eq__, no retention of self, hashable params, write-once inputs."""

from __future__ import annotations

import ast

from ..source import AnalysisError, norm_text
from .common import def_map, expand, calls_in, walk_no_nested

HASHABLE = {'int', 'float', 'str', 'bool', 'None', 'bytes', 'complex'}


def cached_methods(ctx):
    return [f for f in ctx.p.functions.values() if f.is_cached and f.cls is not None]


def check(ctx):
    ctx.doc('R1', 'weak_lru_cache: the lru-cached inner function is keyed on weakref.ref(self) and only dereferences it; '
                  'no method uses functools.lru_cache / cache / cached_property directly')
    ctx.doc('R2', 'classes owning cached methods define no __eq__/__hash__, are not eq-dataclasses, keep __weakref__')
    ctx.doc('R3', 'no value returned by a cached method holds a strong reference to self (heap reachability)')
    ctx.doc('R4', 'every parameter of a cached method is annotated with a hashable value type')
    ctx.doc('R5', 'attributes read by cached methods are assigned only during construction')
    ctx.doc('R6', 'no package code writes in place into a value returned by a cached method')
    ctx.doc('R7', 'a hand-rolled memo table (`if key not in table: table[key] = value`) is keyed on every parameter the stored value depends on')
    check_decorator(ctx)
    cms = cached_methods(ctx)
    owners = {}
    for f in cms:
        owners.setdefault(f.cls.qualname, []).append(f)
    ctx.floor('R3', 20, '24 cached methods on the pinned tree')
    ctx.floor('R2', 4, '4 owning classes')
    for cq, fs in sorted(owners.items()):
        check_owner(ctx, ctx.p.classes[cq], fs)
    for f in sorted(cms, key=lambda f: f.qualname):
        check_params(ctx, f)
        check_retention(ctx, f)
    check_writes(ctx, owners)
    check_handrolled_memo(ctx, 'R7')


# ------------------------------------------------------------------------------------------------ R1
import os
VALUES_FIRST = not os.environ.get('GSA_C20_SYNTACTIC')  # decide on values first; the syntactic reading is the fallback


def check_decorator(ctx, rule='R1'):
    fi = ctx.fn('gemdat.caching.weak_lru_cache')
    wrapper = inner_cached = caller = None
    for n in ast.walk(fi.node):
        if isinstance(n, ast.FunctionDef) and n is not fi.node:
            decs = [norm_text(d) for d in n.decorator_list]
            if any('lru_cache' in d or d.endswith('.cache') for d in decs):
                inner_cached = n
    cached_name = inner_cached.name if inner_cached is not None else None
    if inner_cached is None:
        # call form: cached = functools.lru_cache(...)(inner)
        inner_defs = {n.name: n for n in ast.walk(fi.node) if isinstance(n, ast.FunctionDef) and n is not fi.node}
        for n in ast.walk(fi.node):
            if isinstance(n, ast.Assign) and len(n.targets) == 1 and isinstance(n.targets[0], ast.Name) and isinstance(n.value, ast.Call) \
                    and isinstance(n.value.func, ast.Call) and 'lru_cache' in norm_text(n.value.func.func) and len(n.value.args) == 1 \
                    and isinstance(n.value.args[0], ast.Name) and n.value.args[0].id in inner_defs:
                inner_cached = inner_defs[n.value.args[0].id]
                cached_name = n.targets[0].id
    if (inner_cached is None or VALUES_FIRST) and check_decorator_values(ctx, rule, fi):
        if inner_cached is not None:
            check_key_only_dereferenced(ctx, rule, fi, inner_cached)
        check_direct_caches(ctx, rule, fi)
        return
    if inner_cached is None:
        any_lru = any('lru_cache' in norm_text(n) for n in ast.walk(fi.node) if isinstance(n, (ast.Attribute, ast.Name)))
        ctx.ob(rule, fi, fi.node.name, None if any_lru else False, 'no functools.lru_cache-decorated inner function: results are not memoised '
                                                                     'through the weak-key wrapper' if not any_lru else
               'use of functools.lru_cache in the wrapper not recognised')
        return
    # (a) the cached function uses its first parameter only by calling it
    first = check_key_only_dereferenced(ctx, rule, fi, inner_cached)
    if first is None:
        return
    # (b) every call of the cached function passes weakref.ref(<self param of the caller>) first
    callers = []
    for n in ast.walk(fi.node):
        if isinstance(n, ast.FunctionDef) and n is not inner_cached and n is not fi.node:
            for c in calls_in(n):
                if isinstance(c.func, ast.Name) and c.func.id == cached_name:
                    callers.append((n, c))
    if not callers:
        ctx.ob(rule, fi, inner_cached.name, False, 'the cached function is never called by the wrapper')
    mod = fi.module
    for fn, c in callers:
        selfp = (fn.args.posonlyargs + fn.args.args)[0].arg if (fn.args.posonlyargs + fn.args.args) else None
        ok = None
        detail = ''
        if not c.args:
            ok, detail = False, 'cached function called without a key for self'
        else:
            a0 = expand(c.args[0], def_map(fn))
            if isinstance(a0, ast.Call):
                callee = norm_text(a0.func)
                head = callee.split('.')[0]
                resolved = mod.imports.get(head, head) + callee[len(head):]
                if resolved in ('weakref.ref',) and a0.args and isinstance(a0.args[0], ast.Name) and a0.args[0].id == selfp:
                    ok, detail = True, 'keyed on weakref.ref(self)'
                elif resolved in ('id', 'builtins.id', 'hash'):
                    ok, detail = False, f'keyed on {callee}(self): a new object at a recycled address receives the old result'
                else:
                    ok, detail = None, f'unrecognised key expression {norm_text(a0)}'
            elif isinstance(a0, ast.Name) and a0.id == selfp:
                ok, detail = False, 'keyed on self itself: the cache keeps every object alive (strong reference)'
            else:
                ok, detail = None, f'unrecognised key expression {norm_text(a0)}'
        ctx.ob(rule, fi, c, ok, detail)
    # (c) the wrapped function receives the dereferenced object first
    inner_calls = [expand(c, def_map(inner_cached)) for c in calls_in(inner_cached) if isinstance(c.func, ast.Name)]
    ok = any(c.args and isinstance(c.args[0], ast.Call) and isinstance(c.args[0].func, ast.Name) and c.args[0].func.id == first
             and len(c.args) >= 1 and any(isinstance(x, ast.Starred) for x in c.args[1:]) and any(k.arg is None for k in c.keywords)
             for c in inner_calls)
    ctx.ob(rule, fi, inner_cached.name + ' body', True if ok else None,
           'calls func(self(), *args, **kwargs)' if ok else 'the cached function does not forward (self(), *args, **kwargs)')
    check_direct_caches(ctx, rule, fi)


def check_key_only_dereferenced(ctx, rule, fi, inner_cached):
    a = inner_cached.args
    first = (a.posonlyargs + a.args)[0].arg if (a.posonlyargs + a.args) else None
    if first is None:
        ctx.ob(rule, fi, inner_cached.name, None, 'cached inner function has no positional self parameter')
        return None
    uses = [n for n in ast.walk(inner_cached) if isinstance(n, ast.Name) and n.id == first and isinstance(n.ctx, ast.Load)]
    pm = {}
    for n in ast.walk(inner_cached):
        for c in ast.iter_child_nodes(n):
            pm[id(c)] = n
    bad = [u for u in uses if not (isinstance(pm.get(id(u)), ast.Call) and pm[id(u)].func is u and not pm[id(u)].args)]
    ctx.ob(rule, fi, f'{inner_cached.name}({first}, ...)', not bad,
           'the weak reference is only dereferenced' if not bad else
           f'`{first}` (the cache key) is used other than by dereferencing it: {norm_text(pm.get(id(bad[0]), bad[0]))}')
    return first


def check_decorator_values(ctx, rule, fi):
    """Decide the decorator by applying it abstractly: weak_lru_cache()(f) gives the public method; calling that method on an
    object must reach a functools.lru_cache table keyed on (weakref.ref(object), the call arguments) and call f(object, arguments).
    Returns False when the decorator could not be applied (nothing is reported then)."""
    from ..interp import AV, Frame
    it = ctx.entry(fi.qualname)
    wrapper, st = it.result, it.final_state
    if wrapper is None or wrapper.ty != 'func':
        return False
    f = AV(ty='symfunc', name='f')
    fr = Frame(None, fi.module, st)
    n0 = len(it.events)
    method = it.call_value(wrapper, [f], {}, fr, st, fi.node)
    if method is None or method.ty not in ('func', 'lru_cached', 'partial', 'lambda'):
        return False
    obj = it.new_obj(st, 'gemdat.jumps.Jumps', symbolic=True)
    a, k = AV(ty='int', symarg='a'), AV(ty='int', symarg='k')
    res = it.call_value(method, [obj, a], {'k': k}, fr, st, fi.node)
    ev = it.events[n0:]
    lru = [e for e in ev if e['tag'] == 'lru_call']
    sym = [e for e in ev if e['tag'] == 'symfunc_call']
    if not lru and not sym:
        return False

    def flat(args, kwargs):
        out = list(args)
        for kk, v in kwargs.items():
            if kk == '**' and v is not None and v.kw:
                out += list(v.kw.values())
            else:
                out.append(v)
        out2 = []
        for v in out:
            if v is not None and v.star and v.src is not None and v.src.elts is not None:
                out2 += list(v.src.elts)
            else:
                out2.append(v)
        return out2

    def has_arg(vals, name):
        return any(v is not None and (v.symarg == name or (v.elts is not None and any(x is not None and x.symarg == name for x in v.elts))) for v in vals)

    if not lru:
        ctx.ob(rule, fi, fi.node.name, False, 'no functools.lru_cache table is consulted when the decorated method is called: results are not memoised '
                                              'through the weak-key wrapper')
    for e in lru[:1]:
        vals = flat(e['args'], e['kwargs'])
        k0 = e['args'][0] if e['args'] else None
        if k0 is None:
            ctx.ob(rule, fi, e['node'], False, 'cached function called without a key for self')
        elif k0.ty == 'weakref' and k0.of is not None and k0.of.ty == 'obj' and k0.of.oid == obj.oid:
            ctx.ob(rule, fi, e['node'], True, 'keyed on weakref.ref(self)')
        elif k0.id_of is not None or (k0.ty == 'int' and k0.symarg is None):
            ctx.ob(rule, fi, e['node'], False, 'keyed on id(self) / a number derived from self: a new object at a recycled address receives the old result')
        elif k0.ty == 'obj' and k0.oid == obj.oid:
            ctx.ob(rule, fi, e['node'], False, 'keyed on self itself: the cache keeps every object alive (strong reference)')
        else:
            ctx.ob(rule, fi, e['node'], None, 'unrecognised key for self')
        okargs = has_arg(vals[1:], 'a') and has_arg(vals[1:], 'k')
        ctx.ob(rule, fi, f'{norm_text(e["node"])} [arguments]', True if okargs else None,
               'the call arguments are part of the key' if okargs else 'the call arguments were not found in the key')
    for e in sym[:1]:
        vals = flat(e['args'], e['kwargs'])
        first = e['args'][0] if e['args'] else None
        ok = first is not None and first.ty == 'obj' and first.oid == obj.oid and has_arg(vals[1:], 'a') and has_arg(vals[1:], 'k')
        ctx.ob(rule, fi, 'wrapped call', True if ok else None,
               'calls func(self(), *args, **kwargs)' if ok else 'the cached function does not forward (self(), *args, **kwargs)')
    if not sym:
        ctx.ob(rule, fi, 'wrapped call', None, 'the wrapped function is not reached')
    okres = res is not None and res.symresult == 'f'
    ctx.ob(rule, fi, 'result', True if okres else None, 'returns the result of the wrapped function' if okres else 'the result of the wrapped function is not returned unchanged')
    return True


def check_direct_caches(ctx, rule, fi):
    # (d) maxsize/typed forwarded; (e) zero direct functools caches on methods
    import re
    n_direct = 0
    for f in ctx.p.functions.values():
        if f.cls is None:
            continue
        for d in f.node.decorator_list:
            txt = norm_text(d)
            if re.search(r'(?<!weak_)\b(lru_cache|cached_property)\b|functools\W+cache\b|^cache$', txt):
                n_direct += 1
                ctx.ob(rule, f, f'@{txt}', False, 'method memoised with functools directly: the cache holds a strong reference to self '
                                                  'and compares objects with ==')
    ctx.ob(rule, fi, 'no direct functools cache on methods', True, f'{len([f for f in ctx.p.functions.values() if f.cls])} methods scanned, {n_direct} direct')


# ------------------------------------------------------------------------------------------------ R2
def check_owner(ctx, ci, fs):
    inpkg, ext = ctx.p.mro(ci)
    probs = []
    for c in inpkg:
        for m in ('__eq__', '__hash__'):
            if m in c.methods:
                probs.append(f'{c.name} defines {m}: cache entries are then shared between distinct but equal objects')
        if c.is_dataclass:
            dec = [d for d in c.node.decorator_list]
            eq_false = any(isinstance(d, ast.Call) and any(k.arg == 'eq' and isinstance(k.value, ast.Constant) and k.value.value is False for k in d.keywords) for d in dec)
            if not eq_false:
                probs.append(f'{c.name} is a dataclass with eq=True (value equality / unhashable)')
        if '__slots__' in c.class_attrs:
            txt = norm_text(c.class_attrs['__slots__'])
            if '__weakref__' not in txt:
                probs.append(f'{c.name} has __slots__ without __weakref__')
    ctx.ob('R2', fs[0], f'class {ci.name}', not probs, '; '.join(probs) if probs else
           f'identity semantics kept ({len(fs)} cached methods)')


# ------------------------------------------------------------------------------------------------ R4
def hashable_ann(node):
    if node is None:
        return None
    if isinstance(node, ast.Constant):
        if node.value is None:
            return True
        if isinstance(node.value, str):
            try:
                return hashable_ann(ast.parse(node.value, mode='eval').body)
            except SyntaxError:
                return None
    if isinstance(node, ast.Name):
        if node.id in HASHABLE:
            return True
        if node.id in ('list', 'dict', 'set', 'List', 'Dict', 'Set', 'ndarray'):
            return False
        return None
    if isinstance(node, ast.Attribute):
        if node.attr in ('ndarray', 'DataFrame', 'Series'):
            return False
        return None
    if isinstance(node, ast.BinOp) and isinstance(node.op, ast.BitOr):
        l, r = hashable_ann(node.left), hashable_ann(node.right)
        if l is False or r is False:
            return False
        if l is None or r is None:
            return None
        return True
    if isinstance(node, ast.Subscript):
        head = norm_text(node.value).split('.')[-1]
        if head in ('list', 'List', 'dict', 'Dict', 'set', 'Set', 'Sequence', 'Collection', 'Iterable', 'MutableSequence'):
            return False
        if head in ('tuple', 'Tuple', 'Optional', 'Literal', 'frozenset', 'Union'):
            sl = node.slice.elts if isinstance(node.slice, ast.Tuple) else [node.slice]
            if head == 'Literal':
                return True
            rs = [hashable_ann(x) for x in sl if not (isinstance(x, ast.Constant) and x.value is Ellipsis)]
            if any(r is False for r in rs):
                return False
            if any(r is None for r in rs):
                return None
            return True
    return None


def check_params(ctx, f):
    a = f.node.args
    params = (a.posonlyargs + a.args)[1:] + a.kwonlyargs
    for p in params:
        h = hashable_ann(p.annotation)
        ctx.ob('R4', f, f'parameter {p.arg}: {norm_text(p.annotation) if p.annotation else "<none>"}', h,
               'hashable value type' if h else ('unhashable / mutable argument type in a cache key' if h is False else
                                                'annotation not recognised as hashable'))
    if a.vararg or a.kwarg:
        ctx.ob('R4', f, 'variadic parameters', None, 'cached method with *args/**kwargs: key types unknown')


# ------------------------------------------------------------------------------------------------ R3
def reachable_oids(av, heap, seen, depth=0):
    if av is None or depth > 8:
        return
    if av.ty == 'obj' and av.oid is not None:
        if av.oid in seen:
            return
        seen.add(av.oid)
        for k, v in heap.get(av.oid, {}).items():
            reachable_oids(v, heap, seen, depth + 1)
    for sub in (av.elts or []):
        reachable_oids(sub, heap, seen, depth + 1)
    if av.elem is not None:
        reachable_oids(av.elem, heap, seen, depth + 1)
    if av.keyelem is not None:
        reachable_oids(av.keyelem, heap, seen, depth + 1)
    for sub in (av.kw or {}).values():
        reachable_oids(sub, heap, seen, depth + 1)
    if av.ty == 'func' and av.bound is not None:
        reachable_oids(av.bound, heap, seen, depth + 1)
    if av.ty == 'lambda' and av.frame is not None and av.frame.self_av is not None:
        reachable_oids(av.frame.self_av, heap, seen, depth + 1)
    if av.ty == 'func' and av.closure is not None and av.closure.self_av is not None:
        reachable_oids(av.closure.self_av, heap, seen, depth + 1)


def check_retention(ctx, f):
    it = ctx.entry(f.qualname)
    res = it.result
    heap = it.final_state.heap
    # the symbolic self of this entry is the first object allocated
    self_oid = None
    for e in it.events:
        pass
    self_oid = it.entry_self.oid if it.entry_self is not None else None
    seen = set()
    if res is not None and res.ty == 'obj' and res.oid == self_oid:
        ctx.ob('R3', f, 'return self', False, 'the cached value is self: the cache keeps its own key object alive')
        return
    reachable_oids(res, heap, seen)
    if self_oid in seen:
        # find the attribute path for the report
        path = find_path(res, heap, self_oid)
        ctx.ob('R3', f, f'return value holds self via {path}', False,
               f'the value cached for this object keeps a strong reference to it ({path}): the lru_cache entry keeps the '
               f'object alive, so caching prevents its destruction', chain=[path])
    else:
        ctx.ob('R3', f, 'return value', True, f'no reference to self reachable from the returned value ({len(seen)} objects traversed)')


def find_path(av, heap, target, prefix='result', depth=0, seen=None):
    seen = seen if seen is not None else set()
    if av is None or depth > 8:
        return None
    if av.ty == 'obj' and av.oid is not None:
        if av.oid == target:
            return prefix
        if av.oid in seen:
            return None
        seen.add(av.oid)
        for k, v in heap.get(av.oid, {}).items():
            r = find_path(v, heap, target, f'{prefix}.{k}', depth + 1, seen)
            if r:
                return r
    for i, sub in enumerate(av.elts or []):
        r = find_path(sub, heap, target, f'{prefix}[{i}]', depth + 1, seen)
        if r:
            return r
    for nm, sub in (('[*]', av.elem), ('<key>', av.keyelem)):
        r = find_path(sub, heap, target, prefix + nm, depth + 1, seen)
        if r:
            return r
    for k, sub in (av.kw or {}).items():
        r = find_path(sub, heap, target, f'{prefix}[{k!r}]', depth + 1, seen)
        if r:
            return r
    if av.ty == 'func' and av.bound is not None:
        return find_path(av.bound, heap, target, prefix + '.__self__', depth + 1, seen)
    return None


# ------------------------------------------------------------------------------------------------ R5 / R6
def self_attr_reads(ctx, f, seen=None):
    """Attributes of self read (transitively through self.method() / properties) by a method."""
    seen = seen if seen is not None else set()
    if f.qualname in seen:
        return set()
    seen.add(f.qualname)
    out = set()
    a = f.node.args
    ps = a.posonlyargs + a.args
    if not ps:
        return out
    selfn = ps[0].arg
    for n in walk_no_nested(f.node):
        if isinstance(n, ast.Attribute) and isinstance(n.value, ast.Name) and n.value.id == selfn and isinstance(n.ctx, ast.Load):
            m = ctx.p.find_method(f.cls, n.attr) if f.cls else None
            if m is not None:
                out |= self_attr_reads(ctx, m, seen)
            else:
                out.add(n.attr)
    return out


_CONS = {}


def construction_only_methods(ctx, ci):
    """__init__/__post_init__ plus methods of the class called only from those."""
    key = (id(ctx), ci.qualname)
    if key not in _CONS:
        _CONS[key] = _construction_only_methods(ctx, ci)
    return _CONS[key]


def _construction_only_methods(ctx, ci):
    base = {m for m in ('__init__', '__post_init__') if m in ci.methods}
    callers = {}
    for m, f in ci.methods.items():
        a = f.node.args
        ps = a.posonlyargs + a.args
        if not ps:
            continue
        selfn = ps[0].arg
        for c in calls_in(f.node):
            if isinstance(c.func, ast.Attribute) and isinstance(c.func.value, ast.Name) and c.func.value.id == selfn:
                callers.setdefault(c.func.attr, set()).add(m)
    # external callers of a method (obj.method()) anywhere in the package make it non-construction-only
    ext_called = set()
    for f in ctx.p.functions.values():
        if f.cls is ci:
            continue
        for c in calls_in(f.node):
            if isinstance(c.func, ast.Attribute):
                ext_called.add(c.func.attr)
    changed = True
    while changed:
        changed = False
        for m in ci.methods:
            if m in base or m in ext_called:
                continue
            cs = callers.get(m, set())
            if cs and cs <= base:
                base.add(m)
                changed = True
    return base


def check_writes(ctx, owners):
    # R5: stores to attributes of owner classes outside construction
    for cq, fs in sorted(owners.items()):
        ci = ctx.p.classes[cq]
        read = set()
        for f in fs:
            read |= self_attr_reads(ctx, f)
        cons = construction_only_methods(ctx, ci)
        bad = []
        for m, f in ci.methods.items():
            if m in cons:
                continue
            a = f.node.args
            ps = a.posonlyargs + a.args
            selfn = ps[0].arg if ps else None
            for n in walk_no_nested(f.node):
                if isinstance(n, ast.Attribute) and isinstance(n.ctx, (ast.Store, ast.Del)) and isinstance(n.value, ast.Name) and n.value.id == selfn:
                    if n.attr in read:
                        bad.append((f, n))
        for f, n in bad:
            ctx.ob('R5', f, n, False, f'`self.{n.attr}` is read by cached methods of {ci.name} but reassigned after construction: '
                                      f'memoised results go stale')
        ctx.ob('R5', fs[0], f'class {ci.name}: attributes {sorted(read)}', not bad,
               f'assigned only in {sorted(cons)}' if not bad else 'reassigned after construction')
    # stores through other receivers, and in-place writes into cached values: whole-package event scan
    scan = ctx.package_scan()
    n_store = 0
    for it in scan:
        for e in it.events:
            if e['tag'] != 'store':
                continue
            n_store += 1
            base = e['base']
            where = e['where']
            if base is None or where is None:
                continue
            if e['kind'] == 'attr' and base.ty == 'obj' and base.cls in owners:
                node = e['node']
                attr = node.attr if isinstance(node, ast.Attribute) else None
                ci = ctx.p.classes[base.cls]
                in_cons = where.cls is not None and where.cls.qualname in [c.qualname for c in ctx.p.mro(ci)[0]] and where.name in construction_only_methods(ctx, where.cls)
                if not in_cons:
                    read = set()
                    for f in owners[base.cls]:
                        read |= self_attr_reads(ctx, f)
                    if attr in read:
                        ctx.ob('R5', where, node, False, f'`{norm_text(node)}` rebinds an input of cached methods of {ci.name} after construction')
            prov = base.prov or frozenset()
            cached = [p for p in prov if p.startswith('cached:')]
            if cached and (e['kind'] in ('sub', 'aug', 'del', 'out=', 'putmask', 'add_at') or e['kind'].startswith('method:')) \
                    and base.ty in ('ndarray', 'DataFrame', 'list', 'dict', 'Series', 'Graph'):
                ctx.ob('R6', where, e['node'], False, f'in-place write into the memoised result of {cached[0][7:]}: later calls return the modified value')
    ctx.ob('R6', 'gemdat', f'{n_store} in-place / attribute stores in the package', True, 'none targets a memoised value')


# ------------------------------------------------------------------------------------------------ R7 hand-rolled memo tables
def memo_sites(fnode):
    """(if-node, key expr, table expr, stored value expr) for `if K not in T: ... T[K] = V` inside a function."""
    out = []
    for n in walk_no_nested(fnode):
        if not isinstance(n, ast.If) or not isinstance(n.test, ast.Compare) or len(n.test.ops) != 1:
            continue
        op = n.test.ops[0]
        if isinstance(op, ast.NotIn):
            body = n.body
        elif isinstance(op, ast.In):
            body = n.orelse
        else:
            continue
        k, t = n.test.left, n.test.comparators[0]
        for s_ in body:
            for w in ast.walk(s_):
                if isinstance(w, ast.Assign) and len(w.targets) == 1 and isinstance(w.targets[0], ast.Subscript) \
                        and norm_text(w.targets[0].value) == norm_text(t) and norm_text(w.targets[0].slice) == norm_text(k):
                    out.append((n, k, t, w.value))
    return out


def check_handrolled_memo(ctx, rule):
    n_sites = 0
    for q, f in sorted(ctx.p.functions.items()):
        sites = memo_sites(f.node)
        if not sites:
            continue
        if f.parent is not None:
            continue  # a table owned by the enclosing call: it does not outlive that call
        it = ctx.entry(q)
        for ifn, k, t, v in sites:
            tv = it.value_of(t)
            if tv is not None and tv.ty == 'dict' and tv.fresh and tv.store is None and tv.instance_dict_of is None and not tv.persistent:
                continue  # a dictionary created inside this call (an accumulator), not a memo that survives the call
            n_sites += 1
            kv, vv = it.value_of(k), it.value_of(v)
            kd = set(kv.deps or ()) if kv is not None else set()
            vd = set(vv.deps or ()) if vv is not None else set()
            for sub in ast.walk(v):
                if isinstance(sub, ast.Call):
                    for a_ in list(sub.args) + [kw_.value for kw_ in sub.keywords]:
                        av_ = it.value_of(a_.value if isinstance(a_, ast.Starred) else a_)
                        if av_ is not None and av_.deps:
                            vd |= set(av_.deps)
            missing = []
            for p in f.params():
                if p in ('self', 'cls'):
                    continue
                dep = f'param:{f.name}.{p}'
                uses = any(d == dep or d.startswith(dep + '[') or d.startswith(dep + '#') for d in vd)
                keyed = dep in kd
                if not keyed and any(d.startswith(dep + '[') for d in kd):
                    # only selected entries of a mapping parameter are part of the key
                    keyed_entries = {d for d in kd if d.startswith(dep + '[')}
                    used_whole = any(d == dep for d in vd)
                    used_entries = {d for d in vd if d.startswith(dep + '[')}
                    keyed = not used_whole and used_entries <= keyed_entries
                if uses and not keyed:
                    missing.append(p)
            kw = f.node.args.kwarg.arg if f.node.args.kwarg else None
            if kw and kw not in missing:
                dep = f'param:{f.name}.{kw}'
                if any(d == dep for d in vd) and dep not in kd:
                    missing.append('**' + kw)
            ctx.ob(rule, f, ifn, not missing, 'the memo key covers every parameter the stored value depends on' if not missing else
                   f'the stored value depends on {", ".join("`" + m + "`" for m in missing)}, which is not part of the memo key `{norm_text(k)}`: a later '
                   f'call that differs only in that argument silently receives the value memoised for the earlier call')
    ctx.ob(rule, 'gemdat', f'{n_sites} hand-rolled memo tables', True, 'enumerated over the whole package')
