"""One module per property; each exposes check(ctx) and optionally check_thorough(ctx)."""
