"""C18 - orientations: minimum-image bonds, named axes of normalise/symmetrise/transform, spherical components."""

from __future__ import annotations

import ast

from ..interp import cval, has_const
from ..kinds import is_cart
from ..source import norm_text
from .geo import all_geos, geo_text, kind_errors, under, uniq_events

OR = 'gemdat.orientations.Orientations'


def check(ctx):
    ctx.doc('R1', 'bond vectors = difference of wrapped positions of satellite and centre, reduced by both single-step image '
                  'corrections, converted with the trajectory lattice')
    ctx.doc('R2', 'normalize divides by the norm over xyz (keepdims); symmetrize contracts the vector index with the column '
                  'index of each operation and keeps xyz last; transform applies matrix to every vector (dot with matrix.T)')
    ctx.doc('R3', 'spherical conversion reads components 0,1,2 as x,y,z, pairs arctan2(y, x) and arcsin(z / r), stacks (az, el, r)')
    ctx.doc('R4', 'autocorrelation of self.vectors, normalised by its own lag-0 column')
    ctx.floor('R1', 3)
    ctx.floor('R2', 3)
    ctx.floor('R3', 3)
    fp = ctx.fn(f'{OR}.__post_init__')
    it = ctx.entry(fp.qualname)
    fd = ctx.fn(f'{OR}._fractional_directions')
    inside = lambda f: f.qualname.startswith(OR + '.')
    kind_errors(ctx, 'R1', it, inside)
    # the difference
    ret = None
    for n in ast.walk(fd.node):
        if isinstance(n, ast.Return) and n.value is not None:
            ret = it.value_of(n.value)
    subs = [n for n in ast.walk(fd.node) if isinstance(n, ast.BinOp) and isinstance(n.op, ast.Sub)]
    diff = None
    for n in subs:
        v = it.value_of(n)
        if v is not None and v.geo is not None and v.geo[0] == 'FDIFF' and v.bin and v.bin[1].geo is not None and v.bin[1].geo[0] == 'FRAC':
            diff = (n, v)
            break
    if diff is None:
        ctx.ob('R1', fd, 'satellite - centre', None, 'difference of satellite and centre positions not recognised')
    else:
        n, v = diff
        ok = v.geo == ('FDIFF', 'W2')
        ctx.ob('R1', fd, n, True if ok else False, 'difference of two wrapped positions' if ok else
               'an operand of the bond vector is not a wrapped position: a single-step image correction cannot reduce it')
    g = ret.geo if ret is not None else None
    ok = g in (('FDIFF', 'MI'), ('FDIFF', 'CW'))
    if g is not None and g[0] == 'FDIFF' and g[1] == 'W1':
        msg = f'only the `{g[2]}1` image correction is applied: bonds crossing a cell face in the other direction keep a length of about one cell'
    elif g == ('FDIFF', 'W2'):
        mism = [e for e in it.events if e['tag'] == 'image_correction' and e.get('how') == 'mismatch']
        msg = ('no image correction: bonds crossing a cell face are a lattice vector too long' if not mism else
               f'the image shift is computed from `{mism[0].get("source")}` and not from the vectors it is applied to: bonds whose periodic image '
               f'changes later (an atom crossing a cell face) are a lattice vector too long')
    else:
        msg = f'returned directions are {geo_text(g)}'
    ctx.ob('R1', fd, 'return value', True if ok else (None if g is None else False), 'minimum-image fractional bond vectors' if ok else msg)
    for e in uniq_events(it, {'to_cart'}, under(fp.qualname)):
        a = e['arg']
        lat = e['lattice']
        ok = a is not None and a.geo in (('FDIFF', 'MI'), ('FDIFF', 'CW')) and lat is not None and lat.frame == 'LAT'
        ctx.ob('R1', fp, e['node'], True if ok else (None if a is None or a.geo is None else False),
               'Cartesian bond vectors in the trajectory lattice' if ok else f'Cartesian conversion of {geo_text(a.geo if a is not None else None)}')
    if not uniq_events(it, {'to_cart'}, under(fp.qualname)):
        from .common import absent
        ctx.ob('R1', fp, 'Cartesian conversion', absent(it, fp.qualname), 'bond vectors are not converted to Cartesian coordinates')
    check_axes(ctx)
    check_spherical(ctx)
    check_autocorr(ctx)


def check_axes(ctx):
    VEC = 'attr:Orientations.vectors'
    # normalize: every vector divided by its own length (norm over xyz, broadcast back along xyz)
    fn = ctx.fn(f'{OR}.normalize')
    itn = ctx.entry(fn.qualname)
    quot = []
    for n in ast.walk(fn.node):
        if isinstance(n, ast.BinOp) and isinstance(n.op, ast.Div) or (isinstance(n, ast.Call) and norm_text(n.func).split('.')[-1] in ('divide', 'true_divide')):
            v = itn.value_of(n)
            if v is not None and v.bin is not None and v.bin[0] == '/' and v.bin[2] is not None and v.bin[2].norm_of is not None:
                quot.append((n, v))
    if not quot:
        ctx.ob('R2', fn, 'normalisation', None, 'division by the vector norm not found')
    for n, v in quot:
        l, r = v.bin[1], v.bin[2]
        same = l.store == VEC and r.norm_of.store == VEC
        over_xyz = r.norm_removed == ('xyz',)
        aligned = l.axes is not None and r.axes is not None and len(r.axes) == len(l.axes) and r.axes[-1] in ('one', 'new') and r.axes[:-1] == l.axes[:-1]
        known = l.axes is not None and r.axes is not None
        ok = same and over_xyz and aligned
        ctx.ob('R2', fn, n, True if ok else (False if known else None),
               'vectors / |vectors| over xyz, broadcast along xyz' if ok else
               'normalisation does not divide each vector by its own length over the xyz axis')
    # symmetrize
    fs = ctx.fn(f'{OR}.symmetrize')
    its = ctx.entry(fs.qualname)
    eins = uniq_events(its, {'einsum'}, under(fs.qualname))
    if not eins:
        ctx.ob('R2', fs, 'symmetrisation', None, 'einsum not found')
    for e in eins:
        spec, ops = e['spec'], e['ops']
        n = e['node']
        ok = None
        msg = 'einsum specification not a literal'
        if isinstance(spec, str) and '->' in spec and len(ops) == 2:
            ins, out = spec.replace(' ', '').split('->')
            parts = ins.split(',')
            vec_pos = [k for k, o in enumerate(ops) if o.store == VEC]
            if len(parts) == 2 and len(vec_pos) == 1:
                a, b = parts[vec_pos[0]], parts[1 - vec_pos[0]]
                # vectors: (t, b, i); ops: (row, col, op); result must end in the free matrix index with the other contracted with i
                if len(a) == 3 and len(b) == 3:
                    vi = a[2]
                    row, col, op = b[0], b[1], b[2]
                    contracted = vi in b and vi not in out
                    if contracted:
                        free = [c for c in b if c != vi]
                        other = [c for c in free if c != op]
                        # for an orthogonal group contracting with the row or the column index yields the same set of images
                        ok = (out[-1] == other[0] if other else False) and out[:2] == a[:2] and out[2] == op and vi in (row, col)
                        msg = 'one image per operation, xyz last' if ok else (
                            'output axes are not (time, bond, operation, xyz): the reshape then mixes components and operations')
                    else:
                        ok, msg = False, 'the vector component index is not contracted with the operations'
            else:
                msg = 'operand holding the bond vectors not identified'
        ctx.ob('R2', fs, n, ok, msg)
    resh = [n for n in ast.walk(fs.node) if isinstance(n, ast.Call) and isinstance(n.func, ast.Attribute) and n.func.attr == 'reshape']
    for n in resh:
        rv = its.value_of(n.func.value)
        if rv is None or rv.einsum is None:
            continue
        elts = n.args[0].elts if (len(n.args) == 1 and isinstance(n.args[0], ast.Tuple)) else list(n.args)
        txt = [its.sx(a).replace(' ', '') for a in elts]
        if len(n.args) == 1 and not isinstance(n.args[0], ast.Tuple):
            from .common import parse_sx
            t_ = parse_sx(its.sx(n.args[0]), full=True)
            txt = [norm_text(x).replace(' ', '') for x in t_.elts] if isinstance(t_, ast.Tuple) else txt
        def is_prod(t):
            fs_ = sorted(t.strip('()').split('*'))
            return len(fs_) == 2 and 'self.vectors.shape[1]' in fs_ and any(x.endswith('.shape[2]') for x in fs_)
        ok = len(txt) == 3 and txt[0] == 'self.vectors.shape[0]' and txt[2] == '3' and is_prod(txt[1])
        ctx.ob('R2', fs, n, True if ok else None, 'merges (bond, operation) and keeps xyz last' if ok else 'reshape not recognised')
    # transform: v . M^T = M v for every vector
    ft = ctx.fn(f'{OR}.transform')
    itt = ctx.entry(ft.qualname)
    prods = uniq_events(itt, {'dot'}, under(ft.qualname))
    if not prods:
        ctx.ob('R2', ft, 'transform', None, 'matrix product not found')
    for e in prods:
        a, b = e['a'], e['b']
        is_vec = a is not None and a.store == VEC
        is_mat = b is not None and bool(b.is_param and b.is_param.endswith(':matrix') or (b.origin and any(o.endswith('.matrix') for o in b.origin)))
        if not is_vec and e['where'] is not None and e['where'].qualname != ft.qualname:
            continue  # a product made while the new object is constructed, not the transform itself
        if is_vec and is_mat:
            ctx.ob('R2', ft, e['node'], True if b.transposed else False, 'v . M^T = M v for every vector' if b.transposed else
                   'dot(v, M) applies the transposed matrix to every vector')
        else:
            ctx.ob('R2', ft, e['node'], None, 'matrix product form not recognised')


def check_spherical(ctx):
    fc = ctx.fn('gemdat.utils.cartesian_to_spherical')
    it = ctx.entry(fc.qualname)
    f2 = ctx.fn('gemdat.utils._cart2sph')
    # components
    calls = [e for e in it.events if e['tag'] == 'call' and e['callee'] == f2.qualname]
    if not calls:
        ctx.ob('R3', fc, 'spherical conversion', None, '_cart2sph not called')
        return
    e = calls[0]
    comp = {}
    prm = fc.node.args.args[0].arg if fc.node.args.args else None
    for a in ast.walk(fc.node):
        if isinstance(a, ast.Assign) and len(a.targets) == 1 and isinstance(a.targets[0], ast.Name) and isinstance(a.value, ast.Subscript) \
                and norm_text(a.value.value) == prm:
            sl = a.value.slice
            items = sl.elts if isinstance(sl, ast.Tuple) else [sl]
            last = items[-1]
            if isinstance(last, ast.Constant) and isinstance(last.value, int) and all(isinstance(i, ast.Slice) or (isinstance(i, ast.Constant) and i.value is Ellipsis) for i in items[:-1]):
                comp[a.targets[0].id] = last.value
    call = e['node']
    axes = [comp.get(norm_text(x)) for x in call.args[:3]]
    if None in axes or len(axes) != 3:
        # on values: the component tag of the three arguments as the call received them
        axes = [(x.axis if x is not None else None) for x in list(e['args'])[:3]]
    ctx.ob('R3', fc, e['node'], True if axes == [0, 1, 2] else (None if None in axes else False),
           'components 0, 1, 2 passed as x, y, z' if axes == [0, 1, 2] else f'components {axes} passed as x, y, z')
    # inside _cart2sph
    params = [a.arg for a in f2.node.args.args]
    for n in ast.walk(f2.node):
        if isinstance(n, ast.Call):
            fn = norm_text(n.func).split('.')[-1]
            a = [norm_text(x) for x in n.args]
            if fn == 'arctan2':
                ok = a == [params[1], params[0]]
                ctx.ob('R3', f2, n, ok, 'azimuth = arctan2(y, x)' if ok else f'azimuth computed as arctan2({", ".join(a)})')
            elif fn == 'arcsin':
                ok = a and a[0].replace(' ', '') == f'{params[2]}/r'
                wrong = bool(a) and any(a[0].replace(' ', '') == f'{p_}/r' for p_ in params[:2])  # arcsin(x / r), arcsin(y / r): the wrong component
                ctx.ob('R3', f2, n, True if ok else (False if wrong else None), 'elevation = arcsin(z / r)' if ok else f'elevation computed as arcsin({a[0] if a else ""})')
            elif fn == 'sqrt':
                t = a[0].replace(' ', '') if a else ''
                for p_ in params:
                    t = t.replace(f'{p_}*{p_}', f'{p_}**2').replace(f'np.square({p_})', f'{p_}**2')
                ok = all(f'{p}**2' in t for p in params) and t.count('+') == 2
                ctx.ob('R3', f2, n, True if ok else None, 'r = sqrt(x^2 + y^2 + z^2)' if ok else 'radius formula not recognised')
    # return order and stack order
    rets = [n for n in ast.walk(f2.node) if isinstance(n, ast.Return)]
    for r in rets:
        names = [norm_text(x) for x in r.value.elts] if isinstance(r.value, ast.Tuple) else []
    st = [n for n in ast.walk(fc.node) if isinstance(n, ast.Call) and norm_text(n.func).endswith('stack')]
    for n in st:
        def _unwrap(x):
            # an elementwise conversion of one component (np.degrees(az), convert(el)) keeps its place in the triple
            while isinstance(x, ast.Call) and len(x.args) == 1 and not x.keywords and isinstance(x.args[0], (ast.Name, ast.Call)):
                x = x.args[0]
            return x
        order = [norm_text(_unwrap(x)) for x in n.args[0].elts] if n.args and isinstance(n.args[0], (ast.Tuple, ast.List)) else None
        # names bound from the _cart2sph call
        bound = None
        for a in ast.walk(fc.node):
            if isinstance(a, ast.Assign) and a.value is e['node'] and isinstance(a.targets[0], ast.Tuple):
                bound = [norm_text(x) for x in a.targets[0].elts]
        ok = order is not None and bound is not None and order == bound and names == ['az', 'el', 'r']
        ax = [k for k in n.keywords if k.arg == 'axis']
        ok_axis = ax and isinstance(ax[0].value, (ast.UnaryOp, ast.Constant)) and ast.literal_eval(ax[0].value) == -1
        permuted = order is not None and bound is not None and sorted(order) == sorted(bound) and order != bound
        ctx.ob('R3', fc, n, True if (ok and ok_axis) else (False if (permuted or (ok and ax and not ok_axis)) else None),
               '(azimuth, elevation, radius) stacked on the last axis' if (ok and ok_axis) else 'spherical components are stacked in a different order / axis')


def check_autocorr(ctx):
    fa = ctx.fn(f'{OR}.autocorrelation')
    # evaluate autocorrelation on an object whose vectors were computed by __post_init__ (Cartesian bond vectors)
    from ..interp import const
    it = ctx.entry(f'{OR}.__post_init__', args={'in_vectors': const(None)})
    if it.entry_self is not None and not getattr(it, '_autocorr_done', False):
        it._autocorr_done = True
        it.call_function(fa, [], {}, it.final_state, self_av=it.entry_self, node=None)
    kind_errors(ctx, 'R4', it, under('gemdat.utils.fft_autocorrelation'))
    calls = [n for n in ast.walk(fa.node) if isinstance(n, ast.Call)]
    ok = any(norm_text(n.func).endswith('fft_autocorrelation') and n.args and norm_text(n.args[0]) == 'self.vectors' for n in calls)
    ctx.ob('R4', fa, 'fft_autocorrelation(self.vectors)', True if ok else None, 'autocorrelation of the orientation vectors' if ok else 'call not recognised')
    ff = ctx.fn('gemdat.utils.fft_autocorrelation')
    check_real_fft_lengths(ctx, 'R4', ff)
    divs = [n for n in ast.walk(ff.node) if isinstance(n, ast.BinOp) and isinstance(n.op, ast.Div) and isinstance(n.right, ast.Subscript)
            and norm_text(n.left) == norm_text(n.right.value)]
    found = False
    for n in divs:
        sl = n.right.slice
        items = sl.elts if isinstance(sl, ast.Tuple) else [sl]
        if len(items) >= 2 and isinstance(items[1], ast.Constant):
            found = True
            ok = items[1].value == 0
            ctx.ob('R4', ff, n, ok, 'normalised by its own lag-0 value' if ok else 'normalised by a lag other than zero')
    if not found:
        # on symbolic values: x / <column c of x, reshaped to a column>
        from .common import parse_sx
        for n in ast.walk(ff.node):
            if not (isinstance(n, ast.BinOp) and isinstance(n.op, ast.Div)):
                continue
            lt = it.sx(n.left)
            rt = parse_sx(it.sx(n.right), full=True)
            if rt is None or not lt:
                continue
            for sub in ast.walk(rt):
                if isinstance(sub, ast.Subscript) and norm_text(sub.value) == lt and isinstance(sub.slice, ast.Tuple) and len(sub.slice.elts) >= 2 \
                        and isinstance(sub.slice.elts[1], ast.Constant) and isinstance(sub.slice.elts[0], ast.Slice) and sub.slice.elts[0].lower is None \
                        and sub.slice.elts[0].upper is None:
                    found = True
                    ok = sub.slice.elts[1].value == 0
                    ctx.ob('R4', ff, n, ok, 'normalised by its own lag-0 value' if ok else 'normalised by a lag other than zero')
                    break
    if not found:
        ctx.ob('R4', ff, 'lag-0 normalisation', None, 'normalisation by the lag-0 column not recognised')


def check_real_fft_lengths(ctx, rule, ff, what='autocorrelation'):
    """Forward and inverse real transforms must use the same length: irfft defaults to 2 * (m - 1), which differs from an odd n."""
    from .common import linear_atoms, parse_sx
    it = ctx.entry(ff.qualname)
    rf = [n for n in ast.walk(ff.node) if isinstance(n, ast.Call) and norm_text(n.func).endswith('.rfft')]
    irf = [n for n in ast.walk(ff.node) if isinstance(n, ast.Call) and norm_text(n.func).endswith('.irfft')]
    for r_ in rf:
        n_fwd = next((k.value for k in r_.keywords if k.arg == 'n'), r_.args[1] if len(r_.args) > 1 else None)
        for i_ in irf:
            n_inv = next((k.value for k in i_.keywords if k.arg == 'n'), i_.args[1] if len(i_.args) > 1 else None)
            if n_fwd is None:
                ctx.ob(rule, ff, i_, None, 'forward transform without explicit length')
                continue
            t = parse_sx(it.sx(n_fwd), full=True)
            atoms, c = linear_atoms(t) if t is not None else ({}, 0.0)
            odd = None
            arbitrary = False
            if t is not None and all(float(v).is_integer() for v in list(atoms.values()) + [c]):
                if all(int(v) % 2 == 0 for v in atoms.values()):
                    odd = int(c) % 2 == 1
                else:
                    # an odd multiple of something that is not itself known to be even
                    for a, v in atoms.items():
                        if int(v) % 2 != 0:
                            at = parse_sx(a)
                            if isinstance(at, ast.Call) and not norm_text(at.func).startswith(('len', 'int')):
                                arbitrary = True
            if n_inv is not None:
                same = it.sx(n_inv).replace(' ', '') == it.sx(n_fwd).replace(' ', '')
                ctx.ob(rule, ff, i_, True if same else None, 'inverse transform of the same length as the forward transform' if same else 'lengths not comparable')
            elif odd is True:
                ctx.ob(rule, ff, i_, False,
                       f'the forward transform has the odd length n = {norm_text(n_fwd)} but np.fft.irfft without n returns 2 * (m - 1) = n - 1 samples: '
                       f'the inverse is taken on a different grid, so the {what} is not the time-origin average',
                       key='np.fft.irfft(<power spectrum>) without n after an odd-length forward transform')
            elif odd is False:
                ctx.ob(rule, ff, i_, True, 'even length: the default inverse length equals n')
            elif arbitrary:
                ctx.ob(rule, ff, i_, False,
                       f'the forward length n = {norm_text(t)} can be odd, but np.fft.irfft without n assumes an even length (returns 2 * (m - 1) samples): '
                       f'for odd n the inverse is taken on a different grid and the {what} is wrong at every lag')
            else:
                ctx.ob(rule, ff, i_, None, 'parity of the transform length unknown and irfft has no explicit length')
