"""C14 - derived metrics: formulas in normal form, homogeneity degrees (scaling laws), unit labels, Std siblings."""

from __future__ import annotations

import ast

from ..interp import cval, has_const
from ..source import norm_text
from .common import calls_in, walk_no_nested
from .formula import check_degree, check_label, label_obligations, match_mono, no_scale_dependent_ops
from .geo import all_geos, geo_text, kind_errors, under, uniq_events

TM = 'gemdat.metrics.TrajectoryMetrics'
TMS = 'gemdat.metrics.TrajectoryMetricsStd'
TRAJ = 'gemdat.trajectory.Trajectory'

MSD = r'mean\[[^\]]*\]\(len\^2\)'
DIFF = {'angstrom': 2, MSD: 1, 'n_frames': -1, 'time_step': -1, 'param:dimensions': -1}

# method -> (degree (L, T, Z), expected normal form or None)
EXPECT = {
    'particle_density': ((-3, 0, 0), (1.0, {'n_atoms': 1, 'volume': -1, 'angstrom': -3})),
    'mol_per_liter': ((-3, 0, 0), (1.0, {'n_atoms': 1, 'volume': -1, 'angstrom': -3, 'Avogadro': -1})),
    'tracer_diffusivity': ((2, -1, 0), (0.5, DIFF)),
    'tracer_diffusivity_center_of_mass': ((2, -1, 0), (0.5, DIFF)),
    'haven_ratio': ((0, 0, 0), None),
    'tracer_conductivity': ((-1, -1, 2), (0.5, {'elementary_charge': 2, 'param:z_ion': 2, 'Boltzmann': -1, 'temperature': -1,
                                               'n_atoms': 1, 'volume': -1, 'angstrom': -1, MSD: 1, 'n_frames': -1,
                                               'time_step': -1, 'param:dimensions': -1})),
    'attempt_frequency': ((0, -1, 0), None),
    'vibration_amplitude': ((1, 0, 0), None),
    'amplitudes': ((1, 0, 0), None),
    'speed': ((1, 0, 0), None),
}


def check(ctx):
    ctx.doc('R1', 'every metric has the homogeneity degree its scaling law states (cell scale L, time step T, ion charge Z) '
                  'and, where the statement gives a formula, exactly that monomial normal form; no scale-dependent '
                  'comparison or transcendental on the way')
    ctx.doc('R2', 'every FloatWithUnit label equals the unit computed from the formula (powers of ten absorbed as unit scale)')
    ctx.doc('R3', 'centre of mass: mass-weighted average over the atom axis of base_positions + cumulative displacements')
    ctx.doc('R4', 'each TrajectoryMetricsStd method calls the same-named TrajectoryMetrics method on every part, forwards '
                  'its keyword parameters and labels mean and std with the base unit')
    ctx.floor('R1', 10, '10 metric methods')
    ctx.floor('R2', 8)
    ctx.floor('R4', 5)
    helpers = {'gemdat.utils.meanfreq', f'{TRAJ}.distances_from_base_position', f'{TRAJ}.center_of_mass', 'gemdat.trajectory._lengths',
               f'{TRAJ}.total_time', f'{TRAJ}.sampling_frequency', f'{TRAJ}.cumulative_displacements'}
    for name, (deg, form) in EXPECT.items():
        fi = ctx.fn(f'{TM}.{name}')
        it = ctx.entry(fi.qualname)
        scope = scope_of(helpers)
        nbad = no_scale_dependent_ops(ctx, 'R1', it, scope)
        nbad += kind_errors(ctx, 'R1', it, scope)
        res = it.result
        vals = res.elts if (res is not None and res.elts) else [res]
        for k, v in enumerate(vals):
            tag = 'return value' if len(vals) == 1 else f'return value [{k}]'
            m = v.mono if v is not None else None
            ok, msg = check_degree(m, deg)
            ctx.ob('R1', fi, tag + ' degree', ok, msg)
            if form is not None and ok:
                ok2, msg2 = match_mono(m, form[0], form[1])
                ctx.ob('R1', fi, tag + ' formula', ok2, msg2)
        label_obligations(ctx, 'R2', it, under(fi.qualname))
    check_com(ctx)
    check_std(ctx)


def scope_of(helpers):
    """Events raised in a TrajectoryMetrics method, in one of the trajectory helpers it relies on, or in a private helper of those."""
    from .geo import _helper_like

    def f(e):
        c = e['ctx']
        for i in range(len(c) - 1, -1, -1):
            if c[i].startswith(TM + '.') or c[i] in helpers:
                return all(_helper_like(q) for q in c[i + 1:])
        return False
    f.wants_event = True
    return f


def check_com(ctx):
    fi = ctx.fn(f'{TRAJ}.center_of_mass')
    it = ctx.entry(fi.qualname)
    reds = [e for e in uniq_events(it, {'reduce'}, under(fi.qualname))]
    if not reds:
        ctx.ob('R3', fi, 'centre of mass', None, 'no average over atoms found')
        return
    for e in reds:
        w = e['weights']
        arg = e['arg']
        rem = e['removed']
        problems = []
        if e['fn'] not in ('average',) or w is None:
            problems.append('the average over atoms is not mass weighted')
        else:
            el = w.elem if w.elem is not None else (w if w.mass else None)
            if el is None or not el.mass:
                problems.append('the weights are not the atomic masses of the species')
        if rem != {'atom'}:
            problems.append(f'the average runs over {sorted(rem)} instead of the atom axis')
        g = arg.geo if arg is not None else None
        if g != ('FRAC', 'N'):
            problems.append(f'averaged coordinates are {geo_text(g)}; unwrapped positions (base + cumulative displacement) required')
        elif arg.bin is not None:
            o, l, r, _, _ = arg.bin
            gs = {l.geo, r.geo}
            if not (o == '+' and ('FDIFF', 'CUM') in gs and any(x is not None and x[0] == 'FRAC' for x in gs)):
                problems.append('positions are not base positions + cumulative displacements')
        ctx.ob('R3', fi, e['node'], not problems, '; '.join(problems) if problems else 'mass-weighted mean of unwrapped positions over atoms')
    # constructor of the centre-of-mass trajectory: one pseudo atom, position mode
    for e in it.events:
        if e['tag'] != 'traj_init' or 'coords' not in e['kwargs']:
            continue
        kw = e['kwargs']
        c = kw.get('coords')
        cad = kw.get('coords_are_displacement')
        ok = c is not None and c.geo == ('FRAC', 'N') and (cad is None or (has_const(cad) and not cval(cad)))
        ctx.ob('R3', fi, e['node'], True if ok else None, 'centre-of-mass positions stored in position mode')
        break


def check_std(ctx):
    std = ctx.p.cls(TMS)
    base = ctx.p.cls(TM)
    for name, fi in sorted(std.methods.items()):
        if name.startswith('__'):
            continue
        bfi = base.methods.get(name)
        if bfi is None:
            ctx.ob('R4', fi, f'{name}', None, 'no base metric of the same name')
            continue
        # calls metric.<x>(...) inside the method
        calls = [c for c in calls_in(fi.node) if isinstance(c.func, ast.Attribute) and c.func.attr in base.methods]
        if not calls:
            ctx.ob('R4', fi, name, False, 'does not evaluate the base metric on the parts')
            continue
        for c in calls:
            problems = []
            if c.func.attr != name:
                problems.append(f'evaluates `{c.func.attr}` instead of `{name}` on the parts')
            # forwards every keyword parameter of its own signature
            own = [a.arg for a in fi.node.args.kwonlyargs + fi.node.args.args[1:]]
            fwd = {k.arg: norm_text(k.value) for k in c.keywords if k.arg}
            for p in own:
                if fwd.get(p) != p:
                    problems.append(f'parameter `{p}` is not forwarded to the base metric')
            for k, v in fwd.items():
                if k not in own:
                    problems.append(f'base metric called with `{k}={v}` which is not a parameter of the Std method')
            ctx.ob('R4', fi, c, not problems, '; '.join(problems) if problems else f'TrajectoryMetrics.{name} on every part, parameters forwarded')
        # unit labels equal to the base method's label
        blabels = {n.args[1].value for n in ast.walk(bfi.node) if isinstance(n, ast.Call) and norm_text(n.func).endswith('FloatWithUnit')
                   and len(n.args) > 1 and isinstance(n.args[1], ast.Constant)}
        # the label of the value the base method returns
        bit = ctx.entry(bfi.qualname)
        ret_label = bit.result.unit_label if bit.result is not None else None
        for n in ast.walk(fi.node):
            if isinstance(n, ast.Call) and norm_text(n.func).endswith('FloatWithUnit') and len(n.args) > 1 and isinstance(n.args[1], ast.Constant):
                lab = n.args[1].value
                if ret_label is None:
                    ctx.ob('R4', fi, n, None, 'unit of the base metric unknown')
                else:
                    ctx.ob('R4', fi, n, lab == ret_label, f'labelled {lab!r} like the base metric' if lab == ret_label else
                           f'mean/std labelled {lab!r} but TrajectoryMetrics.{name} returns {ret_label!r}')
