"""C14 - derived metrics: formulas in normal form, homogeneity degrees (scaling laws), unit labels, Std siblings."""

from __future__ import annotations

import ast

from ..interp import cval, has_const
from ..model_numpy import is_zero_fill
from ..source import norm_text
from .common import calls_in, walk_no_nested
from .formula import check_degree, check_label, label_obligations, match_mono, no_scale_dependent_ops
from .geo import all_geos, geo_text, kind_errors, under, uniq_events

TM = 'gemdat.metrics.TrajectoryMetrics'
TMS = 'gemdat.metrics.TrajectoryMetricsStd'
TRAJ = 'gemdat.trajectory.Trajectory'

MSD = r'mean\[[^\]]*\]\(len\^2\)'
DIFF = {'angstrom': 2, MSD: 1, 'n_frames': -1, 'time_step': -1, 'param:dimensions': -1}

# method -> (degree (L, T, Z), expected normal form or None)
EXPECT = {
    'particle_density': ((-3, 0, 0), (1.0, {'n_atoms': 1, 'volume': -1, 'angstrom': -3})),
    'mol_per_liter': ((-3, 0, 0), (1.0, {'n_atoms': 1, 'volume': -1, 'angstrom': -3, 'Avogadro': -1})),
    'tracer_diffusivity': ((2, -1, 0), (0.5, DIFF)),
    'tracer_diffusivity_center_of_mass': ((2, -1, 0), (0.5, DIFF)),
    'haven_ratio': ((0, 0, 0), None),
    'tracer_conductivity': ((-1, -1, 2), (0.5, {'elementary_charge': 2, 'param:z_ion': 2, 'Boltzmann': -1, 'temperature': -1,
                                               'n_atoms': 1, 'volume': -1, 'angstrom': -1, MSD: 1, 'n_frames': -1,
                                               'time_step': -1, 'param:dimensions': -1})),
    'attempt_frequency': ((0, -1, 0), None),
    'vibration_amplitude': ((1, 0, 0), None),
    'amplitudes': ((1, 0, 0), None),
    'speed': ((1, 0, 0), None),
}


def check(ctx):
    ctx.doc('R1', 'every metric has the homogeneity degree its scaling law states (cell scale L, time step T, ion charge Z) '
                  'and, where the statement gives a formula, exactly that monomial normal form; no scale-dependent '
                  'comparison or transcendental on the way')
    ctx.doc('R2', 'every FloatWithUnit label equals the unit computed from the formula (powers of ten absorbed as unit scale)')
    ctx.doc('R3', 'centre of mass: mass-weighted average over the atom axis of base_positions + cumulative displacements')
    ctx.doc('R4', 'each TrajectoryMetricsStd method calls the same-named TrajectoryMetrics method on every part, forwards '
                  'its keyword parameters and labels mean and std with the base unit')
    ctx.floor('R1', 10, '10 metric methods')
    ctx.doc('K1', '[C20.R1] the metric methods are served through weak_lru_cache: its cache must be keyed on weakref.ref(self) '
                  '(an id()-keyed cache hands a dead object\'s result to a new object at the same address)')
    from .C20 import check_decorator
    check_decorator(ctx, 'K1')
    ctx.floor('R2', 8)
    ctx.floor('R4', 5)
    helpers = {'gemdat.utils.meanfreq', f'{TRAJ}.distances_from_base_position', f'{TRAJ}.center_of_mass', 'gemdat.trajectory._lengths',
               f'{TRAJ}.total_time', f'{TRAJ}.sampling_frequency', f'{TRAJ}.cumulative_displacements'}
    for name, (deg, form) in EXPECT.items():
        fi = ctx.fn(f'{TM}.{name}')
        it = ctx.entry(fi.qualname)
        scope = scope_of(helpers)
        nbad = no_scale_dependent_ops(ctx, 'R1', it, scope)
        nbad += kind_errors(ctx, 'R1', it, scope)
        res = it.result
        vals = res.elts if (res is not None and res.elts) else [res]
        for k, v in enumerate(vals):
            tag = 'return value' if len(vals) == 1 else f'return value [{k}]'
            m = v.mono if v is not None else None
            ok, msg = check_degree(m, deg)
            ctx.ob('R1', fi, tag + ' degree', ok, msg)
            if form is not None and ok:
                ok2, msg2 = match_mono(m, form[0], form[1])
                ctx.ob('R1', fi, tag + ' formula', ok2, msg2)
        label_obligations(ctx, 'R2', it, under(fi.qualname))
    check_com(ctx)
    check_std(ctx)
    check_speed(ctx)


def scope_of(helpers):
    """Events raised in a TrajectoryMetrics method, in one of the trajectory helpers it relies on, or in a private helper of those."""
    from .geo import _helper_like

    def f(e):
        c = e['ctx']
        for i in range(len(c) - 1, -1, -1):
            if c[i].startswith(TM + '.') or c[i] in helpers:
                return all(_helper_like(q) for q in c[i + 1:])
        return False
    f.wants_event = True
    return f


def check_speed(ctx):
    """R5: the per-frame increments telescope to the final distance from the base position only when the difference along the
    frame axis is first order and is started from the constant 0 (the distance of the base position from itself)."""
    ctx.doc('R5', 'speed is the first-order difference of the distances from the base position along the frame axis started '
                  'from the constant 0, so the increments (and the amplitudes that partition them) sum to the final distance')
    ctx.floor('R5', 1)
    fi = ctx.fn(f'{TM}.speed')
    res = ctx.entry(fi.qualname).result
    if res is None or res.diff_of is None or res.diff_kw is None:
        ctx.ob('R5', fi, 'return value', None, 'the increments are not formed by a difference the analysis reads')
        return
    kw = res.diff_kw
    problems = []
    unknown = []
    src = res.diff_of
    if src.geo != ('DIST',):
        unknown.append(f'differenced quantity is {geo_text(src.geo)}, not the distance from the base position')
    n, axis, pre, app = kw.get('n'), kw.get('axis'), kw.get('prepend'), kw.get('append')
    if n is not None:
        if not has_const(n):
            unknown.append('order of the difference not a constant')
        elif cval(n) != 1:
            problems.append(f'difference of order {cval(n)!r}: the increments no longer sum to the final distance')
    if axis is not None:
        if not has_const(axis):
            unknown.append('axis of the difference not a constant')
        elif cval(axis) not in (-1, 1):
            problems.append(f'difference along axis {cval(axis)!r} (atoms) instead of the frame axis')
    if app is not None:
        problems.append('a value is appended before differencing: the increments sum to that value minus the first distance')
    if pre is None:
        problems.append('no starting value is prepended: the increments sum to the final minus the first stored distance')
    elif is_zero_fill(pre):
        pass
    elif has_const(pre):
        problems.append(f'the difference is started from {cval(pre)!r} instead of 0')
    elif pre.geo is not None:
        problems.append(f'the difference is started from a data value ({geo_text(pre.geo)}) instead of the constant 0: the '
                        'increments sum to the final distance minus that value')
    else:
        unknown.append('starting value of the difference not understood')
    verdict = False if problems else (None if unknown else True)
    ctx.ob('R5', fi, 'return value', verdict, '; '.join(problems + unknown) if (problems or unknown) else
           'np.diff(distances from base position, prepend=0) along the frame axis: increments telescope to the final distance')


def check_com(ctx):
    fi = ctx.fn(f'{TRAJ}.center_of_mass')
    it = ctx.entry(fi.qualname)
    reds = [e for e in uniq_events(it, {'reduce'}, under(fi.qualname))]
    if not reds:
        ctx.ob('R3', fi, 'centre of mass', None, 'no average over atoms found')
        return
    for e in reds:
        w = e['weights']
        arg = e['arg']
        rem = e['removed']
        problems = []
        if e['fn'] not in ('average',) or w is None:
            problems.append('the average over atoms is not mass weighted')
        else:
            el = w.elem if w.elem is not None else (w if w.mass else None)
            if el is None or not el.mass:
                problems.append('the weights are not the atomic masses of the species')
        if rem != {'atom'}:
            problems.append(f'the average runs over {sorted(rem)} instead of the atom axis')
        g = arg.geo if arg is not None else None
        if g != ('FRAC', 'N'):
            problems.append(f'averaged coordinates are {geo_text(g)}; unwrapped positions (base + cumulative displacement) required')
        elif arg.bin is not None:
            o, l, r, _, _ = arg.bin
            gs = {l.geo, r.geo}
            if not (o == '+' and ('FDIFF', 'CUM') in gs and any(x is not None and x[0] == 'FRAC' for x in gs)):
                problems.append('positions are not base positions + cumulative displacements')
        ctx.ob('R3', fi, e['node'], not problems, '; '.join(problems) if problems else 'mass-weighted mean of unwrapped positions over atoms')
    # constructor of the centre-of-mass trajectory: one pseudo atom, position mode
    for e in it.events:
        if e['tag'] != 'traj_init' or 'coords' not in e['kwargs']:
            continue
        kw = e['kwargs']
        c = kw.get('coords')
        cad = kw.get('coords_are_displacement')
        ok = c is not None and c.geo == ('FRAC', 'N') and (cad is None or (has_const(cad) and not cval(cad)))
        ctx.ob('R3', fi, e['node'], True if ok else None, 'centre-of-mass positions stored in position mode')
        break


def check_std(ctx):
    std = ctx.p.cls(TMS)
    base = ctx.p.cls(TM)
    from .common import bound_args
    for name, fi in sorted(std.methods.items()):
        if name.startswith('_'):
            continue
        bfi = base.methods.get(name)
        if bfi is None:
            ctx.ob('R4', fi, f'{name}', None, 'no base metric of the same name')
            continue
        it = ctx.entry(fi.qualname)
        # calls of TrajectoryMetrics methods made while the Std method runs (directly, through helpers or getattr)
        seen = set()
        calls = []
        for e in it.events:
            if e['tag'] == 'call' and e['callee'].startswith(TM + '.') and e['callee'].split('.')[-1] in base.methods \
                    and fi.qualname in e['ctx'] and not any(q.startswith(TM + '.') for q in e['ctx']):
                k = (id(e['node']), e['callee'])
                if k not in seen:
                    seen.add(k)
                    calls.append(e)
        if not calls:
            unknown = any(n_[0].startswith('call of unknown callee') for n_ in it.notes if n_[1] and n_[1].startswith(TMS))
            ctx.ob('R4', fi, name, None if unknown else False, 'does not evaluate the base metric on the parts' if not unknown else
                   'evaluation of the base metric on the parts not resolved')
            continue
        own = [a.arg for a in fi.node.args.kwonlyargs + fi.node.args.args[1:]]
        for e in calls:
            problems = []
            callee = e['callee'].split('.')[-1]
            if callee != name:
                problems.append(f'evaluates `{callee}` instead of `{name}` on the parts')
            bound = bound_args(base.methods[callee], e['args'], e['kwargs'], skip_self=True)
            for p in own:
                v = bound.get(p)
                okp = v is not None and ((v.is_param or '').endswith(f'{fi.qualname}:{p}') or bool(v.deps and f'param:{fi.name}.{p}' in v.deps))
                if not okp:
                    problems.append(f'parameter `{p}` is not forwarded to the base metric')
            for k, v in bound.items():
                if k not in own and not (v.is_default):
                    problems.append(f'base metric called with `{k}` which is not a parameter of the Std method')
            ctx.ob('R4', fi, e['node'], not problems, '; '.join(problems) if problems else f'TrajectoryMetrics.{name} on every part, parameters forwarded')
        # unit labels equal to the base method's label
        bit = ctx.entry(bfi.qualname)
        ret_label = bit.result.unit_label if bit.result is not None else None
        for e in uniq_events(it, {'float_with_unit'}, under(fi.qualname)):
            lab = e['label']
            if lab is None:
                ctx.ob('R4', fi, e['node'], None, 'unit label of the mean / std not a constant')
            elif ret_label is None:
                ctx.ob('R4', fi, e['node'], None, 'unit of the base metric unknown')
            else:
                ctx.ob('R4', fi, e['node'], lab == ret_label, f'labelled {lab!r} like the base metric' if lab == ret_label else
                       f'mean/std labelled {lab!r} but TrajectoryMetrics.{name} returns {ret_label!r}')
