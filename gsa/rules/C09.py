"""C09 - free energy: log of the sum-normalised density, -T k_B in eV, non-finite sanitiser, finite thresholds."""

from __future__ import annotations

import ast
import sys

from ..interp import cval, has_const
from ..source import norm_text
from .formula import match_mono, unit_text
from .common import def_map, expand
from .geo import under, uniq_events

VOL = 'gemdat.volume.Volume'
GFE = f'{VOL}.get_free_energy'
FEG = 'gemdat.path.free_energy_graph'


def check(ctx):
    ctx.doc('R1', 'the logarithm is taken of the density divided by its own sum (probability), not of the density or of the '
                  'max-normalised density')
    ctx.doc('R2', 'free energy = -1 * temperature * k_B[eV/K] * log(p): coefficient -1, unit eV')
    ctx.doc('R3', 'the array stored in the FreeEnergyVolume passed a non-finite sanitiser (nan_to_num) on every path')
    ctx.doc('R4', 'graph nodes are admitted under 0 <= F < threshold and every threshold used in the package is finite (below the '
                  'value the sanitiser substitutes for +inf)')
    ctx.floor('R1', 1)
    ctx.floor('R2', 1)
    ctx.floor('R3', 1)
    ctx.floor('R4', 4)
    fi = ctx.fn(GFE)
    it = ctx.entry(GFE)
    logs = uniq_events(it, {'transcendental'}, under(GFE))
    logs = [e for e in logs if e['fn'] == 'log']
    if not logs:
        unresolved = any(n_[0].startswith(('call of unknown callee', 'unmodelled')) for n_ in it.notes)
        ctx.ob('R1', fi, 'logarithm', None if unresolved else False, 'no logarithm is taken: the result is not -kT ln p' if not unresolved else
               'the computation of the free energy goes through calls that were not resolved')
    for e in uniq_events(it, {'masked_ufunc'}, under(GFE, f'{VOL}.probability')):
        if e['fn'] == 'log':
            fill = e['fill']
            ctx.ob('R3', fi, e['node'], False,
                   'the logarithm is evaluated only where the mask holds; never-visited voxels keep the fill value of `out` '
                   f'({"%s" % (fill.const[1],) if fill is not None and fill.const else "uninitialised"}) instead of the prohibitively large energy: '
                   'they become the cheapest voxels and enter the free-energy graph')
    for e in logs:
        a = e['arg']
        nrm = a.norm if a is not None else None
        if a is not None and a.clamp is not None and a.clamp[0] == 'lo':
            parts = [x for x in a.clamp[1:] if x is not None]
            prob_like = any(x.norm is not None for x in parts)
            floor_ = next((x for x in parts if x.norm is None), None)
            positive = floor_ is not None and not (has_const(floor_) and cval(floor_) == 0)
            if prob_like and positive:
                ctx.ob('R1', fi, e['node'], False,
                       'the probabilities are clamped to a small positive floor before the logarithm: never-visited voxels then get a finite, moderate '
                       'energy (hundreds of kT) far below the graph thresholds, so they enter free-energy graphs and paths can cross never-visited space')
                continue
        if nrm is None:
            ctx.ob('R1', fi, e['node'], None if a is None or a.bin is None else False,
                   'argument of the logarithm is not a density divided by its total' if a is not None and a.bin is not None else
                   'argument of the logarithm not recognised as a normalised density')
        elif nrm[0] == 'sum' and nrm[1]:
            ctx.ob('R1', fi, e['node'], True, 'log of density / density.sum() (voxel probability)')
        elif nrm[0] in ('max', 'amax'):
            ctx.ob('R1', fi, e['node'], False, 'log of the max-normalised density: exp(-F/kT) does not sum to one (free energies shifted by kT ln(max/sum))')
        else:
            ctx.ob('R1', fi, e['node'], False, 'the density is divided by the sum of a different array')
        # the density normalised is this volume's data
        src = a.bin[1] if (a is not None and a.bin is not None) else None
        if src is not None and nrm is not None and nrm[0] == 'sum':
            ok = src.store == 'attr:Volume.data' or src.store == 'attr:FreeEnergyVolume.data'
            ctx.ob('R1', fi, 'normalised array', True if ok else None, "the volume's own density" if ok else f'normalised array has provenance {src.store}')
    for q in (f'{VOL}.probability',):
        fpq = ctx.p.functions.get(q)
        if fpq is None:
            continue
        defs = def_map(fpq.node)
        for n in ast.walk(fpq.node):
            if isinstance(n, ast.BinOp) and isinstance(n.op, ast.Div) and norm_text(n.left) == 'self.data':
                den = expand(n.right, defs)
                t = norm_text(den).replace(' ', '')
                if t in ('self.data.sum()', 'np.sum(self.data)', 'self.data.sum(axis=None)'):
                    ctx.ob('R1', fpq, n, True, 'density divided by the sum of the current density')
                elif t.startswith('self.') and t[5:].isidentifier():
                    ctx.ob('R1', fpq, n, False,
                           f'the total density is read from the attribute `{t}` instead of being summed from the current `self.data`: Volume is a '
                           f'mutable dataclass, so after the density is edited or replaced the probabilities no longer sum to one')
    # ---- R2 + R3 from the constructed FreeEnergyVolume
    cons = [e for e in it.events if e['tag'] == 'construct' and e['cls'] == 'gemdat.volume.FreeEnergyVolume']
    if not cons:
        ctx.ob('R3', fi, 'FreeEnergyVolume(...)', None, 'construction of the free-energy volume not found')
    for e in cons[:1]:
        d = e['kwargs'].get('data') or (e['args'][0] if e['args'] else None)
        m = d.mono if d is not None else None
        ok, msg = match_mono(m, -1.0, {'kB_eV': 1, r'param:temperature': 1, r'log\(.*\)': 1})
        if ok is False and m is not None and m.coef is not None and m.coef > 0 and 'numeric factor' in msg:
            msg = 'the sign is positive: denser voxels get a higher free energy'
        ctx.ob('R2', fi, e['node'], ok, '-T k_B ln(p)' if ok else msg)
        if m is not None:
            u = {k: v for k, v in m.unit.items() if v != 0}
            oku = u == {'eV': 1}
            ctx.ob('R2', fi, 'unit of the free energy', oku, 'electron volt' if oku else
                   f'the free energy is computed in {unit_text(u)} although it is documented and consumed (thresholds, plots) as eV')
        san = bool(d is not None and d.sanitized)
        if not san and (d is None or d.mono is None or d.mono_unknown):
            san = None  # the value went through something outside the model: whether it was cleaned there is not known
        ctx.ob('R3', fi, e['node'], san, 'np.nan_to_num applied to the stored array' if san else
               'the stored free energy can contain inf / nan (never-visited voxels have p = 0): graph construction and plots receive '
               'non-finite energies')
    # ---- R4
    fg = ctx.fn(FEG)
    from .common import _conj
    from .C04 import functions_under
    itg = ctx.entry(FEG)
    adds = [e for e in uniq_events(itg, {'graph_add_node'}, under(FEG))]

    def relations(expr, pol):
        """Atomic order relations (left value, op, right value) implied by a condition with polarity."""
        out = []
        for t, p in _conj(expr, pol):
            v = itg.value_of(t)
            if isinstance(t, ast.Compare):
                vals = [itg.value_of(x) for x in [t.left] + list(t.comparators)]
                ops = [type(o) for o in t.ops]
                if len(ops) > 1 and not p:
                    out.append(None)  # negated chain: a disjunction
                    continue
                names = {ast.Lt: '<', ast.LtE: '<=', ast.Gt: '>', ast.GtE: '>='}
                neg = {'<': '>=', '<=': '>', '>': '<=', '>=': '<'}
                for k_, o in enumerate(ops):
                    if o not in names:
                        out.append(None)
                        continue
                    op = names[o] if p else neg[names[o]]
                    out.append((vals[k_], op, vals[k_ + 1]))
            else:
                out.append(None)
        return out

    def mask_relations(m, depth=0):
        if m is None or depth > 4:
            return [None]
        if m.bin is not None and m.bin[0] == '&':
            return mask_relations(m.bin[1], depth + 1) + mask_relations(m.bin[2], depth + 1)
        if m.cmp is not None and m.cmp[0] in ('<', '<=', '>', '>='):
            return [(m.cmp[1], m.cmp[0], m.cmp[2])]
        return [None]

    def is_thr(v):
        return v is not None and bool(v.is_param and v.is_param.endswith(':max_energy_threshold') or (v.deps and any(d.endswith('.max_energy_threshold') for d in v.deps) and v.geo is None))

    def is_zero(v):
        return v is not None and has_const(v) and cval(v) == 0 and not isinstance(cval(v), bool)

    if not adds:
        ctx.ob('R4', fg, 'node admission', None, 'insertion of graph nodes not found')
    for e in adds:
        call = e['node']
        conds = []
        arg0 = call.args[0] if (isinstance(call, ast.Call) and call.args) else None
        if isinstance(call, ast.Call) and isinstance(call.func, ast.Attribute) and call.func.attr == 'add_nodes_from' and isinstance(arg0, (ast.GeneratorExp, ast.ListComp)):
            for g in arg0.generators:
                conds += [(c, True) for c in g.ifs]
        cfg = ctx.cfg(e['where'].qualname)
        nid = cfg.node_of(call)
        if nid is not None:
            conds += list(cfg.guards(nid))
        src_v = itg.cur(arg0) if arg0 is not None else None
        gen = None
        for _ in range(3):
            if src_v is None or gen is not None:
                break
            gen, src_v = src_v.genfn, src_v.of
        key0 = e.get('key')
        if not conds and gen is not None and (key0 is None or key0.selected_by is None):
            # the nodes come out of a generator helper: the guards of its yield admit them
            for y in itg.events:
                if y['tag'] == 'yield' and y['where'] is not None and y['where'].qualname == gen:
                    yv = y['value']
                    first = yv.elts[0] if (yv is not None and yv.ty == 'tuple' and yv.elts) else yv
                    if first is not None and first.voxel:
                        ycfg = ctx.cfg(y['where'].qualname)
                        yid = ycfg.node_of(y['node'])
                        if yid is not None:
                            conds += list(ycfg.guards(yid))
        rels = []
        for t, p in conds:
            rels += relations(t, p)
        key = e.get('key')
        if not rels and key is not None and key.selected_by is not None:
            # the nodes are the positions a boolean mask selects: relations of the mask (conjunction of comparisons)
            rels = mask_relations(key.selected_by)
        lower = upper = None
        opaque = any(r is None for r in rels)
        for r in rels:
            if r is None:
                continue
            l, o, rr = r
            if is_thr(rr) and o in ('<', '<='):
                upper = o
            elif is_thr(l) and o in ('>', '>='):
                upper = {'>': '<', '>=': '<='}[o]
            elif is_zero(l) and o in ('<=', '<'):
                lower = {'<=': '>=', '<': '>'}[o]
            elif is_zero(rr) and o in ('>=', '>'):
                lower = o
        if upper == '<' and lower == '>=':
            ctx.ob('R4', e['where'], call, True, '0 <= F < threshold')
        elif upper == '<=':
            ctx.ob('R4', e['where'], call, False, 'F <= threshold admits voxels whose energy equals the threshold (the substituted value of never-visited voxels when the threshold is that large)')
        elif upper is None and not opaque and rels:
            ctx.ob('R4', e['where'], call, False, 'graph nodes are admitted without an upper energy bound: never-visited voxels enter the graph')
        else:
            ctx.ob('R4', e['where'], call, None, 'admission test not recognised')
    big = sys.float_info.max
    default = fg.node.args.args and None
    a = fg.node.args
    defaults = dict(zip([x.arg for x in a.args][len(a.args) - len(a.defaults):], a.defaults))
    d = defaults.get('max_energy_threshold')
    if d is not None:
        try:
            v = float(ast.literal_eval(d))
            ctx.ob('R4', fg, f'default max_energy_threshold={norm_text(d)}', v < big, 'finite default threshold' if v < big else 'default threshold is not below the sanitiser value')
        except Exception:
            txt = norm_text(d).replace(' ', '')
            inf = txt in ("float('inf')", 'np.inf', 'math.inf', 'float("inf")', 'numpy.inf', 'inf')
            ctx.ob('R4', fg, f'default max_energy_threshold={norm_text(d)}', False if inf else None,
                   'the default threshold is infinite: never-visited voxels (finite, huge substituted energy) pass `F < threshold` and enter the graph'
                   if inf else 'default not a literal')
    for f in ctx.p.functions.values():
        for n in ast.walk(f.node):
            if isinstance(n, ast.Call):
                for k in n.keywords:
                    if k.arg == 'max_energy_threshold':
                        try:
                            v = float(ast.literal_eval(k.value))
                            ok = v < big and v == v
                        except Exception:
                            txt = norm_text(k.value).replace(' ', '')
                            ok = False if txt in ("float('inf')", 'np.inf', 'math.inf', 'float("inf")', 'numpy.inf') else None
                            if ok is None and f.parent is None:
                                # a named constant: its value as seen by the interpreter
                                kv = ctx.entry(f.qualname).value_of(k.value)
                                if kv is not None and has_const(kv) and isinstance(cval(kv), (int, float)):
                                    ok = cval(kv) < big and cval(kv) == cval(kv)
                                elif kv is not None and kv.is_param and kv.is_param.endswith(':max_energy_threshold'):
                                    continue  # forwards its own threshold parameter: checked where that is given
                        ctx.ob('R4', f, n, ok, 'finite threshold: never-visited voxels (huge substituted energy) are excluded' if ok else
                               'threshold is not finite: never-visited voxels enter the graph' if ok is False else 'threshold is not a literal')
