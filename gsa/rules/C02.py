"""C02 - site assignment: frame agreement at the periodic tree, lookup alignment, inner/outer siblings, radius."""

from __future__ import annotations

import ast

from ..interp import cval, has_const
from ..kinds import is_cart, is_frac
from ..source import norm_text
from .common import bound_args, linear, nonneg_form, parse_sx, return_cases, walk_no_nested
from .geo import all_geos, geo_text, kind_errors, under, uniq_events

FT = 'gemdat.transitions.Transitions.from_trajectory'
CAS = 'gemdat.transitions._calculate_atom_states'
CSR = 'gemdat.transitions._compute_site_radius'

EXACT_SEARCHES = ('get_all_distances', 'get_points_in_spheres', 'get_points_in_sphere')


def check(ctx):
    ctx.doc('R1', 'coordinates handed to the periodic KD tree are Cartesian in the frame of the tree box (MDAnalysis '
                  'convention), derived from the same cell parameters as the box')
    ctx.doc('R2', 'the group-local -> global site index lookup is total and aligned (direct indexing or a palette of '
                  'static length), not keyed on the data-dependent set of visited sites')
    ctx.doc('R3', 'outer and inner assignment are the same search; only the inner call passes the inner fraction; the '
                  'search radius is radius * inner_fraction')
    ctx.doc('R4', 'automatic radius: pair distances from the periodic distance matrix over the strict upper triangle; '
                  'overlap test against 2 * radius; shrink to c1 * min_dist - c2 with c1 <= 0.5, c2 >= 0')
    ctx.doc('R5', 'the state array starts as NOSITE and is written only at atom-frame indices with site indices')
    ctx.doc('R6', 'the neighbour search is exact for the cells it can receive (PeriodicKDTree needs a validated box)')
    it = ctx.entry(FT)
    fcas = ctx.fn(CAS)
    in_cas = under(CAS, 'gemdat.utils.integer_remap')

    # ---- R1 frame agreement
    trees = uniq_events(it, {'kdtree_new'}, in_cas)
    coords = uniq_events(it, {'kdtree_coords'}, in_cas)
    ctx.floor('R1', 2, 'set_coords and search_tree')
    for e in coords:
        c = e['coords']
        gs = all_geos(c)
        tree = e['tree']
        box = tree.box if tree is not None else None
        boxed = box is not None and box.geo == ('BOX',)
        if not gs:
            ctx.ob('R1', fcas, e['node'], None, 'kind of the coordinates given to the tree is unknown')
            continue
        g = sorted(gs, key=str)[0]
        if not boxed:
            ctx.ob('R1', fcas, e['node'], None, 'tree box is not a cell-parameter box')
            continue
        if all(is_cart(x) and x[1] == 'MDA' for x in gs):
            src_box = None
            if c.dot is not None and c.dot[1] is not None:
                src_box = c.dot[1].box
            def box_identity(b):
                lat = b.boxof if b is not None else None
                if lat is None:
                    return None
                fm = lat.from_matrix
                return (lat.ty, lat.frame, fm.store if fm is not None else None, lat.sx if lat.sx_fn is None else None)
            same_box = src_box is None or src_box == box
            if not same_box:
                ia, ib = box_identity(src_box), box_identity(box)
                same_box = None if (ia is None or ib is None) else (ia == ib)
            if same_box is False:
                ctx.ob('R1', fcas, e['node'], False, 'the coordinates are expressed with the vectors of a different box than the one given to the tree')
            elif same_box is None:
                ctx.ob('R1', fcas, e['node'], None, 'box of the coordinate frame and box of the tree not comparable')
            else:
                ctx.ob('R1', fcas, e['node'], True, 'Cartesian coordinates in the frame of the tree box')
        elif any(is_cart(x) and x[1] != 'MDA' for x in gs):
            ctx.ob('R1', fcas, e['node'], False,
                   f'{e["which"]} receives {geo_text(g)}, but the tree was built from the six cell parameters only and '
                   f'assumes the MDAnalysis box frame (a along x, b in the xy plane): for a rotated cell or a '
                   f'pymatgen-convention triclinic cell the periodic images are wrong and atoms are assigned to wrong sites')
        else:
            coordlike = all(x[0] in ('FRAC', 'FDIFF', 'CART', 'RAW', 'CARTSQ', 'DIST') for x in gs)
            ctx.ob('R1', fcas, e['node'], False if coordlike else None, f'{e["which"]} receives {geo_text(g)}; Cartesian coordinates in the box frame are required')

    # ---- R6 exactness domain of the search (API precondition)
    for e in trees[:1]:
        ctx.ob('R6', fcas, 'PeriodicKDTree(box=cell parameters)', False,
               'PeriodicKDTree is given the cell parameters of an arbitrary lattice without validation: it misses neighbours '
               'in strongly skewed cells (rhombohedral 60 degree, skewed triclinic) even with coordinates in its own frame')
    if not trees:
        # another search: accepted when it is one of the exact periodic searches
        exact = [e for e in uniq_events(it, {'pbc_distance'}, in_cas)]
        ctx.ob('R6', fcas, 'neighbour search', True if exact else None,
               'exact periodic distance search' if exact else 'no recognised neighbour search in _calculate_atom_states')

    # ---- R2 lookup alignment
    dig = uniq_events(it, {'digitize'}, in_cas)
    flagged = False
    for e in dig:
        x, bins = e['x'], e['bins']
        if x is not None and x.idx == ('LOCALSITE',):
            if bins is not None and bins.datadep_len:
                flagged = True
                ctx.ob('R2', fcas, 'integer_remap(a=siteno, key=key, palette=np.unique(siteno))', False,
                       'group-local site numbers are looked up through a palette of the *visited* numbers (np.unique of '
                       'the search result) against a key holding *all* sites of the label: when a site of the group is never '
                       'visited the two are misaligned and atoms are reported at the wrong site')
            elif bins is not None and bins.arange_n is not None:
                ctx.ob('R2', fcas, e['node'], True, 'palette is the full static index range')
            else:
                ctx.ob('R2', fcas, e['node'], None, 'unrecognised palette for the site-number lookup')
                flagged = True
    # the value written into the state array
    stores = [e for e in uniq_events(it, {'store'}, under(CAS)) if e['kind'] == 'sub']
    ctx.floor('R5', 1)
    for e in stores:
        base, idx, val = e['base'], e['index'], e['value']
        if base is None or base.alloc != 'full':
            continue
        fill = base.fill
        nos = fill is not None and (fill.gname == 'gemdat.transitions.NOSITE' or (has_const(fill) and cval(fill) == -1))
        ok_idx = idx is not None and idx.idx == ('ATOMFRAME',)
        vi = val.idx if val is not None else None
        members = (vi[1] if vi[0] == 'JOIN' else {vi}) if vi is not None else set()
        ok_val = bool(members) and all(m[0] == 'SITE' or m == ('LOCALSITE',) for m in members)
        mem_ = (vi[1] if vi[0] == 'JOIN' else {vi}) if vi is not None else set()
        mixed = any(m[0] == 'MIX' and any(x == ('LOCALSITE',) for x in m[1:]) for m in mem_)
        if mixed:
            ctx.ob('R2', fcas, e['node'], False,
                   f'group-local site numbers are turned into global ones by arithmetic (`{norm_text(e["stmt"].value) if e.get("stmt") is not None and hasattr(e["stmt"], "value") else "offset"}`): '
                   f'that is correct only when all sites of a label are stored consecutively; with interleaved labels atoms are assigned to other sites')
            flagged = True
            continue
        if not nos:
            ctx.ob('R5', fcas, e['node'], False, 'state array is not initialised with the no-site marker')
        elif idx is not None and idx.idx == ('LOCALSITE',):
            ctx.ob('R5', fcas, e['node'], False, 'search-result columns swapped: site numbers are used as atom positions')
        elif not ok_idx or not ok_val:
            ctx.ob('R5', fcas, e['node'], None, f'unrecognised write into the state array (index {idx.idx if idx else None}, value {vi})')
        else:
            ctx.ob('R5', fcas, e['node'], True, 'NOSITE-initialised; written at atom-frame indices with site indices')
        if not flagged and val is not None:
            if ok_val and any(m[0] == 'SITE' for m in members):
                ctx.ob('R2', fcas, e['node'], True, 'global site indices obtained by an aligned lookup')
            elif vi == ('LOCALSITE',):
                # only correct when no key is in use (all sites searched at once)
                ctx.ob('R2', fcas, e['node'], True, 'local = global numbering (single group)')

    for n_ in ast.walk(fcas.node):
        if isinstance(n_, ast.Assign) and len(n_.targets) == 1 and norm_text(n_.targets[0]) == 'key' and isinstance(n_.value, ast.BinOp) \
                and isinstance(n_.value.op, ast.Add) and 'arange' in norm_text(n_.value):
            ctx.ob('R2', fcas, n_, False, 'the local -> global site lookup is built as offset + arange(count): it assumes that the sites of a label are '
                                          'stored consecutively; with interleaved labels atoms are assigned to other sites')
            flagged = True
    # ---- R3 sibling calls + radius product
    calls = [e for e in it.events if e['tag'] == 'call' and e['callee'] == CAS and e['where'] is not None and e['where'].qualname == FT]
    seen = set()
    calls = [e for e in calls if not (id(e['node']) in seen or seen.add(id(e['node'])))]
    ffi = ctx.fn(FT)
    ctx.floor('R3', 2)
    if len(calls) != 2:
        ctx.ob('R3', ffi, 'calls of _calculate_atom_states', None if calls else False, f'{len(calls)} state computations instead of outer + inner')
    else:
        cas_fi = ctx.fn(CAS)
        a, b = (bound_args(cas_fi, c['args'], c['kwargs']) for c in calls)
        with_frac = [x for x in (a, b) if 'site_inner_fraction' in x]
        common = ('sites', 'trajectory', 'site_radius')
        same = all(a.get(k) is not None and b.get(k) is not None and a[k] == b[k] for k in common)
        if len(with_frac) != 1:
            ctx.ob('R3', ffi, calls[1]['node'], False, 'exactly one of the two assignments (the inner one) must receive the inner fraction'
                   if len(with_frac) == 0 else 'both assignments receive the inner fraction: the outer states are shrunk too')
        elif not same:
            ctx.ob('R3', ffi, calls[1]['node'], False, 'outer and inner assignment use different sites / trajectory / radius')
        else:
            inner = calls[0] if 'site_inner_fraction' in a else calls[1]
            v = inner['kwargs'].get('site_inner_fraction')
            dep = f'param:from_trajectory.site_inner_fraction'
            ok = v is not None and v.deps and dep in v.deps
            ctx.ob('R3', ffi, inner['node'], True if ok else False,
                   'inner call passes the inner fraction' if ok else 'the inner fraction passed is not the user parameter')
            # which result becomes inner_states
            cons = [e for e in it.events if e['tag'] == 'construct' and e['where'] is not None and e['where'].qualname == FT and e['cls'] == 'gemdat.transitions.Transitions']
            for c in cons[:1]:
                tfi = ctx.p.find_method(ctx.p.classes['gemdat.transitions.Transitions'], '__init__')
                kw = bound_args(tfi, c['args'], c['kwargs'], skip_self=True) if tfi is not None else dict(c['kwargs'])
                by_sx = {it.sx(x['node']): x for x in calls}
                si = by_sx.get(kw['inner_states'].sx) if kw.get('inner_states') is not None else None
                so = by_sx.get(kw['states'].sx) if kw.get('states') is not None else None
                if si is not None and so is not None:
                    ok = si is inner and so is not inner
                    ctx.ob('R3', ffi, c['node'], ok, 'states = outer result, inner_states = inner result' if ok else
                           'outer and inner state arrays are swapped in the Transitions object')
    for e in uniq_events(it, {'kdtree_search'}, in_cas):
        r = e['radius']
        ok = None
        detail = 'search radius not recognised'
        if r is not None and r.bin is not None:
            o, l, rr, _, _ = r.bin
            dl, dr = (l.deps or frozenset()), (rr.deps or frozenset())
            rad = 'param:_calculate_atom_states.site_radius'
            frac = 'param:_calculate_atom_states.site_inner_fraction'
            sides_ok = (rad in dl and frac in dr and frac not in dl) or (rad in dr and frac in dl and frac not in dr)
            if sides_ok and o == '*':
                ok, detail = True, 'radius * inner fraction'
            elif sides_ok:
                ok, detail = False, f'search radius combines radius and inner fraction with `{o}` instead of a product'
        elif r is not None and r.deps and 'param:_calculate_atom_states.site_inner_fraction' not in r.deps:
            ok, detail = False, 'the search radius does not depend on the inner fraction'
        ctx.ob('R3', fcas, e['node'], ok, detail)

    # ---- R5 (continued): every site group is searched - the loop over the labels has no early exit
    from .C04 import functions_under
    from .common import parent_map, walk_no_nested
    for f_ in functions_under(it, CAS, ctx.p):
        if f_.qualname != CAS and not in_cas({'ctx': [CAS, f_.qualname]}):
            continue
        pm_ = parent_map(f_.node)
        for loop in walk_no_nested(f_.node):
            if not isinstance(loop, ast.For):
                continue
            base_ = loop.iter.func.value if (isinstance(loop.iter, ast.Call) and isinstance(loop.iter.func, ast.Attribute)
                                             and loop.iter.func.attr in ('items', 'keys', 'values')) else loop.iter
            src = it.cur(base_)
            over_radius = src is not None and any(d_.endswith('.site_radius') for d_ in (src.origin or ()))
            if not over_radius:
                continue
            for b in walk_no_nested(loop):
                if isinstance(b, (ast.Break, ast.Return)):
                    p_ = pm_.get(id(b))
                    while p_ is not None and not isinstance(p_, (ast.For, ast.While)):
                        p_ = pm_.get(id(p_))
                    if p_ is loop:
                        ctx.ob('R5', f_, b, False, 'the loop over the site groups (labels) is left early: the groups after this one are never searched, '
                                                   'their atoms stay at "no site"')
    # ---- R4 automatic radius
    check_radius(ctx)


def _offdiag(m):
    """True: the mask excludes the diagonal; False: it includes it; None: not a mask over matrix positions."""
    if m.cmp is not None and len(m.cmp) >= 3:
        o, l, r = m.cmp[0], m.cmp[1], m.cmp[2]
        if l is not None and r is not None and l.indexgrid is not None and r.indexgrid is not None and l.indexgrid != r.indexgrid:
            return True if o in ('<', '>', '!=') else (False if o in ('<=', '>=') else None)
    if m.inv_of is not None and m.inv_of.eye is not None:
        return True if m.inv_of.eye == 0 else None
    return None


def check_radius(ctx):
    fi = ctx.fn(CSR)
    it = ctx.entry(CSR)
    ctx.floor('R4', 3)
    kind_errors(ctx, 'R4', it, under(CSR), strict=True)
    from .geo import EUCLID_QUERY
    for e in uniq_events(it, {'euclid_query'}, under(CSR)):
        ctx.ob('R4', e['where'], e['node'], False, EUCLID_QUERY + ': the radius is not capped by the closest pair of sites when that pair straddles a cell face')
    dists = uniq_events(it, {'pbc_distance'}, under(CSR))
    if not dists and not any(o.rule.endswith('R4') and o.status == 'violated' for o in ctx.obs):
        ctx.ob('R4', fi, 'pair distances', None, 'pair distances do not come from a periodic distance call')
    for e in dists:
        a, b = e['a'], e['b']
        ok = a is not None and b is not None and a.of_struct and b.of_struct and is_frac(a.geo) and is_frac(b.geo)
        ctx.ob('R4', fi, e['node'], True if ok else None, 'minimum-image distances between all site pairs')
    # strict upper triangle
    tri = [n for n in ast.walk(fi.node) if isinstance(n, ast.Call) and norm_text(n.func).endswith(('triu_indices_from', 'triu_indices'))]
    for n in tri:
        v = it.value_of(n)
        k = v.triu[1] if (v is not None and v.triu) else None
        if k is None:
            kw = [x for x in n.keywords if x.arg == 'k']
            k = kw[0].value.value if kw and isinstance(kw[0].value, ast.Constant) else None
        ctx.ob('R4', fi, n, (k >= 1) if isinstance(k, int) else None,
               'strict upper triangle (no self distances)' if isinstance(k, int) and k >= 1 else
               'the diagonal (distance of a site to itself = 0) is included in the minimum: the radius collapses')
    if not tri:
        # on values: a boolean mask over the distance matrix built from index grids (col > row) or from the identity (~eye)
        found = False
        for e in uniq_events(it, {'index'}, under(CSR)):
            items = e.get('items') or ([e['index']] if e.get('index') is not None else [])
            if len(items) != 1 or items[0] is None:
                continue
            strict = _offdiag(items[0])
            if strict is None:
                continue
            found = True
            ctx.ob('R4', fi, e['node'], strict, 'pairs of different sites only (no self distances)' if strict else
                   'the diagonal (distance of a site to itself = 0) is included in the minimum: the radius collapses')
        if not found:
            ctx.ob('R4', fi, 'minimum over site pairs', None, 'pair selection idiom not recognised')
    # every returned radius r satisfies 2 r <= minimum site distance: either r = c1 * min + c2 (c1 <= 1/2, c2 <= 0), or r is
    # returned under a condition that implies min >= 2 r
    cfg = ctx.cfg(CSR)
    mins = []
    for n in walk_no_nested(fi.node):
        v = it.last.get(id(n)) if isinstance(n, ast.Call) else None
        if v is not None and v.red is not None and v.red[0] in ('min', 'amin', 'nanmin') and v.geo == ('DIST',):
            mins.append(it.sx(n))
    cases = return_cases(it, fi, cfg)
    if not mins or not cases:
        ctx.ob('R4', fi, 'returned radius', None, 'minimum site distance or returned value not recognised')
        return
    M = norm_text(parse_sx(mins[0], full=True)) if parse_sx(mins[0], full=True) is not None else mins[0]
    for r, conds, e in cases:
        if e is None:
            ctx.ob('R4', fi, r, None, 'returned radius has no derivable expression')
            continue
        lf = linear(e, {M})
        if lf is not None and lf[0][M] != 0:
            c1, c2 = lf[0][M], lf[1]
            ok = c1 <= 0.5 and c2 <= 0
            ctx.ob('R4', fi, r, ok, f'radius = {c1:g} * min_dist {c2:+g}: spheres cannot overlap' if ok else
                   f'radius = {c1:g} * min_dist {c2:+g}: two site spheres can overlap, the assignment is no longer unique')
            continue
        V = norm_text(e)
        verdict, why = None, 'no condition relating the returned radius to the minimum site distance was recognised'
        for t, pol in conds:
            f = nonneg_form(t, pol, {M, V})
            if f is None or f[0][M] == 0 or f[0][V] == 0:
                continue
            m, v, c = f[0][M], f[0][V], f[1]
            if m < 0:
                # an upper bound on the minimum distance: this is the overlapping branch, the radius must be shrunk there
                verdict, why = False, 'the unshrunk radius is returned although the minimum site distance is below the overlap threshold'
                break
            k = -v / m
            if k >= 2 and c <= 0:
                verdict, why = True, f'returned only when min_dist >= {k:g} * radius'
                break
            verdict, why = False, (f'radius returned unshrunk when min_dist >= {k:g} * radius: spheres of sites closer than twice '
                                   f'the radius overlap, the assignment is no longer unique')
        ctx.ob('R4', fi, r, verdict, why)


def affine(node, var):
    """node == c1 * var + c2 (constants literal) -> (c1, c2) else (None, None)"""
    def lit(n):
        if isinstance(n, ast.Constant) and isinstance(n.value, (int, float)):
            return float(n.value)
        if isinstance(n, ast.UnaryOp) and isinstance(n.op, ast.USub):
            v = lit(n.operand)
            return -v if v is not None else None
        return None

    def lin(n):
        if norm_text(n) == var:
            return 1.0, 0.0
        v = lit(n)
        if v is not None:
            return 0.0, v
        if isinstance(n, ast.BinOp):
            a, b = lin(n.left), lin(n.right)
            if a[0] is None or b[0] is None:
                return None, None
            if isinstance(n.op, ast.Add):
                return a[0] + b[0], a[1] + b[1]
            if isinstance(n.op, ast.Sub):
                return a[0] - b[0], a[1] - b[1]
            if isinstance(n.op, ast.Mult):
                if a[0] == 0:
                    return a[1] * b[0], a[1] * b[1]
                if b[0] == 0:
                    return a[0] * b[1], a[1] * b[1]
            if isinstance(n.op, ast.Div) and b[0] == 0 and b[1] != 0:
                return a[0] / b[1], a[1] / b[1]
        return None, None

    return lin(node)
