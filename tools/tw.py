"""Run selected property checks on one patch (in memory) and print the full report. usage: tw.py <dir|patch> C01 [C02 ...]"""
import os, sys
sys.path.insert(0, '/verif'); sys.dont_write_bytecode = True
from tools.seedeval import patched_sources, PROPS
from gsa.driver import run_property

def main():
    d = sys.argv[1]
    pf = d if d.endswith('.diff') else os.path.join(d, 'patch.diff')
    ov, err = patched_sources(pf)
    if ov is None:
        print('patch does not apply', err); return
    for p in (sys.argv[2:] or PROPS):
        code, lines, ctx = run_property(p, 'quick', '/repo', overrides=ov, write=False)
        print(f'== {p} exit {code}')
        for ln in lines:
            if ln.startswith(('ANALYSIS-ERROR', '  ')) and 'construct:' not in ln[:14] or ln.startswith('  construct'):
                print(ln[:400])

main()
