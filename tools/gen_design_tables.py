"""Markdown tables for DESIGN.md section 12 from seeded/RESULTS.json and twins_indep/RESULTS.json."""
import glob, json, os
V = '/verif'
seed = json.load(open(f'{V}/seeded/RESULTS.json'))
print('| change | target | what was changed (agent summary, shortened) | reported by | rule of the target check |')
print('|---|---|---|---|---|')
for sid in sorted(seed):
    r = seed[sid]
    meta = {}
    try:
        meta = json.load(open(f'{V}/seeded/{sid}/meta.json'))
    except Exception:
        pass
    summ = (meta.get('summary') or '').replace('|', '/').replace('\n', ' ')[:150]
    tgt = r.get('target')
    rep = r.get('report', {}).get(tgt) or next(iter(r.get('report', {}).values()), '')
    rule = rep.split(' ')[0] if rep else ''
    by = ', '.join(r.get('caught_by', [])) or ('— (undecided: ' + ', '.join(r.get('undecided', [])) + ')' if r.get('undecided') else '— **missed**')
    print(f'| {sid} | {tgt} | {summ} | {by} | {rule} |')
print()
tw_file = f'{V}/twins_indep/RESULTS.json'
if os.path.exists(tw_file):
    tw = json.load(open(tw_file))
    print('| refactoring | what was refactored (agent summary, shortened) | verdict of the 20 checks |')
    print('|---|---|---|')
    for tid in sorted(tw):
        meta = {}
        try:
            meta = json.load(open(f'{V}/twins_indep/{tid}/meta.json'))
        except Exception:
            pass
        summ = (meta.get('summary') or '').replace('|', '/').replace('\n', ' ')[:170]
        bad = tw[tid]
        verdict = 'silent' if not bad else ', '.join(f'{p}: {"undecided (exit 2)" if c == 2 else "FALSE ALARM (exit 1)"}' for p, c in sorted(bad.items()))
        print(f'| {tid} | {summ} | {verdict} |')
