"""Evaluate independently written behaviour-preserving refactorings: every check must stay at exit 0.
usage: twineval.py --all /tmp/twins_out | twineval.py --kept | twineval.py <dir>..."""
import glob, json, os, sys
sys.path.insert(0, '/verif'); sys.dont_write_bytecode = True
from concurrent.futures import ProcessPoolExecutor
from tools.seedeval import patched_sources, run_one, PROPS

def main():
    args = sys.argv[1:]
    if args and args[0] == '--all':
        dirs = sorted(os.path.dirname(p) for p in glob.glob(os.path.join(args[1], '*', '*', 'patch.diff')))
    elif args and args[0] == '--kept':
        dirs = sorted(os.path.dirname(p) for p in glob.glob('/verif/twins_indep/*/patch.diff'))
    else:
        dirs = args
    noisy = 0
    table = {}
    with ProcessPoolExecutor(max_workers=14) as pool:
        for d in dirs:
            ov, err = patched_sources(os.path.join(d, 'patch.diff'))
            if ov is None:
                print(f'{d}: patch does not apply'); continue
            res = list(pool.map(run_one, [(p, ov) for p in PROPS]))
            bad = [(p, c, m) for p, c, m in res if c != 0]
            table[os.path.basename(d) if args[0] == '--kept' else d] = {p: c for p, c, m in bad}
            if bad:
                noisy += 1
                print(f'{d}: NOT SILENT ' + ', '.join(f'{p}:exit{c}' for p, c, m in bad))
                for p, c, m in bad[:3]:
                    print(f'     {p}: {m}')
            else:
                print(f'{d}: silent')
    print(f'{len(dirs) - noisy}/{len(dirs)} silent')
    if args and args[0] == '--kept':
        json.dump(table, open('/verif/twins_indep/RESULTS.json', 'w'), indent=1, sort_keys=True)

if __name__ == '__main__':
    main()
