"""Run the benign-twin corpus in memory: every check must keep exit 0.  tools/twins.py [-a] [ids...]"""
import sys, os
sys.path.insert(0, '/verif'); sys.dont_write_bytecode = True
from concurrent.futures import ProcessPoolExecutor
from gsa.corpus.twins import T
PROPS = [f'C{i:02d}' for i in range(1, 21)]

def run(args):
    tid, prop, rel, src = args
    from gsa.driver import run_property
    code, lines, ctx = run_property(prop, 'quick', '/repo', overrides={rel: src}, write=False)
    msg = ''
    if code != 0:
        msg = next((l for l in lines if l.startswith(('  C', 'ANALYSIS-ERROR'))), lines[0] if lines else '')[:260]
    return tid, prop, code, msg

def main():
    ids = [a for a in sys.argv[1:] if not a.startswith('-')]
    all_props = '-a' in sys.argv
    jobs = []
    for tid, file, old, new, props in T:
        if ids and tid not in ids: continue
        rel = f'src/gemdat/{file}'
        src = open(f'/repo/{rel}').read()
        pairs = old if isinstance(old, list) else [(old, new)]
        if any(src.count(o) != 1 for o, n in pairs):
            print(f'{tid}: N/A (recipe does not match exactly once)'); continue
        msrc = src
        for o, n in pairs:
            msrc = msrc.replace(o, n)
        for p in (PROPS if all_props else props):
            jobs.append((tid, p, rel, msrc))
    bad = 0
    with ProcessPoolExecutor(max_workers=14) as pool:
        for tid, prop, code, msg in pool.map(run, jobs):
            if code != 0:
                bad += 1
                print(f'{tid} {prop}: exit {code}  {msg}')
    print(f'{len(jobs)} runs, {bad} not silent')

if __name__ == '__main__':
    main()
