"""Evaluate seeded defects against the checks, in memory (no edit of /repo).

usage: seedeval.py <dir with patch.diff> [...]   |   seedeval.py --all /tmp/seeded_out  |  seedeval.py --kept
For each patch: patched sources are computed with `patch` on a scratch copy of the touched files, then every property
check runs with those sources as overrides. Prints which properties report VIOLATION (1) / ANALYSIS-ERROR (2).
"""
import glob
import json
import os
import re
import shutil
import subprocess
import sys
import tempfile
from concurrent.futures import ProcessPoolExecutor

sys.path.insert(0, '/verif')
sys.dont_write_bytecode = True

PROPS = [f'C{i:02d}' for i in range(1, 21)]


def patched_sources(patch_file, root='/repo'):
    txt = open(patch_file).read()
    files = sorted(set(re.findall(r'^\+\+\+ b/(\S+)', txt, flags=re.M)))
    td = tempfile.mkdtemp(prefix='seedeval_', dir='/dev/shm' if os.path.isdir('/dev/shm') else None)
    try:
        for f in files:
            os.makedirs(os.path.dirname(os.path.join(td, f)), exist_ok=True)
            if os.path.exists(os.path.join(root, f)):
                shutil.copy(os.path.join(root, f), os.path.join(td, f))
        r = subprocess.run(['patch', '-p1', '-s', '-f', '-i', os.path.abspath(patch_file)], cwd=td, capture_output=True, text=True)
        if r.returncode != 0:
            return None, r.stdout + r.stderr
        out = {}
        for f in files:
            if f.endswith('.py') and f.startswith('src/gemdat'):
                out[f] = open(os.path.join(td, f)).read()
        return out, ''
    finally:
        shutil.rmtree(td, ignore_errors=True)


def run_one(args):
    prop, overrides = args
    from gsa.driver import run_property
    code, lines, ctx = run_property(prop, 'quick', '/repo', overrides=overrides, write=False)
    first = ''
    for i, ln in enumerate(lines):
        if ln.startswith('VIOLATION') and i + 1 < len(lines):
            first = lines[i + 1].strip()[:230]
            break
        if ln.startswith('ANALYSIS-ERROR'):
            first = ln[:230]
            break
    return prop, code, first


def evaluate(d, pool):
    pf = os.path.join(d, 'patch.diff')
    meta = {}
    try:
        meta = json.load(open(os.path.join(d, 'meta.json')))
    except Exception:
        pass
    ov, err = patched_sources(pf)
    if ov is None:
        return dict(dir=d, error='patch does not apply: ' + err[:200])
    res = list(pool.map(run_one, [(p, ov) for p in PROPS]))
    return dict(dir=d, target=meta.get('property'), summary=meta.get('summary', '')[:160],
                hits={p: msg for p, c, msg in res if c == 1}, errors={p: msg for p, c, msg in res if c == 2})


def main():
    args = sys.argv[1:]
    if args and args[0] == '--all':
        dirs = sorted(os.path.dirname(p) for p in glob.glob(os.path.join(args[1], '*', '*', 'patch.diff')))
    elif args and args[0] == '--kept':
        dirs = sorted(os.path.dirname(p) for p in glob.glob('/verif/seeded/*/patch.diff'))
    elif args and args[0] == '--merge':
        dirs = args[1:]
    else:
        dirs = args
    caught = 0
    table = {}
    with ProcessPoolExecutor(max_workers=14) as pool:
        for d in dirs:
            r = evaluate(d, pool)
            if 'error' not in r:
                table[os.path.basename(d)] = dict(target=r['target'], caught_by=sorted(r['hits']), undecided=sorted(r['errors']),
                                                  report={p: m for p, m in r['hits'].items()})
            if 'error' in r:
                print(f'{d}: {r["error"]}')
                continue
            tgt = r['target']
            hit_t = tgt in r['hits']
            any_hit = bool(r['hits'])
            caught += any_hit
            print(f'{d}: target={tgt} {"CAUGHT" if hit_t else ("caught-by-other" if any_hit else "MISSED")} '
                  f'hits={sorted(r["hits"])} errors={sorted(r["errors"])}')
            print(f'     {r["summary"]}')
            for p, m in list(r['hits'].items())[:2]:
                print(f'     {p}: {m}')
            if not any_hit:
                for p, m in list(r['errors'].items())[:2]:
                    print(f'     ERR {p}: {m}')
    print(f'caught {caught}/{len(dirs)}')
    if args and args[0] == '--merge':
        full = json.load(open('/verif/seeded/RESULTS.json'))
        full.update(table)
        table = full
    if args and args[0] in ('--kept', '--merge'):
        with open('/verif/seeded/RESULTS.json', 'w') as f:
            json.dump(table, f, indent=1, sort_keys=True)


if __name__ == '__main__':
    main()
